"""C28 — The LSP server answers every request and never dies.

Proof: GardenVerif.Props.C28 over the dispatch model LspDispatch.handle/run (Model/LspDispatch.lean), for
every method table satisfying `wfTable`.
Ties: (T) the method table `gardenMethods` vs the match arms of `handle_message` re-read from src/lsp.rs;
(C) generated client sessions through `garden reftest-lsp` AND the real framed `garden lsp` process vs the
model (`lsp_run`): responses in order with ids, error code vs result, "no such document" results,
publishDiagnostics uris, exit status.
Direct oracle (implementation only): every request id answered exactly once, nothing else answered, process
alive (final probe answered) until `exit`, exit status 0/1, no panic / abort / hang; tolerated framing
variations and recoverable garbage do not change the answers; published diagnostics equal
`garden check --json` on the same text (messages, severities, ranges converted to UTF-16).
"""
import json
import os
import re
import shutil

from . import common
from . import lsp_client as L

LEAN_MODULES = ["GardenVerif.Props.C28"]

SEV = {"error": 1, "warning": 2}


# ---------------------------------------------------------------------------------- table tie (T)
def extract_table(src):
    """Re-read the arms of `match parsed.method.as_deref()` in handle_message."""
    start = src.index("fn handle_message(")
    body = src[start:src.index("\n}\n", start)]
    rows = []
    for m in re.finditer(r'\n        Some\("([^"]*)"\) => \{(.*?)\n        \}', body, re.S):
        name, arm = m.group(1), m.group(2)
        if "push_request_response" in arm:
            kind = "request"
        elif "handle_did_open" in arm:
            kind = "didOpen"
        elif "handle_did_change" in arm:
            kind = "didChange"
        elif "handle_did_close" in arm:
            kind = "didClose"
        elif "Action::Shutdown" in arm:
            kind = "shutdown"
        elif "Action::Exit" in arm:
            kind = "exit"
        elif re.sub(r"//.*", "", arm).strip() == "":
            kind = "noop"
        else:
            kind = "other:" + " ".join(arm.split())[:60]
        doc = 1 if kind == "request" and "documents" in arm else 0
        rows.append((name, kind, doc))
    return rows


def model_table(line):
    rows = []
    for t in re.findall(r"\(([^()]*)\)", line[3:]):
        f = t.split()
        rows.append((bytes.fromhex(f[0][1:]).decode(), f[1], int(f[2])))
    return rows


# ---------------------------------------------------------------------------------- comparison
def compare_outs(session, impl_outs, model_outs, origin, complete):
    """None if the implementation's outputs match the model's; else a description.  When the
    implementation died (`complete` False) only the prefix it produced is compared."""
    cl = [L.classify_out(o) for o in impl_outs]
    if complete and len(cl) != len(model_outs):
        return "model expects %d outputs, implementation sent %d" % (len(model_outs), len(cl))
    if len(cl) > len(model_outs):
        return "implementation sent %d outputs, model expects only %d" % (len(cl), len(model_outs))
    for j, (c, mo) in enumerate(zip(cl, model_outs)):
        src = session[origin[j]]["obj"]
        where = "output %d (caused by message %d: %s)" % (j, origin[j], L.canon(src)[:120])
        if c[0] == "?":
            return "%s: unclassifiable server message %s" % (where, json.dumps(c[1])[:200])
        if mo[0] == "r":
            if c[0] != "r":
                return "%s: model expects a response, got a notification" % where
            if c[1] != mo[1]:
                return "%s: response id %s, model expects %s" % (where, c[1], mo[1])
            want = mo[2]
            if want == "value":
                ok = c[2] == "res"
            elif want == "null":
                ok = c[2] == "res" and c[3] is None
            elif want == "empty":
                method = src.get("method") if isinstance(src, dict) else src[2]
                lit = L.REQUESTS.get(method, (None, None))[1]
                ok = c[2] == "res" and lit is not None and L.canon(c[3]) == lit
            else:
                ok = c[2] == "err:%s" % want
            if not ok:
                return "%s: model expects %s, implementation %s %s" % (where, want, c[2], L.canon(c[3])[:80])
        else:
            if c[0] != "p":
                return "%s: model expects publishDiagnostics, got a response" % where
            if c[1] != mo[1]:
                return "%s: published for uri %r, model expects %r" % (where, c[1], mo[1])
            if mo[2] is None and c[2] != []:
                return "%s: didClose must clear diagnostics, got %s" % (where, json.dumps(c[2])[:100])
    return None


def oracle_session(ctx, session, impl_outs, label, replay):
    """Direct oracle on one run of the implementation (no model): answers per id."""
    want = {}
    gray = {}
    consumed = []
    for m in session:
        exp, is_exit = L.spec_expectation(m["obj"])
        consumed.append(m)
        if exp[0] == "request":
            want[exp[1]] = want.get(exp[1], 0) + 1
        elif exp[0] == "gray" and exp[1] is not None:
            gray[exp[1]] = gray.get(exp[1], 0) + 1
        if is_exit:
            break
    got = {}
    for o in impl_outs:
        c = L.classify_out(o)
        if c[0] == "r":
            got[c[1]] = got.get(c[1], 0) + 1
        elif c[0] == "?":
            ctx.fail("C28/malformed-server-message", "the server sent something that is neither a response nor a "
                     "publishDiagnostics notification: %s" % json.dumps(o)[:200], via=label, **replay)
    for i, n in want.items():
        g = got.get(i, 0)
        lo, hi = n, n + gray.get(i, 0)
        if g < lo:
            ctx.fail("C28/request-unanswered", "request id %s sent %d time(s), answered %d time(s)" % (i, n, g),
                     via=label, **replay)
        elif g > hi:
            ctx.fail("C28/request-answered-twice", "request id %s sent %d time(s), answered %d time(s)" % (i, n, g),
                     via=label, **replay)
    for i, g in got.items():
        if i not in want and g > gray.get(i, 0):
            ctx.fail("C28/unsolicited-response", "response with id %s although no request carried it "
                     "(notification answered / wrong id)" % i, via=label, **replay)


# ---------------------------------------------------------------------------------- diagnostics
def utf16_len(b):
    return len(b.decode("utf-8").encode("utf-16-le")) // 2


def conv(lines, line, col):
    """UTF-16 column of byte column `col` in line `line`; None if it is not a char boundary there."""
    if line < 0 or line >= len(lines) or col > len(lines[line]):
        return None
    try:
        return utf16_len(lines[line][:col])
    except UnicodeDecodeError:
        return None


def expected_from_check(text, check_stdout):
    """LSP diagnostics predicted from `garden check --json` (line 1-based, byte columns).  Each endpoint whose
    conversion is impossible is None (resolved with offsets from the hook)."""
    lines = text.encode("utf-8").split(b"\n")
    out = []
    for ln in check_stdout.split("\n"):
        ln = ln.strip()
        if not ln.startswith("{"):
            continue
        d = json.loads(ln)
        sl, el = d["line_number"] - 1, d["end_line_number"] - 1
        out.append(dict(message=d["message"], severity=SEV.get(d["severity"]),
                        start=(sl, conv(lines, sl, d["column"])), end=(el, conv(lines, el, d["end_column"]))))
    return out


def expected_from_hook(text, hook_line):
    """Same from the `check` hook op, which reports byte offsets: exact UTF-16 columns."""
    b = text.encode("utf-8")
    out = []
    for kind, sev, hexmsg, pos in re.findall(r"\((perr|diag) (\w+) ([0-9a-f]*) (\d+:\d+:\d+:\d+:\d+:\d+)", hook_line):
        so, eo, l0, l1, _, _ = [int(x) for x in pos.split(":")]

        def ch(off):
            off = min(off, len(b))
            ls = b.rfind(b"\n", 0, off) + 1
            try:
                return utf16_len(b[ls:off])
            except UnicodeDecodeError:
                return None
        severity = 1 if kind == "perr" or sev == "Error" else 2
        out.append(dict(message=bytes.fromhex(hexmsg).decode("utf-8"), severity=severity,
                        start=(l0, ch(so)), end=(l1, ch(eo))))
    return out


def lsp_diag_key(d):
    r = d.get("range", {})
    return (d.get("message"), d.get("severity"),
            (r.get("start", {}).get("line"), r.get("start", {}).get("character")),
            (r.get("end", {}).get("line"), r.get("end", {}).get("character")))


# ---------------------------------------------------------------------------------- main
def run(ctx):
    scratch = os.path.join(common.BUILD, "scratch", "lspserver", "run-%d" % os.getpid())
    os.makedirs(scratch, exist_ok=True)
    try:
        _run(ctx, scratch)
    finally:
        shutil.rmtree(scratch, ignore_errors=True)     # session files, server TMPDIR, documents


def _run(ctx, scratch):
    rng = ctx.rng
    garden = common.GARDEN
    tmpdir = os.path.join(scratch, "tmp")
    os.makedirs(tmpdir, exist_ok=True)
    if os.path.exists(L.BASE):
        ctx.broken.append({"kind": "harness", "what": "%s exists; the model assumes unopened documents are not on disk" % L.BASE})
        return
    maxlen = ctx.scale(15, 30)
    n_sessions = int(os.environ.get("VERIF_C28_SESSIONS", ctx.scale(300, 10000)))   # override: development only
    ctx.rule = ("client sessions of <=%d messages from a state-aware generator (initialize / didOpen / didChange / "
                "didClose on 4 documents + URI aliases, all 11 request methods with schema-valid params on open, "
                "closed and non-file documents, in-range / out-of-range / u32::MAX positions, 30 kinds of "
                "schema-invalid params, unknown methods with and without id, ids that are ints, strings, floats, "
                "duplicates, objects; damaged JSON-RPC envelopes; shutdown/exit placements), documents drawn from "
                "valid, type-error, parse-error and non-ASCII Garden sources and truncations/splices of them. "
                "Each session runs through `reftest-lsp` and the framed `garden lsp` (random tolerated header "
                "styles, final liveness probe). Non-trivial = the session contains at least one request on an "
                "open document and at least one message that must NOT be answered." % maxlen)

    # ---------------------------------------------------------------- (T) method table
    model = ctx.model()
    tline = model.ask("lsp_table")
    try:
        rust_src = open(os.path.join(common.REPO, "src", "lsp.rs"), encoding="utf-8").read()
        rt = extract_table(rust_src)
        mt = model_table(tline)
        ctx.cov["method_table_arms"] = len(rt)
        if rt != mt:
            ctx.disagree("lsp_table", {"note": "match arms of handle_message vs LspDispatch.gardenMethods"},
                         [r for r in mt if r not in rt], [r for r in rt if r not in mt])
    except (ValueError, OSError) as e:
        ctx.broken.append({"kind": "translator", "what": "cannot re-read handle_message: %r" % (e,)})

    # ---------------------------------------------------------------- sessions
    sessions = []
    labels_seen = {}
    for k in range(n_sessions):
        g = L.Gen(rng, hostile=(k % 25 == 7))
        s = g.session(maxlen)
        for lab in g.labels:
            labels_seen[lab] = labels_seen.get(lab, 0) + 1
        sessions.append(s)
    # hand-written seeds: the lifecycle cases named in the property
    U = L.GOOD_URIS[0]
    seeds = [
        [dict(obj={"jsonrpc": "2.0", "method": "exit"}, ptag="a", why="seed")],
        [dict(obj={"jsonrpc": "2.0", "id": 1, "method": "shutdown"}, ptag="a", why="seed"),
         dict(obj={"jsonrpc": "2.0", "id": 2, "method": "textDocument/hover",
                   "params": {"textDocument": {"uri": U}, "position": {"line": 0, "character": 0}}},
              ptag=("g", U), why="seed"),
         dict(obj={"jsonrpc": "2.0", "method": "exit"}, ptag="a", why="seed")],
        [dict(obj={"id": 3, "method": "shutdown"}, ptag="a", why="seed"),
         dict(obj={"jsonrpc": "2.0", "method": "exit"}, ptag="a", why="seed")],
    ]
    # texts on which the front end of the pinned tree is known (C01) to panic or overflow its stack: one
    # session each, so that the consequence for the server (it dies) is reproduced on every run
    for t in L.DOCS_HOSTILE:
        seeds.append([
            dict(obj={"jsonrpc": "2.0", "method": "textDocument/didOpen",
                      "params": {"textDocument": {"uri": U, "text": t}}}, ptag="a", why="hostile-text"),
            dict(obj={"jsonrpc": "2.0", "id": 1, "method": "textDocument/documentSymbol",
                      "params": {"textDocument": {"uri": U}}}, ptag=("g", U), why="request-open")])
    sessions = seeds + sessions

    def has_exit(s):
        return any(L.spec_expectation(m["obj"])[1] for m in s)

    def cut_at_exit(s):
        out = []
        for m in s:
            out.append(m)
            if L.spec_expectation(m["obj"])[1]:
                break
        return out

    # the real server gets a liveness probe when the session has no exit
    real_sessions = [s if has_exit(s) else s + L.probe_messages(str(k)) for k, s in enumerate(sessions)]
    ref_sessions = [cut_at_exit(s) for s in sessions]      # reftest-lsp ignores `exit`; the model stops there

    def model_line(s):
        return "lsp_run " + " ".join(L.features(m["obj"], m["ptag"]) for m in s)
    m_real = ctx.model_batch([model_line(s) for s in real_sessions])
    m_ref = ctx.model_batch([model_line(s) for s in ref_sessions])

    styles = [[("std" if rng.random() < 0.8 else rng.choice(L.HEADER_STYLES)) for _ in s] for s in real_sessions]

    def do_ref(k):
        return L.run_reftest(garden, [m["obj"] for m in ref_sessions[k]], os.path.join(scratch, "s%d.jsonl" % k))

    def do_real(k):
        data = b"".join(L.frame(L.encode_body(m["obj"]), st) for m, st in zip(real_sessions[k], styles[k]))
        return L.run_server(garden, data, tmpdir)
    ctx.log("running %d sessions through reftest-lsp and the framed server" % len(sessions))
    r_ref = common.pmap(do_ref, range(len(sessions)))
    r_real = common.pmap(do_real, range(len(sessions)))

    crashes = {}
    publishes = []            # (text, diagnostics, uri) from the real server, paired through the model
    n_resp = n_err = n_empty = n_pub = n_exit0 = n_exit1 = 0
    for k, s in enumerate(sessions):
        nontrivial = any(m["why"] == "request-open" for m in s) and \
            any(L.spec_expectation(m["obj"])[0][0] == "silent" for m in s)
        ctx.case([L.canon(m["obj"]) for m in s], nontrivial)
        for via, sess, res, mline in (("reftest-lsp", ref_sessions[k], r_ref[k], m_ref[k]),
                                      ("garden lsp", real_sessions[k], r_real[k], m_real[k])):
            replay = dict(session=[m["obj"] for m in sess], index=k)
            if via == "garden lsp":
                replay["header_styles"] = styles[k]
            if not (mline or "").startswith("OK "):
                ctx.broken.append({"kind": "harness", "what": "model driver did not answer: %r" % (mline,),
                                   "input": replay})
                continue
            mst, mouts, origin = L.parse_model_outs(mline)
            crash = L.crash_info(res["rc"], res["stderr"])
            if res["timeout"]:
                ctx.fail("C28/hang", "%s did not terminate within the time limit" % via, via=via, **replay)
                continue
            if res["problem"]:
                ctx.fail("C28/garbled-output", "%s output cannot be decoded: %s" % (via, res["problem"]), via=via, **replay)
                continue
            # ---- oracle first (implementation only)
            if crash:
                crashes.setdefault(crash[0], 0)
                crashes[crash[0]] += 1
                # attribute the crash to the message being handled: the first one without its outputs
                ctx.fail("C28/server-dies/" + crash[0],
                         "%s died while handling a client message: %s" % (via, crash[1]), via=via,
                         rc=res["rc"], **replay)
            else:
                oracle_session(ctx, sess, res["msgs"], via, replay)
                if via == "garden lsp":
                    exp_exit = None
                    shut = False
                    for m in sess:
                        o = m["obj"]
                        e = L.envelope(o)
                        if e[0] and e[3] == "shutdown":
                            shut = True
                        if L.spec_expectation(o)[1]:
                            exp_exit = 0 if shut else 1
                            break
                    want_rc = 0 if exp_exit is None else exp_exit
                    if res["rc"] != want_rc:
                        ctx.fail("C28/exit-status", "exit status %s, expected %d (%s)" % (
                            res["rc"], want_rc, "end of input" if exp_exit is None else
                            "exit %s shutdown" % ("after" if shut else "without")), via=via, **replay)
                    if exp_exit is None:
                        ids = {L.classify_out(o)[1] for o in res["msgs"] if L.classify_out(o)[0] == "r"}
                        for pm in L.probe_messages(str(k)):
                            if L.canon(pm["obj"]["id"]) not in ids:
                                ctx.fail("C28/not-alive", "the final probe %s was not answered" % pm["obj"]["id"],
                                         via=via, **replay)
            # ---- correspondence
            why = compare_outs(sess, res["msgs"], mouts, origin, complete=not crash)
            if why:
                ctx.disagree("lsp_run", replay, mline, [json.dumps(o)[:300] for o in res["msgs"]][:40],
                             via=via, why=why)
            elif not crash and via == "garden lsp":
                if mst["exited"] is not None and res["rc"] != mst["exited"]:
                    ctx.disagree("lsp_run(exit status)", replay, mst["exited"], res["rc"], via=via)
                for o, mo in zip(res["msgs"], mouts):
                    if mo[0] == "r":
                        n_resp += 1
                        n_err += mo[2].lstrip("-").isdigit()
                        n_empty += mo[2] == "empty"
                    elif mo[2] is not None:
                        n_pub += 1
                        publishes.append((mo[2], L.classify_out(o)[2], mo[1]))
                n_exit0 += mst["exited"] == 0
                n_exit1 += mst["exited"] == 1
        if k < 3 + 2:
            ctx.sample({"session": [L.canon(m["obj"])[:100] for m in s][:6], "model": (m_real[k] or "")[:200],
                        "impl_rc": r_real[k]["rc"], "impl_msgs": len(r_real[k]["msgs"])})
    ctx.cov.update(sessions=len(sessions), responses_compared=n_resp, error_responses=n_err,
                   empty_results=n_empty, publish_diagnostics=n_pub, exits_status0=n_exit0, exits_status1=n_exit1,
                   message_kinds=dict(sorted(labels_seen.items())), server_deaths=crashes)

    # ---------------------------------------------------------------- framing
    alive = [s for k, s in enumerate(sessions)
             if not L.crash_info(r_real[k]["rc"], r_real[k]["stderr"]) and not r_real[k]["timeout"]]
    framing_checks(ctx, garden, tmpdir, alive, rng)

    # ---------------------------------------------------------------- diagnostics vs `garden check --json`
    diagnostics_checks(ctx, garden, scratch, publishes)

    model.close()
    ctx.assumptions += [
        "request handler bodies (hover, completion, …) are total functions in the model; their panic-freedom is "
        "only tested (every death of the server process is reported with its panic site)",
        "the message abstraction (harness/lsp_client.py: envelope, sync_of, uri_info, and the generator's claim "
        "whether params are schema-valid) is hand-written; a wrong claim shows up as a correspondence disagreement",
        "documents are addressed below %s, which does not exist (handlers fall back to the disk)" % L.BASE,
        "framing faults after which the byte stream is ambiguous (missing / non-numeric / wrong Content-Length) "
        "are only required not to crash or hang the server; it does not resynchronise after them (measured: "
        "cov.framing.unrecoverable_later_requests_answered)",
    ]


def framing_checks(ctx, garden, tmpdir, sessions, rng):
    """Recoverable garbage between frames must not change the answers; ambiguous framing must not crash."""
    base = [s for s in sessions if not any(L.spec_expectation(m["obj"])[1] for m in s) and len(s) >= 2]
    base = base[:ctx.scale(30, 600)]
    rec = {
        "invalid-json-body": lambda: L.frame(b"{not json"),
        "non-utf8-body": lambda: L.frame(b'{"jsonrpc":"2.0","id":1,"method":"\xff\xfe"}'),
        "empty-body": lambda: L.frame(b""),
        "scalar-body": lambda: L.frame(b"42"),
        "batch-body": lambda: L.frame(b'[{"jsonrpc":"2.0","id":"batch","method":"shutdown"}]'),
        "non-utf8-header-line": lambda: b"X-Junk: \xff\xfe\r\n",
        "junk-header-line": lambda: b"this line has no colon\r\n",
        "duplicate-content-length": lambda: b"Content-Length: 7\r\n",
        "nul-bytes-body": lambda: L.frame(b"\x00\x00\x00"),
        "deep-json-body": lambda: L.frame(b"[" * 300 + b"]" * 300),
    }
    unrec = {
        "missing-content-length": lambda b: b"\r\n" + b,
        "content-length-too-short": lambda b: b"Content-Length: %d\r\n\r\n" % max(0, len(b) - 7) + b,
        "content-length-too-long": lambda b: b"Content-Length: %d\r\n\r\n" % (len(b) + 9) + b,
        "negative-content-length": lambda b: b"Content-Length: -5\r\n\r\n" + b,
        "non-numeric-content-length": lambda b: b"Content-Length: abc\r\n\r\n" + b,
        "float-content-length": lambda b: b"Content-Length: 12.0\r\n\r\n" + b,
    }
    huge = {
        "content-length-1e17": b"Content-Length: 99999999999999999\r\n\r\n{}",
        "content-length-usize-max": b"Content-Length: 18446744073709551615\r\n\r\n{}",
        "content-length-2e10": b"Content-Length: 20000000000\r\n\r\n{}",
    }
    jobs = []
    for k, s in enumerate(base):
        s2 = s + L.probe_messages("f%d" % k)
        frames = [L.frame(L.encode_body(m["obj"])) for m in s2]
        pos = rng.randrange(len(s))
        kind = rng.choice(sorted(rec))
        junk = rec[kind]()
        if kind == "duplicate-content-length":
            # a first Content-Length header overridden by the real one of the next frame
            data = b"".join(frames[:pos]) + junk + b"".join(frames[pos:])
        else:
            data = b"".join(frames[:pos]) + junk + b"".join(frames[pos:])
        jobs.append(("rec", kind, s2, b"".join(frames), data, pos))
        kind = rng.choice(sorted(unrec))
        data = b"".join(frames[:pos]) + unrec[kind](L.encode_body(s2[pos]["obj"])) + b"".join(frames[pos + 1:])
        jobs.append(("unrec", kind, s2, None, data, pos))
    for kind, blob in sorted(huge.items()):
        s2 = L.probe_messages("h")
        jobs.append(("huge", kind, s2, None, blob + b"".join(L.frame(L.encode_body(m["obj"])) for m in s2), 0))

    def do(job):
        typ, kind, s2, clean, data, pos = job
        r = L.run_server(garden, data, tmpdir)
        r0 = L.run_server(garden, clean, tmpdir) if clean is not None else None
        return r, r0
    results = common.pmap(do, jobs)
    stats = {"recoverable": 0, "unrecoverable": 0, "unrecoverable_later_requests_answered": 0, "by_kind": {}}
    for (typ, kind, s2, clean, data, pos), (r, r0) in zip(jobs, results):
        replay = dict(framing_fault=kind, at_message=pos, session=[m["obj"] for m in s2], stdin_hex=data.hex()[:4000])
        ctx.case(("framing", kind, data.hex()[:200]), True)
        stats["by_kind"][kind] = stats["by_kind"].get(kind, 0) + 1
        crash = L.crash_info(r["rc"], r["stderr"])
        if r["timeout"]:
            ctx.fail("C28/hang", "server did not terminate after framing fault %s" % kind, **replay)
            continue
        if crash:
            if typ == "huge":
                ctx.fail("C28/content-length-alloc", "a frame announcing %s kills the server: %s" % (kind, crash[1]),
                         rc=r["rc"], **replay)
            elif r0 is not None and L.crash_info(r0["rc"], r0["stderr"]):
                pass        # the clean session dies as well (front-end panic): reported by the session check
            else:
                ctx.fail("C28/server-dies-on-framing/" + crash[0], "framing fault %s killed the server: %s" % (kind, crash[1]),
                         rc=r["rc"], **replay)
            continue
        if typ == "rec":
            stats["recoverable"] += 1
            if L.crash_info(r0["rc"], r0["stderr"]):
                continue
            a = [L.canon(o) for o in r["msgs"]]
            b = [L.canon(o) for o in r0["msgs"]]
            if a != b or r["rc"] != r0["rc"]:
                ctx.fail("C28/recoverable-garbage-changes-answers",
                         "inserting %s between two frames changed the server's answers (%d vs %d messages, rc %s vs %s)"
                         % (kind, len(a), len(b), r["rc"], r0["rc"]), **replay)
        elif typ == "unrec":
            stats["unrecoverable"] += 1
            if r["rc"] != 0:
                ctx.fail("C28/exit-status", "exit status %s at end of input after framing fault %s" % (r["rc"], kind), **replay)
            ids = {L.classify_out(o)[1] for o in r["msgs"] if L.classify_out(o)[0] == "r"}
            if L.canon(s2[-1]["obj"]["id"]) in ids:
                stats["unrecoverable_later_requests_answered"] += 1
        else:
            # huge Content-Length, not crashed: the stream is then ambiguous; nothing more to require
            pass
    ctx.cov["framing"] = stats


def diagnostics_checks(ctx, garden, scratch, publishes):
    """publishDiagnostics == `garden check --json` on the same text."""
    by_text = {}
    for text, diags, uri in publishes:
        by_text.setdefault(text, []).append((diags, uri))
    texts = sorted(by_text)
    ddir = os.path.join(scratch, "docs")
    os.makedirs(ddir, exist_ok=True)

    def do(i):
        p = os.path.join(ddir, "d%d.gdn" % i)
        with open(p, "w", encoding="utf-8", newline="") as f:
            f.write(texts[i])
        return common.run_cmd([garden, "check", "--json", "--override-path", L.BASE + "/a.gdn", p], timeout=30)
    res = common.pmap(do, range(len(texts)))
    hook = ctx.garden_batch(["check " + common.hexs(t) for t in texts]) if texts else []
    n_diag = n_nonempty = n_nonascii = n_by_offsets = 0
    for text, (rc, so, se), hk in zip(texts, res, hook):
        if common.crashed(rc) or rc == -9999:
            continue        # the front end dies on this text; the server would too (reported above)
        exp = expected_from_check(text, so)
        exph = expected_from_hook(text, hk[3:] if (hk or "").startswith("OK") else "")
        for diags, uri in by_text[text]:
            ctx.case(("diag", text, uri), bool(exp))
            n_diag += 1
            n_nonempty += bool(exp)
            n_nonascii += any(ord(c) > 127 for c in text)
            got = sorted(lsp_diag_key(d) for d in diags or [])
            want = []
            unresolved = False
            for e in exp:
                if e["start"][1] is None or e["end"][1] is None:
                    unresolved = True
                want.append((e["message"], e["severity"], e["start"], e["end"]))
            want.sort(key=repr)
            got_s = sorted(got, key=repr)
            if not unresolved and got_s == want:
                continue
            # byte column not convertible on the named line (positions spanning lines): use exact offsets
            wanth = sorted(((e["message"], e["severity"], e["start"], e["end"]) for e in exph), key=repr)
            same_shape = [(w[0], w[1], w[2][0], w[3][0]) for w in want] == [(w[0], w[1], w[2][0], w[3][0]) for w in wanth]
            if got_s == wanth and same_shape:
                n_by_offsets += 1
                continue
            ctx.fail("C28/diagnostics-differ-from-check",
                     "publishDiagnostics differs from `garden check --json` on the same text",
                     text=text, uri=uri, published=got_s[:10], from_check=want[:10], from_offsets=wanth[:10])
    ctx.cov["diagnostics"] = dict(compared=n_diag, distinct_texts=len(texts), with_diagnostics=n_nonempty,
                                  non_ascii_texts=n_nonascii, resolved_by_offsets=n_by_offsets)
