"""C13 — `==` is structural equality on values.

Proof: GardenVerif.Props.C13 over `valueEq` (Model/ValueEq.lean = `impl PartialEq for Value_`
with the Float/Dict arms of patches/arith-fix-float-dict-eq.diff).
Tie: `garden run -c` printing `a == b` and `a != b` for every ordered pair of a pool of
literal values, against the Lean driver's `valeq` on the same literals.
Direct oracle (no model): the observed `==` must equal structural equality of the
generator's trees (values_gen.canon), `!=` must be its negation, and the observed relation
must be reflexive, symmetric and transitive over the whole pool.
"""
from . import common
from . import values_gen as G

LEAN_MODULES = ["GardenVerif.Props.C13"]


def _program(a, row):
    # both operands are rendered from separately rebuilt trees: no sharing in the source,
    # and every literal evaluation allocates a fresh value, so pointer identity cannot help
    parts = [G.PRELUDE]
    for b in row:
        sa, sb = G.src(G.rebuild(a)), G.src(G.rebuild(b))
        parts.append("println(string_repr(%s == %s)) println(string_repr(%s != %s))" % (sa, sb, sa, sb))
    return " ".join(parts)


def run(ctx):
    rng = ctx.rng
    n = ctx.scale(64, 128)
    pool = G.pool(rng, n)
    canon = [G.canon(v) for v in pool]
    ctx.rule = ("all ordered pairs (including each value with a separately built copy of itself) of a pool "
                "of %d literal values to depth 3: ints incl. i64 limits, finite floats incl. 0.0/-0.0 and "
                "neighbours, strings incl. escapes/non-ASCII, lists, tuples (incl. 1-tuples), dicts (key order "
                "permuted, duplicate keys), Option/Result/Bool/Unit and user enums (same variant index in "
                "different enums, generic and not), structs (field order, same fields in different structs, "
                "generic); pool built from families of near misses (one element changed, dropped, added, "
                "swapped; list vs tuple). Non-trivial = the two values have the same top-level constructor "
                "kind (a different kind is decided by the fall-through arm alone)." % len(pool))
    kinds_seen = set()
    for v in pool:
        kinds_seen |= G.kinds(v)
    ctx.cov["pool_size"] = len(pool)
    ctx.cov["pool_kinds"] = sorted(kinds_seen)
    ctx.cov["pool_max_depth"] = max(G.depth(v) for v in pool)

    # ---------------- implementation: one process per row
    def run_row(i):
        rc, so, se = ctx.garden(["run", "-c", _program(pool[i], pool)], timeout=120, env={"RUST_BACKTRACE": "0"})
        return rc, so, se

    rows = common.pmap(run_row, range(len(pool)), workers=16)
    obs_eq = {}
    obs_ne = {}
    for i, (rc, so, se) in enumerate(rows):
        lines = so.split("\n")
        if lines and lines[-1] == "":
            lines.pop()
        if common.crashed(rc):
            ctx.fail("C13/crash", "garden crashed while comparing literal values (rc=%d): %s" % (rc, se[-300:]),
                     program=_program(pool[i], pool)[:2000])
            continue
        if len(lines) != 2 * len(pool) or any(l not in ("True", "False") for l in lines):
            # find the first offending comparison and report it alone
            bad = None
            for j in range(len(pool)):
                rc2, so2, se2 = ctx.garden(["run", "-c", _program(pool[i], [pool[j]])], env={"RUST_BACKTRACE": "0"})
                if so2.split() not in (["True", "False"], ["False", "True"]):
                    bad = (j, rc2, so2, se2)
                    break
            ctx.fail("C13/no-answer", "comparison of two literal values did not print two booleans",
                     program=_program(pool[i], [pool[bad[0]]]) if bad else _program(pool[i], pool)[:2000],
                     observed=(bad[2] + bad[3])[-600:] if bad else (so + se)[-600:])
            continue
        for j in range(len(pool)):
            obs_eq[(i, j)] = lines[2 * j] == "True"
            obs_ne[(i, j)] = lines[2 * j + 1] == "True"

    # ---------------- model on the same pairs
    pairs = sorted(obs_eq)
    mlines = ["valeq %s %s" % (G.sexp(pool[i]), G.sexp(pool[j])) for i, j in pairs]
    model = ctx.model_batch(mlines)
    n_equal = 0
    disagreements = []
    for (i, j), m in zip(pairs, model):
        a, b = pool[i], pool[j]
        expect = canon[i] == canon[j]
        n_equal += expect
        nontrivial = a[0] == b[0]
        ctx.case((G.src(a), G.src(b)), nontrivial)
        impl = "OK %s %s" % (str(obs_eq[(i, j)]).lower(), str(obs_ne[(i, j)]).lower())
        if m != impl:
            disagreements.append((i, j))
            ctx.disagree("valeq", {"a": G.src(a), "b": G.src(b)}, m, impl)
        # ---- direct oracle
        prog = _program(a, [b])
        if obs_eq[(i, j)] != expect:
            key = "C13/eq-not-structural"
            ks = G.kinds(a) | G.kinds(b)
            if expect and "float" in ks and "dict" not in ks:
                key = "C13/equal-floats-compare-unequal"
            elif expect and "dict" in ks:
                key = "C13/equal-dicts-compare-unequal"
            ctx.fail(key, "`a == b` is %s but the two literals are structurally %s" % (
                obs_eq[(i, j)], "the same value" if expect else "different values"),
                a=G.src(a), b=G.src(b), command="garden run -c %r" % prog, expected=expect,
                observed=obs_eq[(i, j)])
        if obs_ne[(i, j)] == obs_eq[(i, j)]:
            ctx.fail("C13/ne-not-negation", "`a != b` is not the negation of `a == b`",
                     a=G.src(a), b=G.src(b), command="garden run -c %r" % prog)
    ctx.cov["pairs_compared"] = len(pairs)
    ctx.cov["structurally_equal_pairs"] = n_equal
    ctx.cov["same_kind_pairs"] = sum(1 for i, j in pairs if pool[i][0] == pool[j][0])

    # ---------------- relation laws on the observed relation alone
    N = len(pool)
    if len(obs_eq) == N * N:
        for i in range(N):
            if not obs_eq[(i, i)]:
                ctx.fail("C13/not-reflexive" + ("-float-or-dict" if G.kinds(pool[i]) & {"float", "dict"} else ""),
                         "`a == a` is False for a separately built copy", a=G.src(pool[i]),
                         command="garden run -c %r" % _program(pool[i], [pool[i]]))
        for i in range(N):
            for j in range(i + 1, N):
                if obs_eq[(i, j)] != obs_eq[(j, i)]:
                    ctx.fail("C13/not-symmetric", "`a == b` differs from `b == a`", a=G.src(pool[i]),
                             b=G.src(pool[j]))
        triples = 0
        for i in range(N):
            js = [j for j in range(N) if obs_eq[(i, j)]]
            for j in js:
                for k in range(N):
                    if obs_eq[(j, k)]:
                        triples += 1
                        if not obs_eq[(i, k)]:
                            ctx.fail("C13/not-transitive", "a == b and b == c but not a == c",
                                     a=G.src(pool[i]), b=G.src(pool[j]), c=G.src(pool[k]))
        ctx.cov["transitivity_triples_checked"] = triples
    for idx in (5, 40, len(pairs) // 2, len(pairs) - 3):
        if 0 <= idx < len(pairs):
            i, j = pairs[idx]
            ctx.sample({"a": G.src(pool[i]), "b": G.src(pool[j]), "impl_eq": obs_eq[(i, j)],
                        "impl_ne": obs_ne[(i, j)], "model": model[idx]})
    ctx.assumptions += [
        "model valueEq is hand-written from src/values.rs (impl PartialEq for Value_); only this correspondence run ties it",
        "rpds::HashTrieMap == is extensional map equality (library contract); the model compares canonical key-sorted entry lists",
        "Rc<Value_> equality's pointer-identity shortcut cannot change a result because eq is reflexive (C13.eq_reflexive)",
        "finite floats: equal bit pattern <=> equal printed form (Rust prints shortest round-trip digits); NaN has no literal",
        "struct values keep the field order of the literal (eval_struct_value), so P{x:1,y:2} and P{y:2,x:1} print "
        "differently and are different values here, as the implementation also says",
    ]
