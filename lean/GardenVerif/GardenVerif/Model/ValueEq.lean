import GardenVerif.Model.Types
/-
M3 `Equality`: `impl PartialEq for Value_` (src/values.rs) on the values that have literal
syntax, and the part of literal evaluation (src/eval.rs: list / tuple / dict / struct
literals, enum constructors, `enum_value_runtime_type`, `Type::from_value`) that decides
which `runtime_type` an enum or struct value carries, because `==` compares it.

The model follows the tree that the check builds: the pinned tree plus
patches/arith-fix-float-dict-eq.diff, which adds the `Float` arm (bit pattern) and the
`Dict` arm (map equality). The pinned tree's `eq` (both pairs fall to `_ => false`) is kept
as `valueEqPinned`.

What is not represented, because `eq` never reads it: `List.elem_type`, `Tuple.item_types`,
`Dict.value_type`, `type_name` of enum variants and structs. `Fun`, `Closure`,
`BuiltInFunction`, `EnumConstructor`, `Namespace` have no literal syntax.

A dict (`rpds::HashTrieMap<String, Value>`) is represented by its canonical form: the list
of entries sorted by key, one entry per key (`dictInsert` = `insert_mut`).  rpds' `==` on
maps ("same size and every key of the left maps to an equal value on the right", a library
contract in the trusted base) is, on canonical forms, entry-wise list equality, which is
what `fieldsEq` computes.

`Value`'s derived `PartialEq` goes through `Rc`, whose `eq` first tests pointer identity
(`Value_: Eq`); since `valueEq` is reflexive after the fix (Props/C13.lean) the shortcut
cannot change a result, and literal values built separately never share a pointer.

Only imports the M7 type model (for `runtime_type`); no Mathlib.
-/

/-- `Value_` restricted to what has literal syntax and to the fields `eq` reads. -/
inductive LitValue where
  | int (i : Int64)
  /-- IEEE-754 bit pattern. -/
  | float (bits : UInt64)
  | str (s : String)
  | list (items : List LitValue)
  | tuple (items : List LitValue)
  /-- canonical: sorted by key, keys distinct -/
  | dict (items : List (String × LitValue))
  | variant (rtype : Ty) (idx : Nat) (payload : Option LitValue)
  /-- fields in the order of the struct *literal* (that is what `eval_struct_value` stores) -/
  | struct (rtype : Ty) (fields : List (String × LitValue))
  deriving Repr, Inhabited

mutual
/-- `impl PartialEq for Value_`, arm by arm (tree with the Float/Dict fix). -/
def valueEq : LitValue → LitValue → Bool
  | .int a, .int b => a == b
  | .float a, .float b => a == b                      -- f1.to_bits() == f2.to_bits()
  | .str a, .str b => a == b
  | .list a, .list b => listEq a b                    -- elem_type ignored
  | .tuple a, .tuple b => listEq a b                  -- item_types ignored
  | .dict a, .dict b => fieldsEq a b                  -- value_type ignored
  | .variant t1 i1 p1, .variant t2 i2 p2 => Ty.beq t1 t2 && i1 == i2 && optEq p1 p2
  | .struct t1 f1, .struct t2 f2 => Ty.beq t1 t2 && fieldsEq f1 f2
  | _, _ => false
/-- `Vec<Value>` / `rpds::Vector<Value>` equality: same length and element-wise. -/
def listEq : List LitValue → List LitValue → Bool
  | [], [] => true
  | a :: as, b :: bs => valueEq a b && listEq as bs
  | _, _ => false
/-- `Vec<(SymbolName, Value)>` equality (and dict entries in canonical order). -/
def fieldsEq : List (String × LitValue) → List (String × LitValue) → Bool
  | [], [] => true
  | a :: as, b :: bs => pairEq a b && fieldsEq as bs
  | _, _ => false
def pairEq : String × LitValue → String × LitValue → Bool
  | (k1, v1), (k2, v2) => k1 == k2 && valueEq v1 v2
/-- `Option<Box<Value>>` equality. -/
def optEq : Option LitValue → Option LitValue → Bool
  | none, none => true
  | some a, some b => valueEq a b
  | _, _ => false
end

/-- `lhs_value != rhs_value` (the default `ne`). -/
def valueNe (a b : LitValue) : Bool := !valueEq a b

mutual
/-- The pinned tree's `eq`: no `Float` arm and no `Dict` arm, so those pairs reach
`_ => false`; everything else as above. -/
def valueEqPinned : LitValue → LitValue → Bool
  | .int a, .int b => a == b
  | .str a, .str b => a == b
  | .list a, .list b => listEqPinned a b
  | .tuple a, .tuple b => listEqPinned a b
  | .variant t1 i1 p1, .variant t2 i2 p2 => Ty.beq t1 t2 && i1 == i2 && optEqPinned p1 p2
  | .struct t1 f1, .struct t2 f2 => Ty.beq t1 t2 && fieldsEqPinned f1 f2
  | _, _ => false
def listEqPinned : List LitValue → List LitValue → Bool
  | [], [] => true
  | a :: as, b :: bs => valueEqPinned a b && listEqPinned as bs
  | _, _ => false
def fieldsEqPinned : List (String × LitValue) → List (String × LitValue) → Bool
  | [], [] => true
  | a :: as, b :: bs => pairEqPinned a b && fieldsEqPinned as bs
  | _, _ => false
def pairEqPinned : String × LitValue → String × LitValue → Bool
  | (k1, v1), (k2, v2) => k1 == k2 && valueEqPinned v1 v2
def optEqPinned : Option LitValue → Option LitValue → Bool
  | none, none => true
  | some a, some b => valueEqPinned a b
  | _, _ => false
end

/-! ### literal evaluation (which value, with which runtime type, a literal denotes) -/

/-- Literal expressions. Enum and struct nodes carry the facts of their definition that the
evaluator consults: number of type parameters and, for a payload / field, the index of the
type parameter its hint names (if the hint is a bare type parameter). -/
inductive Lit where
  | int (i : Int64)
  | float (bits : UInt64)
  | str (s : String)
  | list (items : List Lit)
  | tuple (items : List Lit)
  | dict (items : List (String × Lit))
  | variant (enumName : String) (nparams : Nat) (idx : Nat) (hintParam : Option Nat) (payload : Option Lit)
  | struct (name : String) (nparams : Nat) (fields : List (String × Option Nat × Lit))
  deriving Repr, Inhabited

namespace Lit

def tyInt : Ty := .user .struct "Int" []
def tyFloat : Ty := .user .struct "Float" []
def tyString : Ty := .user .struct "String" []
def tyList (t : Ty) : Ty := .user .struct "List" [t]
def tyDict (t : Ty) : Ty := .user .struct "Dict" [t]

/-- `HashTrieMap::insert_mut` on the canonical form. -/
def dictInsert (k : String) (v : LitValue) : List (String × LitValue) → List (String × LitValue)
  | [] => [(k, v)]
  | (k', v') :: rest =>
    if k < k' then (k, v) :: (k', v') :: rest
    else if k == k' then (k, v) :: rest
    else (k', v') :: dictInsert k v rest

/-- Type arguments of an enum value: the parameter named by the payload hint gets the
payload's type, every other one `NoValue` (`enum_value_runtime_type`). -/
def enumArgs (nparams : Nat) (hintParam : Option Nat) (payloadTy : Ty) : List Ty :=
  (List.range nparams).map fun i => if hintParam == some i then payloadTy else Ty.noValue

/-- Type arguments of a struct value: each parameter gets the type of the last field (in
literal order) whose hint names it, else `NoValue` (`eval_struct_value`). -/
def structArgs (nparams : Nat) (fieldTys : List (Option Nat × Ty)) : List Ty :=
  (List.range nparams).map fun i =>
    match (fieldTys.reverse.find? fun (h, _) => h == some i) with
    | some (_, t) => t
    | none => Ty.noValue

mutual
/-- The value a literal evaluates to, with `Type::from_value` of it. -/
def eval : Lit → LitValue × Ty
  | .int i => (.int i, tyInt)
  | .float b => (.float b, tyFloat)
  | .str s => (.str s, tyString)
  | .list items =>
      let r := evalList items
      -- elem_type = type of the last element evaluated into the list (NoValue if empty)
      (.list (r.map (·.1)), tyList ((r.getLast?.map (·.2)).getD Ty.noValue))
  | .tuple items =>
      let r := evalList items
      (.tuple (r.map (·.1)), .tuple (r.map (·.2)))
  | .dict items =>
      let r := evalFields items
      (.dict (r.foldl (fun acc (k, v, _) => dictInsert k v acc) []),
       tyDict ((r.getLast?.map (·.2.2)).getD Ty.noValue))
  | .variant name nparams idx hint payload =>
      match payload with
      | none =>
        let t := Ty.user .enum name (enumArgs nparams none .any)
        (.variant t idx none, t)
      | some p =>
        let (v, pt) := eval p
        let t := Ty.user .enum name (enumArgs nparams hint pt)
        (.variant t idx (some v), t)
  | .struct name nparams fields =>
      let r := evalSFields fields
      let t := Ty.user .struct name (structArgs nparams (r.map fun (_, h, _, ty) => (h, ty)))
      (.struct t (r.map fun (k, _, v, _) => (k, v)), t)
def evalList : List Lit → List (LitValue × Ty)
  | [] => []
  | x :: xs => eval x :: evalList xs
def evalFields : List (String × Lit) → List (String × LitValue × Ty)
  | [] => []
  | (k, x) :: xs => (k, eval x) :: evalFields xs
def evalSFields : List (String × Option Nat × Lit) → List (String × Option Nat × LitValue × Ty)
  | [] => []
  | (k, h, x) :: xs => (k, h, eval x) :: evalSFields xs
end

end Lit
