/-!
# M10 — the nREPL server as a labelled transition system

Transcribed from `src/nrepl.rs` (reader loop `serve_connection`/`handle_message`,
`dispatch_to_session`, `session_worker`, `eval_code_in_namespace`, `spawn_output_flusher`,
`flush_output_buffer`, `close_session`) and `src/eval.rs` `eval` (per-step flag test).

Threads: the reader (one per connection), one worker per session, one output flusher per running
eval.  The writer thread is a FIFO consumer of the response channel and is not modelled: the
observable behaviour of a connection is the content of `respQ` (append-only).

Atomic steps are the Rust's channel / atomic / mutex operations:

* reader: `client m` handles the next client message up to and including its first shared-memory
  operation (flag store, channel send, response send); `reader` performs the remaining ones
  (`close` = flag store; remove the session = drop the sender; send the reply.
  `interrupt` = flag store; send the reply);
* worker: `wDequeue` (`request_rx.recv()`), `wReset` (`interrupted.store(false)`), `wStart`
  (dispatch on the request: completions/lookup answer, parse error, or parse OK + optional
  diagnostics message), `wSpawn` (flusher thread), the eval loop `wTest` (`interrupted.load()`),
  `wClear` (`interrupted.store(false)`, `Err(Interrupted)`), `wAct` (one evaluation step:
  print = lock + append, define, raise), `wFinish` (no expressions left), `wStop`
  (`drop(flush_stop_tx)`), `wJoin` (enabled only when the flusher has exited), the final drain
  `wTakeOut`/`wSendOut`/`wTakeErr`/`wSendErr` (lock+take, then channel send), `wSend` (one element
  of `responses`; after the last one the worker is idle again);
* flusher: `fTakeOut`/`fSendOut`/`fTakeErr`/`fSendErr` (one pass of the loop body; a timeout of
  `recv_timeout` is not observable and is merged into `fTakeOut`, which is enabled whether or not
  the stop was requested — an over-approximation), `fStop` (`recv_timeout` reports the dropped
  sender).

What the evaluator does in a step is not modelled: the *label* says it (`Act`), so the theorems
hold for every program, terminating or not.  Request ids are the reader's message counter
(`nextRid`), i.e. the theorems assume the client does not reuse ids.  Not modelled: the SIGINT
watchdog, connection teardown (sets every flag, drops every sender — same as `close` for each
session), `nrepl.middleware.print/stream?` (several `value` messages: they would be further
`res` messages), a worker that panics (C02 is a premise).

The fields `produced`, `rstat`, `intr`, `sawFlag` are ghost (history) variables: no transition's
enabledness or real effect depends on them.
-/

namespace Nrepl

abbrev Data := List Char

inductive Stream where
  | out | err
  deriving DecidableEq, Repr, Inhabited

inductive Status where
  | ok | evalError | interrupted | unknownSession | sessionClosed | opError
  | newSession (n : Nat)
  | sessions (l : List Nat)
  deriving DecidableEq, Repr, Inhabited

/-- Payload of a non-terminal message built by the worker itself. -/
inductive Body where
  | value (v : Data)
  | errText (t : Data)
  | warn (t : Data)
  deriving DecidableEq, Repr, Inhabited

inductive Msg where
  /-- `out` / `err` message carrying captured output. -/
  | chunk (k : Stream) (r : Nat) (d : Data)
  | res (r : Nat) (b : Body)
  /-- a message with a `status` list containing `done`. -/
  | done (r : Nat) (st : Status)
  deriving DecidableEq, Repr, Inhabited

def Msg.rid : Msg → Nat
  | .chunk _ r _ => r
  | .res r _ => r
  | .done r _ => r

def Msg.isDone : Msg → Bool
  | .done _ _ => true
  | _ => false

inductive Res where
  | value (v : Data)
  | error (t : Data)
  | interrupted
  deriving DecidableEq, Repr, Inhabited

inductive ReqKind where
  | eval   -- eval / load-file
  | query  -- completions / lookup
  deriving DecidableEq, Repr, Inhabited

structure Req where
  rid : Nat
  kind : ReqKind
  deriving DecidableEq, Repr, Inhabited

inductive WPc where
  | idle | exited
  | dequeued (q : Req)
  | ready (q : Req)
  | parsed (r : Nat)
  | evaluating (r : Nat)
  | running (r : Nat)
  | flagSeen (r : Nat)
  | evalDone (r : Nat) (res : Res)
  | stopRequested (r : Nat) (res : Res)
  | joined (r : Nat) (res : Res)
  | tookOut (r : Nat) (res : Res) (d : Data)
  | drainedOut (r : Nat) (res : Res)
  | tookErr (r : Nat) (res : Res) (d : Data)
  | sending (r : Nat) (msgs : List Msg)
  deriving DecidableEq, Repr, Inhabited

inductive FPc where
  | none
  | waiting (r : Nat)
  | tookOut (r : Nat) (d : Data)
  | mid (r : Nat)
  | tookErr (r : Nat) (d : Data)
  | exited
  deriving DecidableEq, Repr, Inhabited

structure Sess where
  /-- the session is in `conn.sessions` (its request sender is alive) -/
  live : Bool := false
  queue : List Req := []
  flag : Bool := false
  wpc : WPc := .exited
  fpc : FPc := .none
  /-- `flush_stop_tx` has been dropped -/
  stop : Bool := false
  outBuf : Data := []
  errBuf : Data := []
  /-- the session's `Env`: toplevel definitions, newest first -/
  defs : List (Data × Data) := []
  deriving Repr, Inhabited

def Sess.buf (ss : Sess) : Stream → Data
  | .out => ss.outBuf
  | .err => ss.errBuf

inductive RPc where
  | idle
  | closing (i : Nat) (r : Nat)
  | reply (m : Msg)
  deriving DecidableEq, Repr, Inhabited

inductive RStat where
  | unseen
  | queued (i : Nat)
  | direct
  | active (i : Nat)
  | finished
  deriving DecidableEq, Repr, Inhabited

structure State where
  sess : Nat → Sess
  nextSess : Nat
  nextRid : Nat
  rpc : RPc
  respQ : List Msg
  -- ghost
  produced : Stream → Nat → Data
  rstat : Nat → RStat
  /-- an interrupt / close for r's session was handled after r's flag reset, while r was executing -/
  intr : Nat → Bool
  /-- a flag test of r read `true` -/
  sawFlag : Nat → Bool

def upd {α : Type} (f : Nat → α) (i : Nat) (v : α) : Nat → α :=
  fun j => if j = i then v else f j

def init : State where
  sess := fun _ => {}
  nextSess := 0
  nextRid := 0
  rpc := .idle
  respQ := []
  produced := fun _ _ => []
  rstat := fun _ => .unseen
  intr := fun _ => false
  sawFlag := fun _ => false

inductive ClientMsg where
  | describe
  | unknownOp
  | lsSessions
  | clone
  | close (i : Nat)
  | interrupt (i : Nat)
  | evalLike (i : Nat) (kind : ReqKind)
  deriving DecidableEq, Repr, Inhabited

inductive StartOutcome where
  | query
  | parseError (t : Data)
  | ok (warn : Option Data)
  deriving DecidableEq, Repr, Inhabited

inductive Act where
  | print (k : Stream) (d : Data)
  | define (x v : Data)
  | nop
  | raise (t : Data)
  deriving DecidableEq, Repr, Inhabited

inductive ValSrc where
  | lit (v : Data)
  | var (x : Data)
  deriving DecidableEq, Repr, Inhabited

inductive Label where
  | client (m : ClientMsg)
  | reader
  | wDequeue (i : Nat) | wExit (i : Nat) | wReset (i : Nat)
  | wStart (i : Nat) (o : StartOutcome)
  | wSpawn (i : Nat)
  | wTest (i : Nat) | wClear (i : Nat)
  | wAct (i : Nat) (a : Act)
  | wFinish (i : Nat) (v : ValSrc)
  | wStop (i : Nat) | wJoin (i : Nat)
  | wTakeOut (i : Nat) | wSendOut (i : Nat) | wTakeErr (i : Nat) | wSendErr (i : Nat)
  | wSend (i : Nat)
  | fTakeOut (i : Nat) | fSendOut (i : Nat) | fTakeErr (i : Nat) | fSendErr (i : Nat)
  | fStop (i : Nat)
  deriving DecidableEq, Repr, Inhabited

/-- The request currently held by a worker. -/
def cur : WPc → Option Nat
  | .idle | .exited => none
  | .dequeued q | .ready q => some q.rid
  | .parsed r | .evaluating r | .running r | .flagSeen r => some r
  | .evalDone r _ | .stopRequested r _ | .joined r _ => some r
  | .tookOut r _ _ | .drainedOut r _ | .tookErr r _ _ => some r
  | .sending r _ => some r

/-- "Executing": after the flag reset, before the eval has completed. -/
def executing : WPc → Option Nat
  | .ready q => some q.rid
  | .parsed r | .evaluating r | .running r | .flagSeen r => some r
  | _ => none

def interruptedText : Data := "Interrupted.".toList

def resMsgs (r : Nat) : Res → List Msg
  | .value v => [.res r (.value v), .done r .ok]
  | .error t => [.res r (.errText t), .done r .evalError]
  | .interrupted => [.res r (.errText interruptedText), .done r .interrupted]

def lookupDef (x : Data) : List (Data × Data) → Option Data
  | [] => none
  | (y, v) :: rest => if y = x then some v else lookupDef x rest

def undefinedText : Data := "undefined".toList

def evalSrc (defs : List (Data × Data)) : ValSrc → Res
  | .lit v => .value v
  | .var x => match lookupDef x defs with
    | some v => .value v
    | none => .error undefinedText

def liveSessions (s : State) : List Nat :=
  (List.range (s.nextSess + 1)).filter (fun i => (s.sess i).live)

/-- Ghost update for a flag store by the reader. -/
def markIntr (s : State) (i : Nat) : Nat → Bool :=
  match executing (s.sess i).wpc with
  | some r => upd s.intr r true
  | none => s.intr

def sendChunk (q : List Msg) (k : Stream) (r : Nat) (d : Data) : List Msg :=
  if d = [] then q else q ++ [.chunk k r d]

def setSess (s : State) (i : Nat) (ss : Sess) : State :=
  { s with sess := upd s.sess i ss }

def step (s : State) : Label → Option State
  | .client m =>
    match s.rpc with
    | .idle =>
      let r := s.nextRid
      let s := { s with nextRid := r + 1 }
      let direct (st : Status) : State :=
        { s with respQ := s.respQ ++ [.done r st], rstat := upd s.rstat r .finished }
      match m with
      | .describe => some (direct .ok)
      | .unknownOp => some (direct .opError)
      | .lsSessions => some (direct (.sessions (liveSessions s)))
      | .clone =>
        let n := s.nextSess + 1
        let s1 := direct (.newSession n)
        some { s1 with nextSess := n, sess := upd s1.sess n { live := true, wpc := .idle } }
      | .close i =>
        if (s.sess i).live then
          some { s with sess := upd s.sess i { s.sess i with flag := true },
                        rpc := .closing i r, rstat := upd s.rstat r .direct,
                        intr := markIntr s i }
        else some (direct .unknownSession)
      | .interrupt i =>
        if (s.sess i).live then
          some { s with sess := upd s.sess i { s.sess i with flag := true },
                        rpc := .reply (.done r .ok), rstat := upd s.rstat r .direct,
                        intr := markIntr s i }
        else some (direct .unknownSession)
      | .evalLike i kind =>
        if (s.sess i).live then
          some { s with sess := upd s.sess i { s.sess i with queue := (s.sess i).queue ++ [⟨r, kind⟩] },
                        rstat := upd s.rstat r (.queued i) }
        else some (direct .unknownSession)
    | _ => none
  | .reader =>
    match s.rpc with
    | .idle => none
    | .closing i r =>
      some { s with sess := upd s.sess i { s.sess i with live := false },
                    rpc := .reply (.done r .sessionClosed) }
    | .reply m =>
      some { s with respQ := s.respQ ++ [m], rpc := .idle, rstat := upd s.rstat m.rid .finished }
  | .wDequeue i =>
    let ss := s.sess i
    match ss.wpc, ss.queue with
    | .idle, q :: rest =>
      some { s with sess := upd s.sess i { ss with queue := rest, wpc := .dequeued q },
                    rstat := upd s.rstat q.rid (.active i) }
    | _, _ => none
  | .wExit i =>
    let ss := s.sess i
    match ss.wpc, ss.queue with
    | .idle, [] => if ss.live then none else some (setSess s i { ss with wpc := .exited })
    | _, _ => none
  | .wReset i =>
    let ss := s.sess i
    match ss.wpc with
    | .dequeued q => some (setSess s i { ss with flag := false, wpc := .ready q })
    | _ => none
  | .wStart i o =>
    let ss := s.sess i
    match ss.wpc with
    | .ready q =>
      match q.kind, o with
      | .query, .query => some (setSess s i { ss with wpc := .sending q.rid [.done q.rid .ok] })
      | .eval, .parseError t =>
        some (setSess s i { ss with wpc := .sending q.rid [.res q.rid (.errText t), .done q.rid .evalError] })
      | .eval, .ok none => some (setSess s i { ss with wpc := .parsed q.rid })
      | .eval, .ok (some w) =>
        some { setSess s i { ss with wpc := .parsed q.rid } with respQ := s.respQ ++ [.res q.rid (.warn w)] }
      | _, _ => none
    | _ => none
  | .wSpawn i =>
    let ss := s.sess i
    match ss.wpc with
    | .parsed r => some (setSess s i { ss with wpc := .evaluating r, fpc := .waiting r })
    | _ => none
  | .wTest i =>
    let ss := s.sess i
    match ss.wpc with
    | .evaluating r =>
      if ss.flag then
        some { setSess s i { ss with wpc := .flagSeen r } with sawFlag := upd s.sawFlag r true }
      else some (setSess s i { ss with wpc := .running r })
    | _ => none
  | .wClear i =>
    let ss := s.sess i
    match ss.wpc with
    | .flagSeen r => some (setSess s i { ss with flag := false, wpc := .evalDone r .interrupted })
    | _ => none
  | .wAct i a =>
    let ss := s.sess i
    match ss.wpc with
    | .running r =>
      match a with
      | .print .out d =>
        some { setSess s i { ss with wpc := .evaluating r, outBuf := ss.outBuf ++ d } with
               produced := fun k r' => if k = .out ∧ r' = r then s.produced k r' ++ d else s.produced k r' }
      | .print .err d =>
        some { setSess s i { ss with wpc := .evaluating r, errBuf := ss.errBuf ++ d } with
               produced := fun k r' => if k = .err ∧ r' = r then s.produced k r' ++ d else s.produced k r' }
      | .define x v => some (setSess s i { ss with wpc := .evaluating r, defs := (x, v) :: ss.defs })
      | .nop => some (setSess s i { ss with wpc := .evaluating r })
      | .raise t => some (setSess s i { ss with wpc := .evalDone r (.error t) })
    | _ => none
  | .wFinish i v =>
    let ss := s.sess i
    match ss.wpc with
    | .evaluating r => some (setSess s i { ss with wpc := .evalDone r (evalSrc ss.defs v) })
    | _ => none
  | .wStop i =>
    let ss := s.sess i
    match ss.wpc with
    | .evalDone r res => some (setSess s i { ss with wpc := .stopRequested r res, stop := true })
    | _ => none
  | .wJoin i =>
    let ss := s.sess i
    match ss.wpc, ss.fpc with
    | .stopRequested r res, .exited => some (setSess s i { ss with wpc := .joined r res })
    | _, _ => none
  | .wTakeOut i =>
    let ss := s.sess i
    match ss.wpc with
    | .joined r res => some (setSess s i { ss with wpc := .tookOut r res ss.outBuf, outBuf := [] })
    | _ => none
  | .wSendOut i =>
    let ss := s.sess i
    match ss.wpc with
    | .tookOut r res d =>
      some { setSess s i { ss with wpc := .drainedOut r res } with respQ := sendChunk s.respQ .out r d }
    | _ => none
  | .wTakeErr i =>
    let ss := s.sess i
    match ss.wpc with
    | .drainedOut r res => some (setSess s i { ss with wpc := .tookErr r res ss.errBuf, errBuf := [] })
    | _ => none
  | .wSendErr i =>
    let ss := s.sess i
    match ss.wpc with
    | .tookErr r res d =>
      some { setSess s i { ss with wpc := .sending r (resMsgs r res) } with
             respQ := sendChunk s.respQ .err r d }
    | _ => none
  | .wSend i =>
    let ss := s.sess i
    match ss.wpc with
    | .sending r (m :: m' :: rest) =>
      some { setSess s i { ss with wpc := .sending r (m' :: rest) } with respQ := s.respQ ++ [m] }
    | .sending r [m] =>
      some { setSess s i { ss with wpc := .idle, fpc := .none, stop := false } with
             respQ := s.respQ ++ [m], rstat := upd s.rstat r .finished }
    | _ => none
  | .fTakeOut i =>
    let ss := s.sess i
    match ss.fpc with
    | .waiting r => some (setSess s i { ss with fpc := .tookOut r ss.outBuf, outBuf := [] })
    | _ => none
  | .fSendOut i =>
    let ss := s.sess i
    match ss.fpc with
    | .tookOut r d =>
      some { setSess s i { ss with fpc := .mid r } with respQ := sendChunk s.respQ .out r d }
    | _ => none
  | .fTakeErr i =>
    let ss := s.sess i
    match ss.fpc with
    | .mid r => some (setSess s i { ss with fpc := .tookErr r ss.errBuf, errBuf := [] })
    | _ => none
  | .fSendErr i =>
    let ss := s.sess i
    match ss.fpc with
    | .tookErr r d =>
      some { setSess s i { ss with fpc := .waiting r } with respQ := sendChunk s.respQ .err r d }
    | _ => none
  | .fStop i =>
    let ss := s.sess i
    match ss.fpc with
    | .waiting _ => if ss.stop then some (setSess s i { ss with fpc := .exited }) else none
    | _ => none

/-- Run a list of labels. -/
def run (s : State) : List Label → Option State
  | [] => some s
  | l :: ls => match step s l with
    | some s' => run s' ls
    | none => none

inductive Reachable : State → Prop where
  | init : Reachable init
  | step {s s' : State} {l : Label} : Reachable s → step s l = some s' → Reachable s'

end Nrepl
