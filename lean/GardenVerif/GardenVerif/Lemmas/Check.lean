import GardenVerif.Model.TypedSem
import GardenVerif.Lemmas.Types
/-! Helper lemmas for C16: value typing `hasTy` (deep, structural; agrees with
`is_subtype(Type::from_value(v), T)` on well-formed types: `hasTy_sub_typeOf`), subsumption,
compatibility with `unify`, canonical forms, environment typing. -/
set_option linter.unusedVariables false
set_option linter.unusedSimpArgs false

namespace Check

-- ------------------------------------------------------------------ well-formed fragment types

def goodName0 (n : String) : Bool :=
  n == "Int" || n == "String" || n == "Bool" || n == "Unit" || n == "NoValue"

mutual
/-- Types of the fragment: `Any`, tuples, the nullary core types, `List<T>` / `Option<T>` with
exactly one argument. No `Error`, no function types, no type parameters. -/
def good : Ty → Bool
  | .any => true
  | .tuple ts => goodL ts
  | .user _ n [] => goodName0 n
  | .user _ n [a] => (n == "List" || n == "Option") && good a
  | _ => false
def goodL : List Ty → Bool
  | [] => true
  | t :: ts => good t && goodL ts
end

mutual
theorem Hint.toTy_good : ∀ h : Hint, good h.toTy = true
  | .int => by simp [Hint.toTy, tInt, good, goodName0]
  | .bool => by simp [Hint.toTy, tBool, good, goodName0]
  | .str => by simp [Hint.toTy, tStr, good, goodName0]
  | .unit => by simp [Hint.toTy, tUnit, good, goodName0]
  | .list h => by simp [Hint.toTy, tList, good, Hint.toTy_good h]
  | .option h => by simp [Hint.toTy, tOption, good, Hint.toTy_good h]
  | .tuple hs => by simp [Hint.toTy, good, Hint.toTys_good hs]
theorem Hint.toTys_good : ∀ hs : List Hint, goodL (Hint.toTys hs) = true
  | [] => by simp [Hint.toTys, goodL]
  | h :: hs => by simp [Hint.toTys, goodL, Hint.toTy_good h, Hint.toTys_good hs]
end

-- ------------------------------------------------------------------ value typing

def isNamed (T : Ty) (n : String) : Bool :=
  match T with
  | .any => true
  | .user _ m _ => m == n
  | _ => false

mutual
/-- `v` is a value of static type `T` (deep: every element of a list has the element type). -/
def hasTy : Val → Ty → Bool
  | .int _, T => isNamed T "Int"
  | .str _, T => isNamed T "String"
  | .bool _, T => isNamed T "Bool"
  | .unit, T => isNamed T "Unit"
  | .none, T => isNamed T "Option"
  | .some p, T =>
    (match T with
     | .any => true
     | .user _ n (a :: _) => n == "Option" && hasTy p a
     | _ => false)
  | .list items, T =>
    (match T with
     | .any => true
     | .user _ n (a :: _) => n == "List" && hasTyAll items a
     | _ => false)
  | .tuple items, T =>
    (match T with
     | .any => true
     | .tuple ts => hasTyZip items ts
     | _ => false)
def hasTyAll : List Val → Ty → Bool
  | [], _ => true
  | v :: vs, a => hasTy v a && hasTyAll vs a
def hasTyZip : List Val → List Ty → Bool
  | [], [] => true
  | v :: vs, t :: ts => hasTy v t && hasTyZip vs ts
  | _, _ => false
end

theorem hasTy_any (v : Val) : hasTy v .any = true := by
  cases v <;> simp [hasTy, isNamed]

/-- Shape of the supertypes of a named type. -/
theorem sub_user_cases (k : Kind) (n : String) (as : List Ty) (B : Ty) (hn : n ≠ "NoValue")
    (h : Ty.sub (.user k n as) B = true) :
    B = .any ∨ B = .err ∨ ∃ k2 bs, B = .user k2 n bs ∧ Ty.subAll as bs = true := by
  cases B <;> simp [Ty.sub, hn] at h
  case any => exact Or.inl rfl
  case err => exact Or.inr (Or.inl rfl)
  case user k2 n2 bs =>
    obtain ⟨h1, h2⟩ := h
    subst h1
    exact Or.inr (Or.inr ⟨k2, bs, rfl, h2⟩)

theorem sub_tuple_cases (as : List Ty) (B : Ty) (h : Ty.sub (.tuple as) B = true) :
    B = .any ∨ B = .err ∨ ∃ bs, B = .tuple bs ∧ as.length = bs.length ∧ Ty.subAll as bs = true := by
  cases B <;> simp [Ty.sub] at h ⊢
  case tuple bs => exact h

theorem isNamed_sub (A B : Ty) (n : String) (hn : n ≠ "NoValue") (hA : isNamed A n = true) (hA' : A ≠ .any)
    (hs : Ty.sub A B = true) (hB : good B = true) : isNamed B n = true := by
  cases A <;> simp [isNamed] at hA hA'
  case user k m as =>
    subst hA
    rcases sub_user_cases k m as B hn hs with h | h | ⟨k2, bs, h, _⟩
    · subst h; simp [isNamed]
    · subst h; simp [good] at hB
    · subst h; simp [isNamed]

theorem sub_any_left (B : Ty) (h : Ty.sub .any B = true) : B = .any ∨ B = .err := by
  cases B <;> simp [Ty.sub] at h ⊢

mutual
/-- Subsumption: a value of type `A` is a value of every well-formed supertype of `A`. -/
theorem hasTy_sub : ∀ (v : Val) (A B : Ty), hasTy v A = true → Ty.sub A B = true → good B = true →
    hasTy v B = true
  | .int i, A, B, hv, hs, hB => by
    by_cases hA : A = .any
    · subst hA; rcases sub_any_left B hs with h | h <;> subst h <;> simp [hasTy, isNamed, good] at hB ⊢
    · simp [hasTy] at hv ⊢; exact isNamed_sub A B _ (by decide) hv hA hs hB
  | .str i, A, B, hv, hs, hB => by
    by_cases hA : A = .any
    · subst hA; rcases sub_any_left B hs with h | h <;> subst h <;> simp [hasTy, isNamed, good] at hB ⊢
    · simp [hasTy] at hv ⊢; exact isNamed_sub A B _ (by decide) hv hA hs hB
  | .bool i, A, B, hv, hs, hB => by
    by_cases hA : A = .any
    · subst hA; rcases sub_any_left B hs with h | h <;> subst h <;> simp [hasTy, isNamed, good] at hB ⊢
    · simp [hasTy] at hv ⊢; exact isNamed_sub A B _ (by decide) hv hA hs hB
  | .unit, A, B, hv, hs, hB => by
    by_cases hA : A = .any
    · subst hA; rcases sub_any_left B hs with h | h <;> subst h <;> simp [hasTy, isNamed, good] at hB ⊢
    · simp [hasTy] at hv ⊢; exact isNamed_sub A B _ (by decide) hv hA hs hB
  | .none, A, B, hv, hs, hB => by
    by_cases hA : A = .any
    · subst hA; rcases sub_any_left B hs with h | h <;> subst h <;> simp [hasTy, isNamed, good] at hB ⊢
    · simp [hasTy] at hv ⊢; exact isNamed_sub A B _ (by decide) hv hA hs hB
  | .some p, A, B, hv, hs, hB => by
    cases A <;> simp [hasTy] at hv
    case any => rcases sub_any_left B hs with h | h <;> subst h <;> simp [hasTy, good] at hB ⊢
    case user k n as =>
      cases as with
      | nil => simp at hv
      | cons a as =>
        simp at hv
        obtain ⟨hn, hp⟩ := hv
        subst hn
        rcases sub_user_cases k _ (a :: as) B (by decide) hs with h | h | ⟨k2, bs, h, hsub⟩
        · subst h; simp [hasTy]
        · subst h; simp [good] at hB
        · subst h
          cases bs with
          | nil => simp [good, goodName0] at hB
          | cons b bs =>
            cases bs with
            | nil =>
              simp [good] at hB
              simp [Ty.subAll] at hsub
              simp [hasTy]
              exact hasTy_sub p a b hp hsub hB
            | cons b2 bs => simp [good] at hB
  | .list items, A, B, hv, hs, hB => by
    cases A <;> simp [hasTy] at hv
    case any => rcases sub_any_left B hs with h | h <;> subst h <;> simp [hasTy, good] at hB ⊢
    case user k n as =>
      cases as with
      | nil => simp at hv
      | cons a as =>
        simp at hv
        obtain ⟨hn, hp⟩ := hv
        subst hn
        rcases sub_user_cases k _ (a :: as) B (by decide) hs with h | h | ⟨k2, bs, h, hsub⟩
        · subst h; simp [hasTy]
        · subst h; simp [good] at hB
        · subst h
          cases bs with
          | nil => simp [good, goodName0] at hB
          | cons b bs =>
            cases bs with
            | nil =>
              simp [good] at hB
              simp [Ty.subAll] at hsub
              simp [hasTy]
              exact hasTyAll_sub items a b hp hsub hB
            | cons b2 bs => simp [good] at hB
  | .tuple items, A, B, hv, hs, hB => by
    cases A <;> simp [hasTy] at hv
    case any => rcases sub_any_left B hs with h | h <;> subst h <;> simp [hasTy, good] at hB ⊢
    case tuple as =>
      rcases sub_tuple_cases as B hs with h | h | ⟨bs, h, hl, hsub⟩
      · subst h; simp [hasTy]
      · subst h; simp [good] at hB
      · subst h
        simp [good] at hB
        simp [hasTy]
        exact hasTyZip_sub items as bs hv hl hsub hB
theorem hasTyAll_sub : ∀ (vs : List Val) (a b : Ty), hasTyAll vs a = true → Ty.sub a b = true → good b = true →
    hasTyAll vs b = true
  | [], a, b, hv, hs, hB => by simp [hasTyAll]
  | v :: vs, a, b, hv, hs, hB => by
    simp [hasTyAll] at hv ⊢
    exact ⟨hasTy_sub v a b hv.1 hs hB, hasTyAll_sub vs a b hv.2 hs hB⟩
theorem hasTyZip_sub : ∀ (vs : List Val) (as bs : List Ty), hasTyZip vs as = true → as.length = bs.length →
    Ty.subAll as bs = true → goodL bs = true → hasTyZip vs bs = true
  | [], as, bs, hv, hl, hs, hB => by
    cases as <;> simp [hasTyZip] at hv
    cases bs <;> simp [hasTyZip] at hl ⊢
  | v :: vs, as, bs, hv, hl, hs, hB => by
    cases as with
    | nil => simp [hasTyZip] at hv
    | cons a as =>
      cases bs with
      | nil => simp at hl
      | cons b bs =>
        simp [hasTyZip, Ty.subAll, goodL] at hv hl hs hB ⊢
        exact ⟨hasTy_sub v a b hv.1 hs.1 hB.1, hasTyZip_sub vs as bs hv.2 hl hs.2 hB.2⟩
end

-- ------------------------------------------------------------------ runtime annotation checks pass

theorem sub_noValue (T : Ty) : Ty.sub Ty.noValue T = true := by
  cases T <;> simp [Ty.sub, Ty.noValue]

theorem good_user_cases (k : Kind) (n : String) (args : List Ty) (h : good (.user k n args) = true) :
    (args = [] ∧ goodName0 n = true) ∨ ∃ a, args = [a] ∧ (n = "List" ∨ n = "Option") ∧ good a = true := by
  cases args with
  | nil => simp [good] at h; exact Or.inl ⟨rfl, h⟩
  | cons a rest =>
    cases rest with
    | nil => simp [good] at h; exact Or.inr ⟨a, rfl, h.1, h.2⟩
    | cons b rest => simp [good] at h

theorem sub_named (k k2 : Kind) (n : String) (args : List Ty) (hn : n ≠ "NoValue") :
    Ty.sub (.user k n []) (.user k2 n args) = true := by
  simp [Ty.sub, hn, Ty.subAll]

mutual
/-- A value of static type `T` passes the evaluator's `check_type(v, T)`:
`is_subtype(Type::from_value(v), T)`. -/
theorem hasTy_sub_typeOf : ∀ (v : Val) (T : Ty), hasTy v T = true → Ty.sub (typeOf v) T = true
  | .int i, T, h => by
    cases T <;> simp [hasTy, isNamed] at h
    · simp [Ty.sub]
    · subst h; simp [typeOf, tInt, Ty.sub, Ty.subAll]
  | .str i, T, h => by
    cases T <;> simp [hasTy, isNamed] at h
    · simp [Ty.sub]
    · subst h; simp [typeOf, tStr, Ty.sub, Ty.subAll]
  | .bool i, T, h => by
    cases T <;> simp [hasTy, isNamed] at h
    · simp [Ty.sub]
    · subst h; simp [typeOf, tBool, Ty.sub, Ty.subAll]
  | .unit, T, h => by
    cases T <;> simp [hasTy, isNamed] at h
    · simp [Ty.sub]
    · subst h; simp [typeOf, tUnit, Ty.sub, Ty.subAll]
  | .none, T, h => by
    cases T <;> simp [hasTy, isNamed] at h
    · simp [Ty.sub]
    · subst h
      rename_i k args
      cases args <;> simp [typeOf, tOption, Ty.sub, Ty.subAll, sub_noValue]
  | .some p, T, h => by
    cases T <;> simp [hasTy] at h
    · simp [Ty.sub]
    · rename_i k n args
      cases args with
      | nil => simp at h
      | cons a rest =>
        simp at h
        obtain ⟨hn, hp⟩ := h
        subst hn
        simp [typeOf, tOption, Ty.sub, Ty.subAll, hasTy_sub_typeOf p a hp]
  | .list items, T, h => by
    cases T <;> simp [hasTy] at h
    · simp [Ty.sub]
    · rename_i k n args
      cases args with
      | nil => simp at h
      | cons a rest =>
        simp at h
        obtain ⟨hn, hp⟩ := h
        subst hn
        simp [typeOf, tList, Ty.sub, Ty.subAll, hasTyAll_sub_typeOfLast items a hp]
  | .tuple items, T, h => by
    cases T <;> simp [hasTy] at h
    · simp [Ty.sub]
    · rename_i ts
      have := hasTyZip_sub_typeOfs items ts h
      simp [typeOf, Ty.sub, this.1, this.2]
theorem hasTyAll_sub_typeOfLast : ∀ (vs : List Val) (a : Ty), hasTyAll vs a = true →
    Ty.sub (typeOfLast vs) a = true
  | [], a, h => by simp [typeOfLast, sub_noValue]
  | [v], a, h => by
    simp [hasTyAll] at h
    simp [typeOfLast, hasTy_sub_typeOf v a h]
  | v :: w :: rest, a, h => by
    simp [hasTyAll] at h
    simp [typeOfLast]
    exact hasTyAll_sub_typeOfLast (w :: rest) a (by simp [hasTyAll, h.2.1, h.2.2])
theorem hasTyZip_sub_typeOfs : ∀ (vs : List Val) (ts : List Ty), hasTyZip vs ts = true →
    (typeOfs vs).length = ts.length ∧ Ty.subAll (typeOfs vs) ts = true
  | [], ts, h => by
    cases ts <;> simp [hasTyZip] at h
    simp [typeOfs, Ty.subAll]
  | v :: vs, ts, h => by
    cases ts with
    | nil => simp [hasTyZip] at h
    | cons t ts =>
      simp [hasTyZip] at h
      have ih := hasTyZip_sub_typeOfs vs ts h.2
      simp [typeOfs, Ty.subAll, hasTy_sub_typeOf v t h.1, ih.1, ih.2]
end

-- ------------------------------------------------------------------ canonical forms

theorem canon_int (v : Val) (h : hasTy v tInt = true) : ∃ i, v = .int i := by
  cases v <;> simp [hasTy, isNamed, tInt] at h ⊢
theorem canon_str (v : Val) (h : hasTy v tStr = true) : ∃ s, v = .str s := by
  cases v <;> simp [hasTy, isNamed, tStr] at h ⊢
theorem canon_bool (v : Val) (h : hasTy v tBool = true) : ∃ b, v = .bool b := by
  cases v <;> simp [hasTy, isNamed, tBool] at h ⊢
theorem hasTy_noValue (v : Val) (T : Ty) (hT : T.isNoValue = true) : hasTy v T = false := by
  cases T <;> simp [Ty.isNoValue] at hT
  subst hT
  rename_i k args
  cases v <;> simp [hasTy, isNamed]
  all_goals (cases args <;> simp)
theorem hasTy_err (v : Val) : hasTy v .err = false := by
  cases v <;> simp [hasTy, isNamed]
theorem hasTy_fn (v : Val) (a : Option String) (b : List String) (c : List Ty) (d : Ty) :
    hasTy v (.fn a b c d) = false := by
  cases v <;> simp [hasTy, isNamed]

-- ------------------------------------------------------------------ environment typing

def blockOK : List (String × Ty) → List (String × Val) → Prop
  | [], [] => True
  | (k, T) :: g, (k', v) :: r => k = k' ∧ hasTy v T = true ∧ blockOK g r
  | _, _ => False

def envOK : Blocks Ty → Blocks Val → Prop
  | [], [] => True
  | g :: G, r :: R => blockOK g r ∧ envOK G R
  | _, _ => False

theorem lookupBlock_ok : ∀ (g : List (String × Ty)) (r : List (String × Val)) (x : String), blockOK g r →
    (∀ T, lookupBlock g x = some T → ∃ v, lookupBlock r x = some v ∧ hasTy v T = true) ∧
    (lookupBlock g x = none → lookupBlock r x = none)
  | [], [], x, h => by simp [lookupBlock]
  | [], _ :: _, x, h => by simp [blockOK] at h
  | _ :: _, [], x, h => by simp [blockOK] at h
  | (k, T) :: g, (k', v) :: r, x, h => by
    simp [blockOK] at h
    obtain ⟨hk, hv, hr⟩ := h
    subst hk
    have ih := lookupBlock_ok g r x hr
    simp only [lookupBlock]
    by_cases hx : (k == x) = true
    · simp [hx, hv]
    · simp [hx]; exact ih

theorem lookupB_ok : ∀ (G : Blocks Ty) (R : Blocks Val) (x : String), envOK G R →
    (∀ T, lookupB G x = some T → ∃ v, lookupB R x = some v ∧ hasTy v T = true) ∧
    (lookupB G x = none → lookupB R x = none)
  | [], [], x, h => by simp [lookupB]
  | [], _ :: _, x, h => by simp [envOK] at h
  | _ :: _, [], x, h => by simp [envOK] at h
  | g :: G, r :: R, x, h => by
    simp [envOK] at h
    have hb := lookupBlock_ok g r x h.1
    have ih := lookupB_ok G R x h.2
    simp only [lookupB]
    cases hg : lookupBlock g x with
    | some T =>
      obtain ⟨v, hv1, hv2⟩ := hb.1 T hg
      simp [hv1, hv2]
    | none =>
      simp [hb.2 hg]
      exact ih

theorem setBlock_ok : ∀ (g : List (String × Ty)) (r : List (String × Val)) (x : String) (T : Ty) (v : Val),
    blockOK g r → hasTy v T = true → blockOK (setBlock g x T) (setBlock r x v)
  | [], [], x, T, v, h, hv => by simp [setBlock, blockOK, hv]
  | [], _ :: _, x, T, v, h, hv => by simp [blockOK] at h
  | _ :: _, [], x, T, v, h, hv => by simp [blockOK] at h
  | (k, T0) :: g, (k', v0) :: r, x, T, v, h, hv => by
    simp [blockOK] at h
    obtain ⟨hk, hv0, hr⟩ := h
    subst hk
    simp only [setBlock]
    by_cases hx : (k == x) = true
    · simp [hx, blockOK, hv, hr]
    · simp [hx, blockOK, hv0]; exact setBlock_ok g r x T v hr hv

theorem setB_ok (G : Blocks Ty) (R : Blocks Val) (x : String) (T : Ty) (v : Val)
    (h : envOK G R) (hv : hasTy v T = true) : envOK (setB G x T) (setB R x v) := by
  cases G <;> cases R <;> simp [envOK, setB] at h ⊢
  exact ⟨setBlock_ok _ _ x T v h.1 hv, h.2⟩

theorem envOK_push (G : Blocks Ty) (R : Blocks Val) (h : envOK G R) : envOK ([] :: G) ([] :: R) := by
  simp [envOK, blockOK, h]

theorem envOK_tail (G : Blocks Ty) (R : Blocks Val) (h : envOK G R) : envOK G.tail R.tail := by
  cases G <;> cases R <;> simp [envOK] at h ⊢
  exact h.2

-- ------------------------------------------------------------------ soundness of the straight-line fragment

theorem fin_inv (exp : Option Ty) (T T' : Ty) (Γ Γ' : Blocks Ty) (d : List Diag)
    (h : fin exp T Γ d = (T', Γ', [])) :
    T' = T ∧ Γ' = Γ ∧ d = [] ∧ (∀ E, exp = some E → Ty.sub T E = true) := by
  unfold fin at h
  split at h
  · simp at h; simp [h]
  · rename_i E
    split at h
    · rename_i hs
      simp at h
      obtain ⟨h1, h2, h3⟩ := h
      subst h1 h2 h3
      simp [hs]
    · simp at h

theorem intBinop_ok_val (op : BinOp) (hop : isIntArith op = true ∨ op = .lt ∨ op = .le ∨ op = .gt ∨ op = .ge)
    (a b : Int64) (v : Val) (h : intBinop op a b = .ok v) :
    hasTy v (if isIntArith op then tInt else tBool) = true := by
  cases op <;> simp [isIntArith] at hop <;> simp only [intBinop] at h
  all_goals (repeat' split at h)
  all_goals (first | cases h | skip)
  all_goals simp [hasTy, isNamed, tInt, tBool, isIntArith]

theorem intBinop_ok_err (op : BinOp) (hop : isIntArith op = true ∨ op = .lt ∨ op = .le ∨ op = .gt ∨ op = .ge)
    (a b : Int64) (e : RErr) (h : intBinop op a b = .error e) : e.isTypeError = false := by
  cases op <;> simp [isIntArith] at hop <;> simp only [intBinop] at h
  all_goals (repeat' split at h)
  all_goals (first | cases h | skip)
  all_goals simp [RErr.isTypeError]

theorem hop_eq (op : BinOp) (h : op = .eq ∨ op = .ne) (lv rv : Val) :
    (∀ v, binopVal op lv rv = .ok v → hasTy v tBool = true) ∧
    (∀ e, binopVal op lv rv = .error e → e.isTypeError = false) := by
  rcases h with rfl | rfl <;> simp [binopVal, hasTy, isNamed, tBool]

theorem hop_cmp (op : BinOp) (h : op = .lt ∨ op = .le ∨ op = .gt ∨ op = .ge) (lv rv : Val)
    (h1 : hasTy lv tInt = true) (h2 : hasTy rv tInt = true) :
    (∀ v, binopVal op lv rv = .ok v → hasTy v tBool = true) ∧
    (∀ e, binopVal op lv rv = .error e → e.isTypeError = false) := by
  obtain ⟨a, rfl⟩ := canon_int lv h1
  obtain ⟨b, rfl⟩ := canon_int rv h2
  have hbv : binopVal op (.int a) (.int b) = intBinop op a b := by
    rcases h with rfl | rfl | rfl | rfl <;> simp [binopVal]
  rw [hbv]
  constructor
  · intro v hv
    have := intBinop_ok_val op (Or.inr h) a b v hv
    rcases h with rfl | rfl | rfl | rfl <;> simpa [isIntArith] using this
  · intro e he
    exact intBinop_ok_err op (Or.inr h) a b e he

theorem hop_bool (op : BinOp) (h : op = .and ∨ op = .or) (lv rv : Val)
    (h1 : hasTy lv tBool = true) (h2 : hasTy rv tBool = true) :
    (∀ v, binopVal op lv rv = .ok v → hasTy v tBool = true) ∧
    (∀ e, binopVal op lv rv = .error e → e.isTypeError = false) := by
  obtain ⟨a, rfl⟩ := canon_bool lv h1
  obtain ⟨b, rfl⟩ := canon_bool rv h2
  rcases h with rfl | rfl <;> simp [binopVal, hasTy, isNamed, tBool]

theorem hop_concat (lv rv : Val) (h1 : hasTy lv tStr = true) (h2 : hasTy rv tStr = true) :
    (∀ v, binopVal .concat lv rv = .ok v → hasTy v tStr = true) ∧
    (∀ e, binopVal .concat lv rv = .error e → e.isTypeError = false) := by
  obtain ⟨a, rfl⟩ := canon_str lv h1
  obtain ⟨b, rfl⟩ := canon_str rv h2
  simp [binopVal, hasTy, isNamed, tStr]


-- ================================================================== (part 1)


-- ------------------------------------------------------------------ inferred types

mutual
/-- Types the checker INFERS on the fragment: like `good`, but without `Any`. -/
def gi : Ty → Bool
  | .tuple ts => giL ts
  | .user _ n [] => goodName0 n
  | .user _ n [a] => (n == "List" || n == "Option") && gi a
  | _ => false
def giL : List Ty → Bool
  | [] => true
  | t :: ts => gi t && giL ts
end

mutual
theorem gi_good : ∀ T : Ty, gi T = true → good T = true
  | .any, h => by simp [gi] at h
  | .err, h => by simp [gi] at h
  | .param _, h => by simp [gi] at h
  | .fn _ _ _ _, h => by simp [gi] at h
  | .tuple ts, h => by simp [gi] at h; simp [good, giL_good ts h]
  | .user _ n [], h => by simp [gi] at h; simp [good, h]
  | .user _ n [a], h => by simp [gi] at h; simp [good, h.1, gi_good a h.2]
  | .user _ n (_ :: _ :: _), h => by simp [gi] at h
theorem giL_good : ∀ ts : List Ty, giL ts = true → goodL ts = true
  | [], h => by simp [goodL]
  | t :: ts, h => by simp [giL] at h; simp [goodL, gi_good t h.1, giL_good ts h.2]
end

mutual
theorem Hint.toTy_gi : ∀ h : Hint, gi h.toTy = true
  | .int => by simp [Hint.toTy, tInt, gi, goodName0]
  | .bool => by simp [Hint.toTy, tBool, gi, goodName0]
  | .str => by simp [Hint.toTy, tStr, gi, goodName0]
  | .unit => by simp [Hint.toTy, tUnit, gi, goodName0]
  | .list h => by simp [Hint.toTy, tList, gi, Hint.toTy_gi h]
  | .option h => by simp [Hint.toTy, tOption, gi, Hint.toTy_gi h]
  | .tuple hs => by simp [Hint.toTy, gi, Hint.toTys_gi hs]
theorem Hint.toTys_gi : ∀ hs : List Hint, giL (Hint.toTys hs) = true
  | [] => by simp [Hint.toTys, giL]
  | h :: hs => by simp [Hint.toTys, giL, Hint.toTy_gi h, Hint.toTys_gi hs]
end

theorem gi_not_any (T : Ty) (h : gi T = true) : T.isAny = false := by
  cases T <;> simp [gi, Ty.isAny] at h ⊢

theorem unify_gi : ∀ (a b c : Ty), Ty.unify a b = some c → gi a = true → gi b = true → gi c = true
  | a, b, c, h, ga, gb => by
    unfold Ty.unify at h
    split at h
    · rename_i hany
      simp [gi_not_any a ga, gi_not_any b gb] at hany
    · split at h
      · cases h; exact gb
      · split at h
        · cases h; exact ga
        · split at h
          · cases h; exact ga
          · rename_i hnany hnnv1 hnnv2 hnbeq
            split at h
            · rename_i k1 n1 a1 k2 n2 a2
              split at h
              · cases h
              · rename_i hcond
                simp at hcond
                obtain ⟨⟨hk, hn⟩, hl⟩ := hcond
                split at h
                · rename_i args hargs
                  cases h
                  subst hn
                  cases a1 with
                  | nil =>
                    cases a2 with
                    | nil =>
                      simp [Ty.unifyArgs] at hargs
                      subst hargs
                      exact ga
                    | cons y ys => simp at hl
                  | cons x xs =>
                    cases xs with
                    | nil =>
                      cases a2 with
                      | nil => simp at hl
                      | cons y ys =>
                        cases ys with
                        | nil =>
                          simp [Ty.unifyArgs] at hargs
                          split at hargs
                          · cases hargs
                          · rename_i z hz
                            cases hargs
                            simp [gi] at ga gb ⊢
                            exact ⟨ga.1, unify_gi x y z hz ga.2 gb.2⟩
                        | cons y2 ys => simp at hl
                    | cons x2 xs => simp [gi] at ga
                · cases h
            · cases h
termination_by a b _ _ _ _ => sizeOf a + sizeOf b
decreasing_by all_goals (simp_wf; subst_vars; simp; omega)

theorem gi_noValue : gi Ty.noValue = true := by simp [Ty.noValue, gi, goodName0]

theorem unifyAllFrom_gi : ∀ (ts : List Ty) (acc c : Ty) (idx : Nat),
    Ty.unifyAllFrom acc idx ts = .ok c → gi acc = true → (∀ t ∈ ts, gi t = true) → gi c = true
  | [], acc, c, idx, h, ga, hts => by simp [Ty.unifyAllFrom] at h; subst h; exact ga
  | t :: ts, acc, c, idx, h, ga, hts => by
    simp [Ty.unifyAllFrom] at h
    split at h
    · cases h
    · rename_i u hu
      exact unifyAllFrom_gi ts u c (idx + 1) h (unify_gi acc t u hu ga (hts t (by simp)))
        (fun t' ht' => hts t' (by simp [ht']))

theorem hasTy_unify (v : Val) (a b c : Ty) (h : Ty.unify a b = some c) (ga : gi a = true) (gb : gi b = true) :
    (hasTy v a = true → hasTy v c = true) ∧ (hasTy v b = true → hasTy v c = true) := by
  have up := Ty.unify_upper a b c h
  have gc := gi_good c (unify_gi a b c h ga gb)
  exact ⟨fun hv => hasTy_sub v a c hv up.1 gc, fun hv => hasTy_sub v b c hv up.2 gc⟩

theorem hasTy_unifyAllFrom (v : Val) : ∀ (ts : List Ty) (acc c : Ty) (idx : Nat),
    Ty.unifyAllFrom acc idx ts = .ok c → gi acc = true → (∀ t ∈ ts, gi t = true) →
    (hasTy v acc = true → hasTy v c = true) ∧ (∀ t ∈ ts, hasTy v t = true → hasTy v c = true)
  | [], acc, c, idx, h, ga, hts => by simp [Ty.unifyAllFrom] at h; subst h; simp
  | t :: ts, acc, c, idx, h, ga, hts => by
    simp [Ty.unifyAllFrom] at h
    split at h
    · cases h
    · rename_i u hu
      have gt := hts t (by simp)
      have gu := unify_gi acc t u hu ga gt
      have st := hasTy_unify v acc t u hu ga gt
      have ih := hasTy_unifyAllFrom v ts u c (idx + 1) h gu (fun t' ht' => hts t' (by simp [ht']))
      refine ⟨fun hv => ih.1 (st.1 hv), ?_⟩
      intro t' ht' hv
      simp at ht'
      rcases ht' with rfl | ht'
      · exact ih.1 (st.2 hv)
      · exact ih.2 t' ht' hv

-- ------------------------------------------------------------------ well-typed checker environments

def GoodEnv (Γ : Blocks Ty) : Prop := ∀ b ∈ Γ, ∀ p ∈ b, gi p.2 = true

theorem lookupBlock_gi : ∀ (b : List (String × Ty)) (x : String) (T : Ty),
    (∀ p ∈ b, gi p.2 = true) → lookupBlock b x = some T → gi T = true
  | [], x, T, h, hl => by simp [lookupBlock] at hl
  | (k, T0) :: rest, x, T, h, hl => by
    simp only [lookupBlock] at hl
    split at hl
    · simp at hl; subst hl; exact h (k, T0) (by simp)
    · exact lookupBlock_gi rest x T (fun p hp => h p (by simp [hp])) hl

theorem lookupB_gi : ∀ (Γ : Blocks Ty) (x : String) (T : Ty), GoodEnv Γ → lookupB Γ x = some T → gi T = true
  | [], x, T, h, hl => by simp [lookupB] at hl
  | b :: rest, x, T, h, hl => by
    simp only [lookupB] at hl
    split at hl
    · rename_i v hv
      cases hl
      exact lookupBlock_gi b x T (h b (by simp)) hv
    · exact lookupB_gi rest x T (fun b' hb' => h b' (by simp [hb'])) hl

theorem setBlock_gi : ∀ (b : List (String × Ty)) (x : String) (T : Ty),
    (∀ p ∈ b, gi p.2 = true) → gi T = true → ∀ p ∈ setBlock b x T, gi p.2 = true
  | [], x, T, h, hT => by simp [setBlock, hT]
  | (k, T0) :: rest, x, T, h, hT => by
    simp only [setBlock]
    split
    · intro p hp
      simp at hp
      rcases hp with rfl | hp
      · exact hT
      · exact h p (by simp [hp])
    · intro p hp
      simp at hp
      rcases hp with rfl | hp
      · exact h (k, T0) (by simp)
      · exact setBlock_gi rest x T (fun p hp => h p (by simp [hp])) hT p hp

theorem GoodEnv_setB (Γ : Blocks Ty) (x : String) (T : Ty) (h : GoodEnv Γ) (hT : gi T = true) :
    GoodEnv (setB Γ x T) := by
  cases Γ with
  | nil => simp [setB]; exact h
  | cons b rest =>
    simp only [setB]
    intro b' hb'
    simp at hb'
    rcases hb' with rfl | hb'
    · exact setBlock_gi b x T (h b (by simp)) hT
    · exact h b' (by simp [hb'])

theorem GoodEnv_push (Γ : Blocks Ty) (h : GoodEnv Γ) : GoodEnv ([] :: Γ) := by
  intro b hb
  simp at hb
  rcases hb with rfl | hb
  · simp
  · exact h b hb

theorem GoodEnv_tail (Γ : Blocks Ty) (h : GoodEnv Γ) : GoodEnv Γ.tail := by
  intro b hb
  exact h b (List.mem_of_mem_tail hb)


-- ================================================================== (part 2)


theorem triple_exists {α β γ : Type} (X : α × β × γ) : ∃ a b c, X = (a, b, c) := ⟨_, _, _, rfl⟩
syntax "destruct3 " ident " : " term " with " ident ident ident " at " ident : tactic
macro_rules
  | `(tactic| destruct3 $h:ident : $t:term with $a:ident $b:ident $c:ident at $htc:ident) =>
    `(tactic| (obtain ⟨$a:ident, $b:ident, $c:ident, $h:ident⟩ := triple_exists $t; rw [$h:ident] at $htc:ident; simp only at $htc:ident))

theorem inferVar_env (P : Program) (Γ Γ' : Blocks Ty) (x : String) (T : Ty)
    (h : inferVar P Γ x = (T, Γ', [])) : Γ' = Γ := by
  unfold inferVar at h
  split at h
  · simp at h; exact h.2.symm
  · split at h
    · simp at h; exact h.2.symm
    · simp at h

theorem varForAssign_env (P : Program) (Γ Γ' : Blocks Ty) (x : String) (T : Ty)
    (h : varForAssign P Γ x = (T, Γ', [])) : Γ' = Γ ∧ lookupB Γ x = some T := by
  unfold varForAssign at h
  split at h
  · rename_i T0 hl; simp at h; exact ⟨h.2.symm, by rw [hl, h.1]⟩
  · split at h <;> simp at h

theorem callTy_env (P : Program) (Γ Γ' : Blocks Ty) (f : String) (tys : List Ty) (T : Ty)
    (h : callTy P Γ f tys = (T, Γ', [])) : Γ' = Γ := by
  unfold callTy at h
  repeat' split at h
  all_goals (simp at h)
  all_goals (first | exact h.2.1.symm | exact h.2.symm | skip)


-- ================================================================== (part 3)


theorem setB_cons {α : Type} (g : List (String × α)) (G : Blocks α) (x : String) (v : α) :
    setB (g :: G) x v = setBlock g x v :: G := rfl

/-- Checking an expression of the fragment leaves the bindings unchanged (when no diagnostic is
produced); checking a block only changes its own innermost scope. -/
theorem tc_inv (P : Program) : ∀ d,
    (∀ e ret exp Γ T Γ', okE P d e = true → tcExpr P ret exp Γ e = (T, Γ', []) → Γ' = Γ) ∧
    (∀ es ret exp g G T Γ', okL P d es = true → tcSeq P ret exp (g :: G) es = (T, Γ', []) →
      ∃ g', Γ' = g' :: G) ∧
    (∀ es ret exp Γ Ts Γ', okA P d es = true → tcItems P ret exp Γ es = (Ts, Γ', []) → Γ' = Γ) ∧
    (∀ cs ret mode Ts0 Γ Ts Γ', okC P d cs = true → tcCases P ret mode Ts0 Γ cs = (Ts, Γ', []) → Γ' = Γ) := by
  intro d
  induction d with
  | zero => simp [okE, okL, okA, okC]
  | succ d ih =>
    obtain ⟨ihE, ihL, ihA, ihC⟩ := ih
    -- a block: entering pushes a scope, the result's tail is the outer bindings
    have blk : ∀ es ret exp Γ T Γ', okL P d es = true → tcSeq P ret exp ([] :: Γ) es = (T, Γ', []) →
        Γ'.tail = Γ := by
      intro es ret exp Γ T Γ' hs h
      obtain ⟨g', hg⟩ := ihL es ret exp [] Γ T Γ' hs h
      simp [hg]
    refine ⟨?_, ?_, ?_, ?_⟩
    · intro e ret exp Γ T Γ' hs h
      cases e with
      | int v => simp only [tcExpr] at h; exact (fin_inv _ _ _ _ _ _ h).2.1
      | str v => simp only [tcExpr] at h; exact (fin_inv _ _ _ _ _ _ h).2.1
      | retUnit => simp only [tcExpr] at h; exact (fin_inv _ _ _ _ _ _ h).2.1
      | brk => simp only [tcExpr] at h; exact (fin_inv _ _ _ _ _ _ h).2.1
      | cont => simp only [tcExpr] at h; exact (fin_inv _ _ _ _ _ _ h).2.1
      | letE x hint e => simp [okE] at hs
      | var x =>
        simp only [tcExpr] at h
        destruct3 h1 : inferVar P Γ x with T1 Γ1 d1 at h
        obtain ⟨_, hΓ, hd, _⟩ := fin_inv _ _ _ _ _ _ h
        subst hd
        rw [hΓ]; exact inferVar_env P Γ Γ1 x T1 h1
      | paren e =>
        simp only [okE] at hs
        simp only [tcExpr] at h
        destruct3 h1 : tcExpr P ret none Γ e with T1 Γ1 d1 at h
        obtain ⟨_, hΓ, hd, _⟩ := fin_inv _ _ _ _ _ _ h
        subst hd
        rw [hΓ]; exact ihE e ret none Γ T1 Γ1 hs h1
      | ret e =>
        simp only [okE] at hs
        simp only [tcExpr] at h
        destruct3 h1 : tcExpr P ret (some ret) Γ e with T1 Γ1 d1 at h
        obtain ⟨_, hΓ, hd, _⟩ := fin_inv _ _ _ _ _ _ h
        subst hd
        rw [hΓ]; exact ihE e ret _ Γ T1 Γ1 hs h1
      | binop op l r =>
        simp only [okE] at hs
        simp at hs
        simp only [tcExpr] at h
        split at h
        · destruct3 h1 : tcExpr P ret none Γ l with T1 Γ1 d1 at h
          destruct3 h2 : tcExpr P ret none Γ1 r with T2 Γ2 d2 at h
          obtain ⟨T3, d3, h3⟩ : ∃ a b, intBinopTy op T1 T2 = (a, b) := ⟨_, _, rfl⟩
          rw [h3] at h
          simp only at h
          obtain ⟨_, hΓ, hd, _⟩ := fin_inv _ _ _ _ _ _ h
          simp at hd
          obtain ⟨hd1, hd2, hd3⟩ := hd
          subst hd1; subst hd2
          rw [hΓ, ihE r ret none Γ1 T2 Γ2 hs.2 h2, ihE l ret none Γ T1 Γ1 hs.1 h1]
        · split at h
          · destruct3 h1 : tcExpr P ret none Γ l with T1 Γ1 d1 at h
            destruct3 h2 : tcExpr P ret none Γ1 r with T2 Γ2 d2 at h
            obtain ⟨_, hΓ, hd, _⟩ := fin_inv _ _ _ _ _ _ h
            simp at hd
            obtain ⟨hd1, hd2⟩ := hd
            subst hd1; subst hd2
            rw [hΓ, ihE r ret none Γ1 T2 Γ2 hs.2 h2, ihE l ret none Γ T1 Γ1 hs.1 h1]
          · obtain ⟨opnd, res, ho⟩ : ∃ a b, (if (op == BinOp.and || op == BinOp.or) = true then (tBool, tBool)
                else if (op == BinOp.concat) = true then (tStr, tStr) else (tInt, tBool)) = (a, b) := ⟨_, _, rfl⟩
            rw [ho] at h
            simp only at h
            destruct3 h1 : tcExpr P ret (some opnd) Γ l with T1 Γ1 d1 at h
            destruct3 h2 : tcExpr P ret (some opnd) Γ1 r with T2 Γ2 d2 at h
            obtain ⟨_, hΓ, hd, _⟩ := fin_inv _ _ _ _ _ _ h
            simp at hd
            obtain ⟨hd1, hd2⟩ := hd
            subst hd1; subst hd2
            rw [hΓ, ihE r ret _ Γ1 T2 Γ2 hs.2 h2, ihE l ret _ Γ T1 Γ1 hs.1 h1]
      | assign x e =>
        simp only [okE] at hs
        simp only [tcExpr] at h
        destruct3 h1 : varForAssign P Γ x with T1 Γ1 d1 at h
        destruct3 h2 : tcExpr P ret (some T1) Γ1 e with T2 Γ2 d2 at h
        obtain ⟨_, hΓ, hd, _⟩ := fin_inv _ _ _ _ _ _ h
        simp at hd
        obtain ⟨hd1, hd2⟩ := hd
        subst hd1; subst hd2
        rw [hΓ, ihE e ret _ Γ1 T2 Γ2 hs h2, (varForAssign_env P Γ Γ1 x T1 h1).1]
      | update isAdd x e =>
        simp only [okE] at hs
        simp only [tcExpr] at h
        destruct3 h1 : varForAssign P Γ x with T1 Γ1 d1 at h
        destruct3 h2 : tcExpr P ret (some tInt) Γ1 e with T2 Γ2 d2 at h
        obtain ⟨_, hΓ, hd, _⟩ := fin_inv _ _ _ _ _ _ h
        simp at hd
        obtain ⟨hd1, _, hd2⟩ := hd
        subst hd1; subst hd2
        rw [hΓ, ihE e ret _ Γ1 T2 Γ2 hs h2, (varForAssign_env P Γ Γ1 x T1 h1).1]
      | ifE c thn hasElse els =>
        simp only [okE] at hs
        simp at hs
        obtain ⟨⟨hsc, hst⟩, hse⟩ := hs
        simp only [tcExpr] at h
        destruct3 h1 : tcExpr P ret (some tBool) Γ c with T1 Γ1 d1 at h
        have e1 := ihE c ret (some tBool) Γ T1 Γ1 hsc
        split at h
        · split at h
          · destruct3 h2 : tcSeq P ret none ([] :: Γ1) thn with T2 Γ2 d2 at h
            destruct3 h3 : tcSeq P ret none ([] :: Γ2.tail) els with T3 Γ3 d3 at h
            split at h
            · simp at h
              obtain ⟨_, hΓ, hd1, hd2, hd3⟩ := h
              subst hd1; subst hd2; subst hd3
              rw [← hΓ, blk els ret none Γ2.tail T3 Γ3 hse h3, blk thn ret none Γ1 T2 Γ2 hst h2, e1 h1]
            · simp at h
          · rename_i E
            destruct3 h2 : tcSeq P ret (some E) ([] :: Γ1) thn with T2 Γ2 d2 at h
            destruct3 h3 : tcSeq P ret (some E) ([] :: Γ2.tail) els with T3 Γ3 d3 at h
            obtain ⟨_, hΓ, hd, _⟩ := fin_inv _ _ _ _ _ _ h
            simp at hd
            obtain ⟨hd1, hd2, hd3⟩ := hd
            subst hd1; subst hd2; subst hd3
            rw [hΓ, blk els ret _ Γ2.tail T3 Γ3 hse h3, blk thn ret _ Γ1 T2 Γ2 hst h2, e1 h1]
        · destruct3 h2 : tcSeq P ret none ([] :: Γ1) thn with T2 Γ2 d2 at h
          obtain ⟨_, hΓ, hd, _⟩ := fin_inv _ _ _ _ _ _ h
          simp at hd
          obtain ⟨hd1, hd2⟩ := hd
          subst hd1; subst hd2
          rw [hΓ, blk thn ret none Γ1 T2 Γ2 hst h2, e1 h1]
      | whileE c body =>
        simp only [okE] at hs
        simp at hs
        simp only [tcExpr] at h
        destruct3 h1 : tcExpr P ret (some tBool) Γ c with T1 Γ1 d1 at h
        destruct3 h2 : tcSeq P ret none ([] :: Γ1) body with T2 Γ2 d2 at h
        obtain ⟨_, hΓ, hd, _⟩ := fin_inv _ _ _ _ _ _ h
        simp at hd
        obtain ⟨hd1, hd2⟩ := hd
        subst hd1; subst hd2
        rw [hΓ, blk body ret none Γ1 T2 Γ2 hs.2 h2, ihE c ret _ Γ T1 Γ1 hs.1 h1]
      | forE x e body =>
        simp only [okE] at hs
        simp at hs
        simp only [tcExpr] at h
        destruct3 h1 : tcExpr P ret (some (tList .any)) Γ e with T1 Γ1 d1 at h
        destruct3 h2 : tcSeq P ret none ([] :: setB ([] :: Γ1) x (forElemTy T1)) body with T2 Γ2 d2 at h
        obtain ⟨_, hΓ, hd, _⟩ := fin_inv _ _ _ _ _ _ h
        simp at hd
        obtain ⟨hd1, hd2⟩ := hd
        subst hd1; subst hd2
        have e1 := ihE e ret _ Γ T1 Γ1 hs.1.2 h1
        rw [hΓ, blk body ret none _ T2 Γ2 hs.2 h2, setB_cons]
        simp [e1]
      | matchE s cases =>
        simp only [okE] at hs
        simp at hs
        simp only [tcExpr] at h
        destruct3 h1 : tcExpr P ret none Γ s with T1 Γ1 d1 at h
        destruct3 h2 : tcCases P ret (matchMode exp) T1 Γ1 cases with Ts Γ2 d2 at h
        have fin' : ∀ X dd, fin exp X Γ2 dd = (T, Γ', []) → Γ' = Γ2 ∧ dd = [] := by
          intro X dd hh
          have := fin_inv _ _ _ _ _ _ hh
          exact ⟨this.2.1, this.2.2.1⟩
        have key : Γ' = Γ2 ∧ d1 = [] ∧ d2 = [] := by
          repeat' split at h
          all_goals
            (have := fin' _ _ h; simp at this <;> simp [this])
        obtain ⟨hΓ, hd1, hd2⟩ := key
        subst hd1; subst hd2
        rw [hΓ, ihC cases ret _ T1 Γ1 Ts Γ2 hs.2 h2, ihE s ret none Γ T1 Γ1 hs.1 h1]
      | list items =>
        simp only [okE] at hs
        simp only [tcExpr] at h
        split at h
        · rename_i a ha
          destruct3 h1 : tcItems P ret (some a) Γ items with Ts Γ1 d1 at h
          obtain ⟨_, hΓ, hd, _⟩ := fin_inv _ _ _ _ _ _ h
          subst hd
          rw [hΓ]; exact ihA items ret _ Γ Ts Γ1 hs h1
        · destruct3 h1 : tcItems P ret none Γ items with Ts Γ1 d1 at h
          split at h
          · obtain ⟨_, hΓ, hd, _⟩ := fin_inv _ _ _ _ _ _ h
            subst hd
            rw [hΓ]; exact ihA items ret _ Γ Ts Γ1 hs h1
          · obtain ⟨_, hΓ, hd, _⟩ := fin_inv _ _ _ _ _ _ h
            simp at hd
      | tuple items =>
        simp only [okE] at hs
        simp only [tcExpr] at h
        destruct3 h1 : tcItems P ret none Γ items with Ts Γ1 d1 at h
        obtain ⟨_, hΓ, hd, _⟩ := fin_inv _ _ _ _ _ _ h
        subst hd
        rw [hΓ]; exact ihA items ret _ Γ Ts Γ1 hs h1
      | call f args =>
        simp only [okE] at hs
        simp only [tcExpr] at h
        destruct3 h1 : tcItems P ret none Γ args with Ts Γ1 d1 at h
        destruct3 h2 : callTy P Γ1 f Ts with T2 Γ2 d2 at h
        obtain ⟨_, hΓ, hd, _⟩ := fin_inv _ _ _ _ _ _ h
        simp at hd
        obtain ⟨hd1, hd2⟩ := hd
        subst hd1; subst hd2
        rw [hΓ, callTy_env P Γ1 Γ2 f Ts T2 h2]; exact ihA args ret _ Γ Ts Γ1 hs h1
    · -- blocks
      intro es ret exp g G T Γ' hs h
      have stmt : ∀ e exp T Γ', (match e with | .letE _ _ e' => okE P d e' | _ => okE P d e) = true →
          tcExpr P ret exp (g :: G) e = (T, Γ', []) → ∃ g', Γ' = g' :: G := by
        intro e exp T Γ' hs h
        cases e with
        | letE x hint e' =>
          simp only at hs
          simp only [tcExpr] at h
          cases hint with
          | some hh =>
            simp only at h
            destruct3 h1 : tcExpr P ret (some hh.toTy) (g :: G) e' with T1 Γ1 d1 at h
            obtain ⟨_, hΓ, hd, _⟩ := fin_inv _ _ _ _ _ _ h
            subst hd
            rw [hΓ, ihE e' ret _ (g :: G) T1 Γ1 hs h1, setB_cons]
            exact ⟨_, rfl⟩
          | none =>
            simp only at h
            destruct3 h1 : tcExpr P ret none (g :: G) e' with T1 Γ1 d1 at h
            obtain ⟨_, hΓ, hd, _⟩ := fin_inv _ _ _ _ _ _ h
            subst hd
            rw [hΓ, ihE e' ret _ (g :: G) T1 Γ1 hs h1, setB_cons]
            exact ⟨_, rfl⟩
        | _ =>
          simp only at hs
          exact ⟨g, ihE _ ret exp (g :: G) T Γ' hs h⟩
      cases es with
      | nil =>
        simp only [tcSeq] at h
        simp at h
        exact ⟨g, h.2.1.symm⟩
      | cons e rest =>
        simp only [okL] at hs
        simp at hs
        cases rest with
        | nil =>
          simp only [tcSeq] at h
          exact stmt e exp T Γ' hs.1 h
        | cons e2 rest =>
          simp only [tcSeq] at h
          destruct3 h1 : tcExpr P ret none (g :: G) e with T1 Γ1 d1 at h
          destruct3 h2 : tcSeq P ret exp Γ1 (e2 :: rest) with T2 Γ2 d2 at h
          simp only [Prod.mk.injEq] at h
          obtain ⟨_, hΓ, hd⟩ := h
          obtain ⟨hd1, hd2⟩ := List.append_eq_nil_iff.mp hd
          subst hd1; subst hd2
          obtain ⟨g1, hg1⟩ := stmt e none T1 Γ1 hs.1 h1
          subst hg1
          rw [← hΓ]
          exact ihL (e2 :: rest) ret exp g1 G T2 Γ2 hs.2 h2
    · intro es ret exp Γ Ts Γ' hs h
      cases es with
      | nil => simp [tcItems] at h; exact h.2.symm
      | cons e rest =>
        simp only [okA] at hs
        simp at hs
        simp only [tcItems] at h
        destruct3 h1 : tcExpr P ret exp Γ e with T1 Γ1 d1 at h
        destruct3 h2 : tcItems P ret exp Γ1 rest with T2 Γ2 d2 at h
        simp at h
        obtain ⟨_, hΓ, hd1, hd2⟩ := h
        subst hd1; subst hd2
        rw [← hΓ, ihA rest ret exp Γ1 T2 Γ2 hs.2 h2, ihE e ret exp Γ T1 Γ1 hs.1 h1]
    · intro cs ret mode Ts0 Γ Ts Γ' hs h
      cases cs with
      | nil => simp [tcCases] at h; exact h.2.symm
      | cons c rest =>
        cases c with
        | mk v payload body =>
        simp only [okC] at hs
        simp at hs
        cases payload with
        | none =>
          simp only [tcCases] at h
          destruct3 h1 : tcSeq P ret mode ([] :: [] :: Γ) body with T1 Γ1 d1 at h
          destruct3 h2 : tcCases P ret mode Ts0 Γ1.tail.tail rest with T2 Γ2 d2 at h
          simp only [Prod.mk.injEq] at h
          obtain ⟨_, hΓ, hd⟩ := h
          obtain ⟨hd12, hd2⟩ := List.append_eq_nil_iff.mp hd
          obtain ⟨hd1, _⟩ := List.append_eq_nil_iff.mp hd12
          subst hd1; subst hd2
          have t1 := blk body ret mode ([] :: Γ) T1 Γ1 hs.1.2 h1
          rw [← hΓ, ihC rest ret mode Ts0 _ T2 Γ2 hs.2 h2, t1]
          simp
        | some x =>
          simp only [tcCases] at h
          destruct3 h1 : tcSeq P ret mode ([] :: setB ([] :: Γ) x (payloadTy Ts0 v)) body with T1 Γ1 d1 at h
          destruct3 h2 : tcCases P ret mode Ts0 Γ1.tail.tail rest with T2 Γ2 d2 at h
          simp only [Prod.mk.injEq] at h
          obtain ⟨_, hΓ, hd⟩ := h
          obtain ⟨hd12, hd2⟩ := List.append_eq_nil_iff.mp hd
          obtain ⟨hd1, _⟩ := List.append_eq_nil_iff.mp hd12
          subst hd1; subst hd2
          have t1 := blk body ret mode _ T1 Γ1 hs.1.2 h1
          rw [← hΓ, ihC rest ret mode Ts0 _ T2 Γ2 hs.2 h2, t1, setB_cons]
          simp


-- ================================================================== (part 4)


theorem gi_tInt : gi tInt = true := by simp [gi, tInt, goodName0]
theorem gi_tStr : gi tStr = true := by simp [gi, tStr, goodName0]
theorem gi_tBool : gi tBool = true := by simp [gi, tBool, goodName0]
theorem gi_tUnit : gi tUnit = true := by simp [gi, tUnit, goodName0]

theorem fin_none (T T' : Ty) (Γ Γ' : Blocks Ty) (d : List Diag) (h : fin none T Γ d = (T', Γ', [])) :
    T' = T ∧ Γ' = Γ ∧ d = [] := by
  have := fin_inv _ _ _ _ _ _ h
  exact ⟨this.1, this.2.1, this.2.2.1⟩

theorem findFun_mem (P : Program) (f : String) (d : FunDef) (h : findFun P f = some d) : d ∈ P.funs := by
  unfold findFun at h
  exact List.mem_of_find?_eq_some h

theorem globalOf_fn (P : Program) (f : String) (ps : List Ty) (r : Ty) (h : globalOf P f = some (.fn ps r)) :
    ∃ d, findFun P f = some d ∧ ps = paramTys d ∧ r = d.ret.toTy := by
  unfold globalOf at h
  split at h
  · rename_i d hd
    simp at h
    exact ⟨d, hd, h.1.symm, h.2.symm⟩
  · repeat' split at h
    all_goals simp at h

theorem giL_of_forall : ∀ ts : List Ty, (∀ t ∈ ts, gi t = true) → giL ts = true
  | [], h => by simp [giL]
  | t :: ts, h => by simp [giL, h t (by simp), giL_of_forall ts (fun t' ht' => h t' (by simp [ht']))]

theorem callTy_gi (P : Program) (Γ Γ' : Blocks Ty) (f : String) (tys : List Ty) (T : Ty)
    (h : callTy P Γ f tys = (T, Γ', [])) (hΓ : GoodEnv Γ) (ht : ∀ t ∈ tys, gi t = true) : gi T = true := by
  unfold callTy at h
  split at h
  · rename_i T0 hl
    have g0 := lookupB_gi Γ f T0 hΓ hl
    split at h
    · simp [gi] at g0
    · simp [gi] at g0
    · split at h
      · simp at h; rw [← h.1]; exact gi_noValue
      · simp at h
  · split at h
    · simp at h
    · rename_i ps r hg
      obtain ⟨d, _, _, hr⟩ := globalOf_fn P f ps r hg
      split at h
      · simp at h; rw [← h.1, hr]; exact Hint.toTy_gi _
      · simp at h
    · split at h
      · simp at h; rw [← h.1]; exact gi_tUnit
      · simp at h
    · split at h
      · simp at h; rw [← h.1]; exact gi_tStr
      · simp at h
    · split at h
      · rename_i a
        simp at h
        rw [← h.1]
        simp [tOption, gi]
        exact ht a (by simp)
      · simp at h
      · simp at h
    · split at h
      · simp at h; rw [← h.1]; exact gi_noValue
      · simp at h

theorem inferVar_gi (P : Program) (Γ Γ' : Blocks Ty) (x : String) (T : Ty)
    (hs : ((isValueGlobal x && (findFun P x).isNone) || !(isGlobalName P x)) = true)
    (h : inferVar P Γ x = (T, Γ', [])) (hΓ : GoodEnv Γ) : gi T = true := by
  unfold inferVar at h
  split at h
  · rename_i T0 hl
    simp at h
    rw [← h.1]
    exact lookupB_gi Γ x T0 hΓ hl
  · simp at hs
    rcases hs with ⟨hvg, hff⟩ | hng
    · simp [isValueGlobal] at hvg
      rcases hvg with ((rfl | rfl) | rfl) | rfl
      all_goals
        simp [globalOf, hff, Global.ty] at h
        rw [← h.1]
        simp [gi, tOption, tBool, tUnit, Ty.noValue, goodName0]
    · simp [isGlobalName, reservedNames] at hng
      simp [globalOf, hng] at h

theorem payloadTy_gi (P : Program) (Ts : Ty) (v : String) (hg : gi Ts = true) (hnt : Ts.isTuple = false)
    (hv : v ≠ "_") (hp : patternDiags P (tyName Ts) v true = []) : gi (payloadTy Ts v) = true := by
  unfold payloadTy
  split
  · exact gi_noValue
  · rename_i hnv
    cases Ts <;> simp [gi, Ty.isTuple] at hg hnt
    rename_i k n args
    simp [Ty.isNoValue] at hnv
    unfold patternDiags at hp
    simp [hv, tyName] at hp
    split at hp
    · simp at hp
    · simp at hp
    · rename_i en ctor hvo
      simp [hnv] at hp
      obtain ⟨hc, hen⟩ := hp
      subst hc
      subst hen
      unfold variantOf at hvo
      split at hvo
      · simp at hvo
      · repeat' split at hvo
        all_goals simp at hvo
        all_goals subst hvo
        all_goals
          (cases args with
           | nil => simp [gi, goodName0] at hg
           | cons a rest =>
             cases rest with
             | nil => simp [gi] at hg <;> (rename_i hsome; simp at hsome; subst hsome; simp [enumVariants, hg])
             | cons b rest => simp [gi] at hg)


-- ================================================================== (part 5)


theorem unifyAll_gi (ts : List Ty) (c : Ty) (h : Ty.unifyAll ts = .ok c) (hts : ∀ t ∈ ts, gi t = true) :
    gi c = true := unifyAllFrom_gi ts Ty.noValue c 0 h gi_noValue hts

/-- A block statement keeps the checker's environment well-typed. -/
theorem stmt_goodenv (P : Program) (d : Nat)
    (GE : ∀ e ret Γ T Γ', okE P d e = true → tcExpr P ret none Γ e = (T, Γ', []) → GoodEnv Γ → gi T = true)
    (e : TExpr) (ret : Ty) (exp : Option Ty) (Γ Γ' : Blocks Ty) (T : Ty)
    (hs : okS P d e = true) (h : tcExpr P ret exp Γ e = (T, Γ', [])) (hΓ : GoodEnv Γ) : GoodEnv Γ' := by
  cases e with
  | letE x hint e' =>
    simp only [okS] at hs
    simp only [tcExpr] at h
    cases hint with
    | some hh =>
      simp only at h
      destruct3 h1 : tcExpr P ret (some hh.toTy) Γ e' with T1 Γ1 d1 at h
      obtain ⟨_, hΓ', hd, _⟩ := fin_inv _ _ _ _ _ _ h
      subst hd
      rw [hΓ', (tc_inv P d).1 e' ret _ Γ T1 Γ1 hs h1]
      exact GoodEnv_setB Γ x _ hΓ (Hint.toTy_gi hh)
    | none =>
      simp only at h
      destruct3 h1 : tcExpr P ret none Γ e' with T1 Γ1 d1 at h
      obtain ⟨_, hΓ', hd, _⟩ := fin_inv _ _ _ _ _ _ h
      subst hd
      rw [hΓ', (tc_inv P d).1 e' ret _ Γ T1 Γ1 hs h1]
      exact GoodEnv_setB Γ x _ hΓ (GE e' ret Γ T1 Γ1 hs h1 hΓ)
  | _ =>
    simp only [okS] at hs
    rw [(tc_inv P d).1 _ ret exp Γ T Γ' hs h]
    exact hΓ

/-- The types the checker INFERS (no expected type) on the fragment are well-formed fragment types
without `Any` / `Error`, provided no diagnostic was produced. -/
theorem tc_gi (P : Program) : ∀ d,
    (∀ e ret Γ T Γ', okE P d e = true → tcExpr P ret none Γ e = (T, Γ', []) → GoodEnv Γ → gi T = true) ∧
    (∀ es ret Γ T Γ', okL P d es = true → tcSeq P ret none Γ es = (T, Γ', []) → GoodEnv Γ → gi T = true) ∧
    (∀ es ret Γ Ts Γ', okA P d es = true → tcItems P ret none Γ es = (Ts, Γ', []) → GoodEnv Γ →
      ∀ t ∈ Ts, gi t = true) ∧
    (∀ cs ret Ts0 Γ Ts Γ', okC P d cs = true → tcCases P ret none Ts0 Γ cs = (Ts, Γ', []) → GoodEnv Γ →
      gi Ts0 = true → Ts0.isTuple = false → ∀ t ∈ Ts, gi t = true) := by
  intro d
  induction d with
  | zero => simp [okE, okL, okA, okC]
  | succ d ih =>
    obtain ⟨ihE, ihL, ihA, ihC⟩ := ih
    have inv := tc_inv P d
    have blkΓ : ∀ es ret exp Γ T Γ', okL P d es = true → tcSeq P ret exp ([] :: Γ) es = (T, Γ', []) →
        Γ'.tail = Γ := by
      intro es ret exp Γ T Γ' hs h
      obtain ⟨g', hg⟩ := inv.2.1 es ret exp [] Γ T Γ' hs h
      simp [hg]
    refine ⟨?_, ?_, ?_, ?_⟩
    · intro e ret Γ T Γ' hs h hΓ
      cases e with
      | int v => simp only [tcExpr] at h; rw [(fin_none _ _ _ _ _ h).1]; exact gi_tInt
      | str v => simp only [tcExpr] at h; rw [(fin_none _ _ _ _ _ h).1]; exact gi_tStr
      | retUnit => simp only [tcExpr] at h; rw [(fin_none _ _ _ _ _ h).1]; exact gi_noValue
      | brk => simp only [tcExpr] at h; rw [(fin_none _ _ _ _ _ h).1]; exact gi_noValue
      | cont => simp only [tcExpr] at h; rw [(fin_none _ _ _ _ _ h).1]; exact gi_noValue
      | letE x hint e => simp [okE] at hs
      | var x =>
        simp only [okE] at hs
        simp only [tcExpr] at h
        destruct3 h1 : inferVar P Γ x with T1 Γ1 d1 at h
        obtain ⟨hT, _, hd⟩ := fin_none _ _ _ _ _ h
        subst hd
        rw [hT]; exact inferVar_gi P Γ Γ1 x T1 hs h1 hΓ
      | paren e =>
        simp only [okE] at hs
        simp only [tcExpr] at h
        destruct3 h1 : tcExpr P ret none Γ e with T1 Γ1 d1 at h
        obtain ⟨hT, _, hd⟩ := fin_none _ _ _ _ _ h
        subst hd
        rw [hT]; exact ihE e ret Γ T1 Γ1 hs h1 hΓ
      | ret e =>
        simp only [tcExpr] at h
        destruct3 h1 : tcExpr P ret (some ret) Γ e with T1 Γ1 d1 at h
        rw [(fin_none _ _ _ _ _ h).1]; exact gi_noValue
      | binop op l r =>
        simp only [tcExpr] at h
        split at h
        · destruct3 h1 : tcExpr P ret none Γ l with T1 Γ1 d1 at h
          destruct3 h2 : tcExpr P ret none Γ1 r with T2 Γ2 d2 at h
          obtain ⟨T3, d3, h3⟩ : ∃ a b, intBinopTy op T1 T2 = (a, b) := ⟨_, _, rfl⟩
          rw [h3] at h
          simp only at h
          obtain ⟨hT, _, hd⟩ := fin_none _ _ _ _ _ h
          simp at hd
          obtain ⟨_, _, hd3⟩ := hd
          subst hd3
          unfold intBinopTy at h3
          split at h3
          · simp at h3
          split at h3
          · simp at h3
          simp at h3
          rw [hT, ← h3.1]; exact gi_tInt
        · split at h
          · destruct3 h1 : tcExpr P ret none Γ l with T1 Γ1 d1 at h
            destruct3 h2 : tcExpr P ret none Γ1 r with T2 Γ2 d2 at h
            rw [(fin_none _ _ _ _ _ h).1]; exact gi_tBool
          · obtain ⟨opnd, res, ho⟩ : ∃ a b, (if (op == BinOp.and || op == BinOp.or) = true then (tBool, tBool)
                else if (op == BinOp.concat) = true then (tStr, tStr) else (tInt, tBool)) = (a, b) := ⟨_, _, rfl⟩
            rw [ho] at h
            simp only at h
            destruct3 h1 : tcExpr P ret (some opnd) Γ l with T1 Γ1 d1 at h
            destruct3 h2 : tcExpr P ret (some opnd) Γ1 r with T2 Γ2 d2 at h
            rw [(fin_none _ _ _ _ _ h).1]
            split at ho
            · simp at ho; rw [← ho.2]; exact gi_tBool
            · split at ho
              · simp at ho; rw [← ho.2]; exact gi_tStr
              · simp at ho; rw [← ho.2]; exact gi_tBool
      | assign x e =>
        simp only [tcExpr] at h
        destruct3 h1 : varForAssign P Γ x with T1 Γ1 d1 at h
        destruct3 h2 : tcExpr P ret (some T1) Γ1 e with T2 Γ2 d2 at h
        rw [(fin_none _ _ _ _ _ h).1]; exact gi_tUnit
      | update isAdd x e =>
        simp only [tcExpr] at h
        destruct3 h1 : varForAssign P Γ x with T1 Γ1 d1 at h
        destruct3 h2 : tcExpr P ret (some tInt) Γ1 e with T2 Γ2 d2 at h
        rw [(fin_none _ _ _ _ _ h).1]; exact gi_tUnit
      | whileE c body =>
        simp only [tcExpr] at h
        destruct3 h1 : tcExpr P ret (some tBool) Γ c with T1 Γ1 d1 at h
        destruct3 h2 : tcSeq P ret none ([] :: Γ1) body with T2 Γ2 d2 at h
        rw [(fin_none _ _ _ _ _ h).1]; exact gi_tUnit
      | forE x e body =>
        simp only [tcExpr] at h
        destruct3 h1 : tcExpr P ret (some (tList .any)) Γ e with T1 Γ1 d1 at h
        destruct3 h2 : tcSeq P ret none ([] :: setB ([] :: Γ1) x (forElemTy T1)) body with T2 Γ2 d2 at h
        rw [(fin_none _ _ _ _ _ h).1]; exact gi_tUnit
      | ifE c thn hasElse els =>
        simp only [okE] at hs
        simp at hs
        obtain ⟨⟨hsc, hst⟩, hse⟩ := hs
        simp only [tcExpr] at h
        destruct3 h1 : tcExpr P ret (some tBool) Γ c with T1 Γ1 d1 at h
        split at h
        · destruct3 h2 : tcSeq P ret none ([] :: Γ1) thn with T2 Γ2 d2 at h
          destruct3 h3 : tcSeq P ret none ([] :: Γ2.tail) els with T3 Γ3 d3 at h
          split at h
          · rename_i U hU
            simp at h
            obtain ⟨hT, _, hd1, hd2, hd3⟩ := h
            subst hd1; subst hd2; subst hd3
            have e1 := inv.1 c ret _ Γ T1 Γ1 hsc h1
            rw [e1] at h2
            have e2 := blkΓ thn ret none Γ T2 Γ2 hst h2
            rw [e2] at h3
            rw [← hT]
            exact unify_gi T2 T3 U hU (ihL thn ret _ T2 Γ2 hst h2 (GoodEnv_push _ hΓ))
              (ihL els ret _ T3 Γ3 hse h3 (GoodEnv_push _ hΓ))
          · simp at h
        · destruct3 h2 : tcSeq P ret none ([] :: Γ1) thn with T2 Γ2 d2 at h
          rw [(fin_none _ _ _ _ _ h).1]; exact gi_tUnit
      | matchE s cases =>
        simp only [okE] at hs
        simp at hs
        simp only [tcExpr] at h
        destruct3 h1 : tcExpr P ret none Γ s with T1 Γ1 d1 at h
        destruct3 h2 : tcCases P ret (matchMode none) T1 Γ1 cases with Ts Γ2 d2 at h
        simp only [matchMode] at h h2
        split at h
        · rename_i U hU
          obtain ⟨hT, _, hd⟩ := fin_none _ _ _ _ _ h
          simp at hd
          obtain ⟨hd1, hdne, hdx, hd2⟩ := hd
          subst hd1; subst hd2
          have e1 := inv.1 s ret _ Γ T1 Γ1 hs.1 h1
          rw [e1] at h2
          have g1 := ihE s ret Γ T1 Γ1 hs.1 h1 hΓ
          have hnt : T1.isTuple = false := by
            cases T1 <;> simp [Ty.isTuple, scrutIsEnum] at hdne ⊢
          rw [hT]
          exact unifyAll_gi Ts U hU (ihC cases ret T1 Γ Ts Γ2 hs.2 h2 hΓ g1 hnt)
        · have := fin_none _ _ _ _ _ h
          simp at this
      | list items =>
        simp only [okE] at hs
        simp only [tcExpr, listExpected] at h
        destruct3 h1 : tcItems P ret none Γ items with Ts Γ1 d1 at h
        split at h
        · rename_i U hU
          obtain ⟨hT, _, hd⟩ := fin_none _ _ _ _ _ h
          subst hd
          rw [hT]
          simp [tList, gi]
          exact unifyAll_gi Ts U hU (ihA items ret Γ Ts Γ1 hs h1 hΓ)
        · have := fin_none _ _ _ _ _ h
          simp at this
      | tuple items =>
        simp only [okE] at hs
        simp only [tcExpr] at h
        destruct3 h1 : tcItems P ret none Γ items with Ts Γ1 d1 at h
        obtain ⟨hT, _, hd⟩ := fin_none _ _ _ _ _ h
        subst hd
        rw [hT]
        simp [gi]
        exact giL_of_forall Ts (ihA items ret Γ Ts Γ1 hs h1 hΓ)
      | call f args =>
        simp only [okE] at hs
        simp only [tcExpr] at h
        destruct3 h1 : tcItems P ret none Γ args with Ts Γ1 d1 at h
        destruct3 h2 : callTy P Γ1 f Ts with T2 Γ2 d2 at h
        obtain ⟨hT, _, hd⟩ := fin_none _ _ _ _ _ h
        simp at hd
        obtain ⟨hd1, hd2⟩ := hd
        subst hd1; subst hd2
        have e1 := inv.2.2.1 args ret _ Γ Ts Γ1 hs h1
        rw [e1] at h2
        rw [hT]
        exact callTy_gi P Γ Γ2 f Ts T2 h2 hΓ (ihA args ret Γ Ts Γ1 hs h1 hΓ)
    · intro es ret Γ T Γ' hs h hΓ
      cases es with
      | nil =>
        simp only [tcSeq] at h
        simp at h
        rw [← h.1]; exact gi_tUnit
      | cons e rest =>
        simp only [okL] at hs
        simp at hs
        have hs1 : okS P d e = true := by
          unfold okS; exact hs.1
        cases rest with
        | nil =>
          simp only [tcSeq] at h
          cases e with
          | letE x hint e' =>
            simp only [tcExpr] at h
            cases hint with
            | some hh =>
              simp only at h
              destruct3 h1 : tcExpr P ret (some hh.toTy) Γ e' with T1 Γ1 d1 at h
              rw [(fin_none _ _ _ _ _ h).1]; exact gi_tUnit
            | none =>
              simp only at h
              destruct3 h1 : tcExpr P ret none Γ e' with T1 Γ1 d1 at h
              rw [(fin_none _ _ _ _ _ h).1]; exact gi_tUnit
          | _ =>
            simp only at hs
            exact ihE _ ret Γ T Γ' hs.1 h hΓ
        | cons e2 rest =>
          simp only [tcSeq] at h
          destruct3 h1 : tcExpr P ret none Γ e with T1 Γ1 d1 at h
          destruct3 h2 : tcSeq P ret none Γ1 (e2 :: rest) with T2 Γ2 d2 at h
          simp only [Prod.mk.injEq] at h
          obtain ⟨hT, _, hd⟩ := h
          obtain ⟨hd1, hd2⟩ := List.append_eq_nil_iff.mp hd
          subst hd1; subst hd2
          rw [← hT]
          exact ihL (e2 :: rest) ret Γ1 T2 Γ2 hs.2 h2 (stmt_goodenv P d ihE e ret none Γ Γ1 T1 hs1 h1 hΓ)
    · intro es ret Γ Ts Γ' hs h hΓ
      cases es with
      | nil => simp [tcItems] at h; obtain ⟨hT, _⟩ := h; subst hT; simp
      | cons e rest =>
        simp only [okA] at hs
        simp at hs
        simp only [tcItems] at h
        destruct3 h1 : tcExpr P ret none Γ e with T1 Γ1 d1 at h
        destruct3 h2 : tcItems P ret none Γ1 rest with T2 Γ2 d2 at h
        simp only [Prod.mk.injEq] at h
        obtain ⟨hT, _, hd⟩ := h
        obtain ⟨hd1, hd2⟩ := List.append_eq_nil_iff.mp hd
        subst hd1; subst hd2
        have e1 := inv.1 e ret _ Γ T1 Γ1 hs.1 h1
        rw [e1] at h2
        intro t ht
        rw [← hT] at ht
        simp at ht
        rcases ht with rfl | ht
        · exact ihE e ret Γ t Γ1 hs.1 h1 hΓ
        · exact ihA rest ret Γ T2 Γ2 hs.2 h2 hΓ t ht
    · intro cs ret Ts0 Γ Ts Γ' hs h hΓ hg hnt
      cases cs with
      | nil => simp [tcCases] at h; obtain ⟨hT, _⟩ := h; subst hT; simp
      | cons c rest =>
        cases c with
        | mk v payload body =>
        simp only [okC] at hs
        simp at hs
        obtain ⟨⟨hvp, hsb⟩, hsr⟩ := hs
        cases payload with
        | none =>
          simp only [tcCases] at h
          destruct3 h1 : tcSeq P ret none ([] :: [] :: Γ) body with T1 Γ1 d1 at h
          destruct3 h2 : tcCases P ret none Ts0 Γ1.tail.tail rest with T2 Γ2 d2 at h
          simp only [Prod.mk.injEq] at h
          obtain ⟨hT, _, hd⟩ := h
          obtain ⟨hd12, hd2⟩ := List.append_eq_nil_iff.mp hd
          obtain ⟨hd1, _⟩ := List.append_eq_nil_iff.mp hd12
          subst hd1; subst hd2
          have t1 := blkΓ body ret none ([] :: Γ) T1 Γ1 hsb h1
          rw [t1] at h2
          simp at h2
          intro t ht
          rw [← hT] at ht
          simp at ht
          rcases ht with rfl | ht
          · exact ihL body ret _ t Γ1 hsb h1 (GoodEnv_push _ (GoodEnv_push _ hΓ))
          · exact ihC rest ret Ts0 Γ T2 Γ2 hsr h2 hΓ hg hnt t ht
        | some x =>
          simp only [tcCases] at h
          destruct3 h1 : tcSeq P ret none ([] :: setB ([] :: Γ) x (payloadTy Ts0 v)) body with T1 Γ1 d1 at h
          destruct3 h2 : tcCases P ret none Ts0 Γ1.tail.tail rest with T2 Γ2 d2 at h
          simp only [Prod.mk.injEq] at h
          obtain ⟨hT, _, hd⟩ := h
          obtain ⟨hd12, hd2⟩ := List.append_eq_nil_iff.mp hd
          obtain ⟨hd1, hdp⟩ := List.append_eq_nil_iff.mp hd12
          subst hd1; subst hd2
          have t1 := blkΓ body ret none _ T1 Γ1 hsb h1
          rw [t1, setB_cons] at h2
          simp at h2
          simp at hvp
          simp at hdp
          have gp := payloadTy_gi P Ts0 v hg hnt hvp hdp
          intro t ht
          rw [← hT] at ht
          simp at ht
          rcases ht with rfl | ht
          · exact ihL body ret _ t Γ1 hsb h1
              (GoodEnv_push _ (GoodEnv_setB _ x _ (GoodEnv_push _ hΓ) gp))
          · exact ihC rest ret Ts0 Γ T2 Γ2 hsr h2 hΓ hg hnt t ht


-- ================================================================== (part 6)


def resTy (exp : Option Ty) (T : Ty) : Ty :=
  match exp with
  | none => T
  | some E => E

/-- Outcomes allowed for an expression of static type `T` checked in `Γ` (bindings `Γ'`
afterwards), inside a function with return type `ret`; `il` = inside a loop. -/
def R (ret T : Ty) (Γ Γ' : Blocks Ty) (il : Bool) : Res → Prop
  | .val v ρ' => hasTy v T = true ∧ envOK Γ' ρ'
  | .ret v => hasTy v ret = true
  | .brk ρ' => il = true ∧ ∃ Γb, envOK Γb ρ' ∧ Γb.tail = Γ.tail
  | .cont ρ' => il = true ∧ ∃ Γb, envOK Γb ρ' ∧ Γb.tail = Γ.tail
  | .err e => e.isTypeError = false
  | .timeout => True

def RI (ret : Ty) (exp : Option Ty) (Ts : List Ty) (Γ : Blocks Ty) (il : Bool) : ItemsRes → Prop
  | .vals vs ρ' => (match exp with
      | none => hasTyZip vs Ts = true
      | some a => hasTyAll vs a = true) ∧ envOK Γ ρ'
  | .ret v => hasTy v ret = true
  | .brk ρ' => il = true ∧ ∃ Γb, envOK Γb ρ' ∧ Γb.tail = Γ.tail
  | .cont ρ' => il = true ∧ ∃ Γb, envOK Γb ρ' ∧ Γb.tail = Γ.tail
  | .err e => e.isTypeError = false
  | .timeout => True

theorem R_fin (ret T0 T : Ty) (Γ Γ1 Γ' : Blocks Ty) (il : Bool) (r : Res) (exp : Option Ty) (d : List Diag)
    (h : R ret T0 Γ Γ1 il r) (hf : fin exp T0 Γ1 d = (T, Γ', []))
    (hexp : ∀ E, exp = some E → good E = true) : R ret (resTy exp T) Γ Γ' il r := by
  obtain ⟨hT, hΓ, _, hsub⟩ := fin_inv _ _ _ _ _ _ hf
  subst hT; subst hΓ
  cases r <;> simp [R] at h ⊢ <;> try exact h
  case val v ρ =>
    refine ⟨?_, h.2⟩
    cases exp with
    | none => exact h.1
    | some E => exact hasTy_sub v T E h.1 (hsub E rfl) (hexp E rfl)

/-- Transfer of the non-value outcomes. -/
theorem R_pass (ret T T2 : Ty) (Γ Γ0 Γ1 Γ2 : Blocks Ty) (il : Bool) (r : Res)
    (h : R ret T Γ0 Γ1 il r) (hΓ : Γ0.tail = Γ.tail) (hv : ∀ v ρ, r ≠ .val v ρ) : R ret T2 Γ Γ2 il r := by
  cases r <;> simp [R] at h ⊢
  case val v ρ => exact absurd rfl (hv v ρ)
  case brk ρ => exact ⟨h.1, by obtain ⟨Γb, h1, h2⟩ := h.2; exact ⟨Γb, h1, h2.trans hΓ⟩⟩
  case cont ρ => exact ⟨h.1, by obtain ⟨Γb, h1, h2⟩ := h.2; exact ⟨Γb, h1, h2.trans hΓ⟩⟩
  all_goals exact h

theorem RI_pass (ret T2 : Ty) (exp : Option Ty) (Ts : List Ty) (Γ Γ2 : Blocks Ty) (il : Bool) (r : ItemsRes)
    (h : RI ret exp Ts Γ il r) (hv : ∀ vs ρ, r ≠ .vals vs ρ) :
    R ret T2 Γ Γ2 il (match r with
      | .vals vs ρ1 => .timeout
      | .ret v => .ret v | .brk ρ1 => .brk ρ1 | .cont ρ1 => .cont ρ1 | .err er => .err er | .timeout => .timeout) := by
  cases r <;> simp [RI, R] at h ⊢
  all_goals exact h

/-- Leaving a block: the scope pushed on entry is popped. -/
theorem R_leave (ret T : Ty) (Γ Γ2 : Blocks Ty) (il keep : Bool) (r : Res)
    (h : R ret T ([] :: Γ) Γ2 il r) (hΓ : Γ2.tail = Γ) :
    R ret (if keep then T else tUnit) Γ Γ il (leaveBlock keep r) := by
  cases r <;> simp [R, leaveBlock] at h ⊢
  case val v ρ =>
    refine ⟨?_, by rw [← hΓ]; exact envOK_tail _ _ h.2⟩
    cases keep <;> simp [h.1, hasTy, isNamed, tUnit]
  case brk ρ =>
    obtain ⟨h0, Γb, h1, h2⟩ := h
    exact ⟨h0, Γ, by rw [← h2]; exact envOK_tail _ _ h1, rfl⟩
  case cont ρ =>
    obtain ⟨h0, Γb, h1, h2⟩ := h
    exact ⟨h0, Γ, by rw [← h2]; exact envOK_tail _ _ h1, rfl⟩
  all_goals exact h

theorem hasTyAll_of_zip (U : Ty) : ∀ (vs : List Val) (Ts : List Ty), hasTyZip vs Ts = true →
    (∀ t ∈ Ts, ∀ v, hasTy v t = true → hasTy v U = true) → hasTyAll vs U = true
  | [], Ts, h, hU => by simp [hasTyAll]
  | v :: vs, Ts, h, hU => by
    cases Ts with
    | nil => simp [hasTyZip] at h
    | cons t Ts =>
      simp [hasTyZip] at h
      simp [hasTyAll, hU t (by simp) v h.1]
      exact hasTyAll_of_zip U vs Ts h.2 (fun t' ht' => hU t' (by simp [ht']))

theorem hasTyZip_length : ∀ (vs : List Val) (Ts : List Ty), hasTyZip vs Ts = true → vs.length = Ts.length
  | [], Ts, h => by cases Ts <;> simp [hasTyZip] at h ⊢
  | v :: vs, Ts, h => by
    cases Ts with
    | nil => simp [hasTyZip] at h
    | cons t Ts => simp [hasTyZip] at h; simp [hasTyZip_length vs Ts h.2]

/-- The argument tests of `infer_call` give values of the parameter types. -/
theorem args_sub : ∀ (ps : List Ty) (vs : List Val) (tys : List Ty), hasTyZip vs tys = true →
    ps.length = tys.length → goodL ps = true →
    (List.zip ps tys).filterMap (fun pa => if Ty.sub pa.2 pa.1 then none else some Diag.mismatch) = [] →
    hasTyZip vs ps = true
  | [], vs, tys, hz, hl, hg, hd => by
    cases tys <;> simp at hl
    cases vs <;> simp [hasTyZip] at hz ⊢
  | p :: ps, vs, tys, hz, hl, hg, hd => by
    cases tys with
    | nil => simp at hl
    | cons t tys =>
      cases vs with
      | nil => simp [hasTyZip] at hz
      | cons v vs =>
        simp [hasTyZip] at hz
        simp [goodL] at hg
        rw [List.zip_cons_cons, List.filterMap_cons] at hd
        by_cases hs : Ty.sub t p = true
        · simp only [hs, if_true] at hd
          simp [hasTyZip]
          exact ⟨hasTy_sub v t p hz.1 hs hg.1, args_sub ps vs tys hz.2 (by simpa using hl) hg.2 hd⟩
        · simp [hs] at hd

theorem paramsOk_of : ∀ (ps : List (String × Hint)) (vs : List Val),
    hasTyZip vs (ps.map (fun p => p.2.toTy)) = true → paramsOk ps vs = true
  | [], vs, h => by simp [paramsOk]
  | p :: ps, vs, h => by
    cases vs with
    | nil => simp [hasTyZip] at h
    | cons v vs =>
      simp [hasTyZip] at h
      simp [paramsOk, hasTy_sub_typeOf v _ h.1, paramsOk_of ps vs h.2]

theorem bind_ok : ∀ (ps : List (String × Hint)) (vs : List Val) (accT : List (String × Ty))
    (accV : List (String × Val)), hasTyZip vs (ps.map (fun p => p.2.toTy)) = true → blockOK accT accV →
    blockOK (ps.foldl (fun b p => setBlock b p.1 p.2.toTy) accT) (bindParams ps vs accV)
  | [], vs, accT, accV, h, hb => by
    cases vs <;> simp [hasTyZip] at h
    simp [bindParams, hb]
  | p :: ps, vs, accT, accV, h, hb => by
    cases vs with
    | nil => simp [hasTyZip] at h
    | cons v vs =>
      simp [hasTyZip] at h
      simp only [List.foldl_cons, bindParams]
      exact bind_ok ps vs _ _ h.2 (setBlock_ok accT accV p.1 p.2.toTy v hb h.1)

theorem foldl_setBlock_gi : ∀ (ps : List (String × Hint)) (acc : List (String × Ty)),
    (∀ q ∈ acc, gi q.2 = true) →
    ∀ q ∈ ps.foldl (fun b p => setBlock b p.1 p.2.toTy) acc, gi q.2 = true
  | [], acc, h => by simpa using h
  | p :: ps, acc, h => by
    simp only [List.foldl_cons]
    exact foldl_setBlock_gi ps _ (setBlock_gi acc p.1 p.2.toTy h (Hint.toTy_gi _))

theorem paramTys_goodL : ∀ ps : List (String × Hint), goodL (ps.map (fun p => p.2.toTy)) = true
  | [] => by simp [goodL]
  | p :: ps => by simp [goodL, Hint.toTy_good, paramTys_goodL ps]

-- ================================================================== (part 7)


theorem R_mono (ret T T' : Ty) (Γ Γ' : Blocks Ty) (il : Bool) (r : Res)
    (h : R ret T Γ Γ' il r) (hT : ∀ v, hasTy v T = true → hasTy v T' = true) : R ret T' Γ Γ' il r := by
  cases r <;> simp [R] at h ⊢ <;> first | exact ⟨hT _ h.1, h.2⟩ | exact h

theorem hop_arith (op : BinOp) (h : isIntArith op = true) (lv rv : Val)
    (h1 : hasTy lv tInt = true) (h2 : hasTy rv tInt = true) :
    (∀ v, binopVal op lv rv = .ok v → hasTy v tInt = true) ∧
    (∀ e, binopVal op lv rv = .error e → e.isTypeError = false) := by
  obtain ⟨a, rfl⟩ := canon_int lv h1
  obtain ⟨b, rfl⟩ := canon_int rv h2
  have hbv : binopVal op (.int a) (.int b) = intBinop op a b := by
    cases op <;> simp [isIntArith] at h <;> simp [binopVal]
  rw [hbv]
  constructor
  · intro v hv
    have := intBinop_ok_val op (Or.inl h) a b v hv
    simpa [h] using this
  · intro e he
    exact intBinop_ok_err op (Or.inl h) a b e he

theorem binop_R (P : Program) (n : Nat) (ρ : Blocks Val) (l r : TExpr) (op : BinOp)
    (ret opnd res : Ty) (Γ : Blocks Ty) (il : Bool)
    (ihl : R ret opnd Γ Γ il (eval P n ρ l))
    (ihr : ∀ ρ1, envOK Γ ρ1 → R ret opnd Γ Γ il (eval P n ρ1 r))
    (hop : ∀ lv rv, hasTy lv opnd = true → hasTy rv opnd = true →
      (∀ v, binopVal op lv rv = .ok v → hasTy v res = true) ∧
      (∀ e, binopVal op lv rv = .error e → e.isTypeError = false)) :
    R ret res Γ Γ il (eval P (n + 1) ρ (.binop op l r)) := by
  simp only [eval]
  cases hl : eval P n ρ l with
  | val lv ρ1 =>
    rw [hl] at ihl
    simp [R] at ihl
    have ihr' := ihr ρ1 ihl.2
    simp only []
    cases hr : eval P n ρ1 r with
    | val rv ρ2 =>
      rw [hr] at ihr'
      simp [R] at ihr'
      have h := hop lv rv ihl.1 ihr'.1
      cases hb : binopVal op lv rv with
      | ok v => simp only [hb]; simp [R, ihr'.2, h.1 v hb]
      | error er => simp only [hb]; simp [R, h.2 er hb]
    | _ => rw [hr] at ihr'; simp [R] at ihr' ⊢; try exact ihr'
  | _ => rw [hl] at ihl; simp [R] at ihl ⊢; try exact ihl

theorem good_tInt : good tInt = true := gi_good _ gi_tInt
theorem good_tBool : good tBool = true := gi_good _ gi_tBool
theorem good_tStr : good tStr = true := gi_good _ gi_tStr


-- ================================================================== (part 8)


theorem okS_of_okE (P : Program) (d : Nat) (e : TExpr) (h : okE P d e = true) : okS P d e = true := by
  cases e <;> simp only [okS] <;> first | exact h | skip
  cases d <;> simp [okE] at h



theorem assignBlock_ok : ∀ (g : List (String × Ty)) (r : List (String × Val)) (x : String) (T : Ty) (v : Val),
    blockOK g r → lookupBlock g x = some T → hasTy v T = true → blockOK g (setBlock r x v)
  | [], [], x, T, v, h, hl, hv => by simp [lookupBlock] at hl
  | [], _ :: _, x, T, v, h, hl, hv => by simp [blockOK] at h
  | _ :: _, [], x, T, v, h, hl, hv => by simp [blockOK] at h
  | (k, T0) :: g, (k', v0) :: r, x, T, v, h, hl, hv => by
    simp [blockOK] at h
    obtain ⟨hk, hv0, hr⟩ := h
    subst hk
    simp only [lookupBlock] at hl
    simp only [setBlock]
    by_cases hx : (k == x) = true
    · simp [hx] at hl
      subst hl
      simp [hx, blockOK, hv, hr]
    · simp [hx] at hl
      simp [hx, blockOK, hv0]
      exact assignBlock_ok g r x T v hr hl hv

theorem assignB_ok : ∀ (G : Blocks Ty) (R : Blocks Val) (x : String) (T : Ty) (v : Val),
    envOK G R → lookupB G x = some T → hasTy v T = true → envOK G (assignB R x v)
  | [], [], x, T, v, h, hl, hv => by simp [lookupB] at hl
  | [], _ :: _, x, T, v, h, hl, hv => by simp [envOK] at h
  | _ :: _, [], x, T, v, h, hl, hv => by simp [envOK] at h
  | g :: G, r :: R, x, T, v, h, hl, hv => by
    simp [envOK] at h
    have hb := lookupBlock_ok g r x h.1
    simp only [lookupB] at hl
    simp only [assignB]
    cases hg : lookupBlock g x with
    | some T0 =>
      rw [hg] at hl
      simp at hl
      subst hl
      obtain ⟨w, hw, _⟩ := hb.1 T0 hg
      simp [hw, envOK, h.2]
      exact assignBlock_ok g r x T0 v h.1 hg hv
    | none =>
      rw [hg] at hl
      simp at hl
      simp [hb.2 hg, envOK, h.1]
      exact assignB_ok G R x T v h.2 hl hv

theorem stmt_tail (P : Program) (d : Nat) (e : TExpr) (ret : Ty) (exp : Option Ty) (Γ Γ' : Blocks Ty) (T : Ty)
    (hs : okS P d e = true) (h : tcExpr P ret exp Γ e = (T, Γ', [])) : Γ'.tail = Γ.tail := by
  cases e with
  | letE x hint e' =>
    simp only [okS] at hs
    simp only [tcExpr] at h
    cases hint with
    | some hh =>
      simp only at h
      destruct3 h1 : tcExpr P ret (some hh.toTy) Γ e' with T1 Γ1 d1 at h
      obtain ⟨_, hΓ', hd, _⟩ := fin_inv _ _ _ _ _ _ h
      subst hd
      rw [hΓ', (tc_inv P d).1 e' ret _ Γ T1 Γ1 hs h1]
      cases Γ <;> simp [setB]
    | none =>
      simp only at h
      destruct3 h1 : tcExpr P ret none Γ e' with T1 Γ1 d1 at h
      obtain ⟨_, hΓ', hd, _⟩ := fin_inv _ _ _ _ _ _ h
      subst hd
      rw [hΓ', (tc_inv P d).1 e' ret _ Γ T1 Γ1 hs h1]
      cases Γ <;> simp [setB]
  | _ =>
    simp only [okS] at hs
    rw [(tc_inv P d).1 _ ret exp Γ T Γ' hs h]

theorem R_reΓ (ret T : Ty) (Γ Γ1 Γ' : Blocks Ty) (il : Bool) (r : Res)
    (h : R ret T Γ1 Γ' il r) (hΓ : Γ1.tail = Γ.tail) : R ret T Γ Γ' il r := by
  cases r <;> simp [R] at h ⊢
  case brk ρ => exact ⟨h.1, by obtain ⟨Γb, h1, h2⟩ := h.2; exact ⟨Γb, h1, h2.trans hΓ⟩⟩
  case cont ρ => exact ⟨h.1, by obtain ⟨Γb, h1, h2⟩ := h.2; exact ⟨Γb, h1, h2.trans hΓ⟩⟩
  all_goals exact h

theorem listExpected_some (exp : Option Ty) (a : Ty) (h : listExpected exp = some a) :
    exp = some (.user .struct "List" [a]) := by
  unfold listExpected at h
  split at h
  · rename_i n a'
    split at h
    · rename_i hn
      simp at h hn
      subst h; subst hn; rfl
    · simp at h
  · simp at h

theorem good_list_arg (k : Kind) (a : Ty) (h : good (.user k "List" [a]) = true) : good a = true := by
  simp [good] at h; exact h

theorem callTy_bound (P : Program) (Γ Γ' : Blocks Ty) (f : String) (tys : List Ty) (T : Ty)
    (h : callTy P Γ f tys = (T, Γ', [])) : ¬ (lookupB Γ f = none ∧ globalOf P f = none) := by
  intro ⟨h1, h2⟩
  unfold callTy at h
  simp [h1, h2] at h


-- ================================================================== the whole fragment


/-- For the iterables allowed by `iterOK` checking against `E` is inferring and then comparing. -/
theorem tc_chk_infer (P : Program) (ret E T : Ty) (Γ Γ' : Blocks Ty) (e : TExpr)
    (hi : iterOK e = true) (h : tcExpr P ret (some E) Γ e = (T, Γ', [])) :
    tcExpr P ret none Γ e = (T, Γ', []) ∧ Ty.sub T E = true := by
  cases e <;> simp [iterOK] at hi
  case var x =>
    simp only [tcExpr] at h ⊢
    destruct3 h1 : inferVar P Γ x with T1 Γ1 d1 at h
    obtain ⟨hT, hΓ, hd, hsub⟩ := fin_inv _ _ _ _ _ _ h
    subst hT; subst hΓ; subst hd
    refine ⟨?_, hsub E rfl⟩
    rw [h1]; simp [fin]
  case paren e' =>
    simp only [tcExpr] at h ⊢
    destruct3 h1 : tcExpr P ret none Γ e' with T1 Γ1 d1 at h
    obtain ⟨hT, hΓ, hd, hsub⟩ := fin_inv _ _ _ _ _ _ h
    subst hT; subst hΓ; subst hd
    refine ⟨?_, hsub E rfl⟩
    rw [h1]; simp [fin]
  case call f args =>
    simp only [tcExpr] at h ⊢
    destruct3 h1 : tcItems P ret none Γ args with Ts Γ1 d1 at h
    destruct3 h2 : callTy P Γ1 f Ts with T2 Γ2 d2 at h
    obtain ⟨hT, hΓ, hd, hsub⟩ := fin_inv _ _ _ _ _ _ h
    subst hT; subst hΓ
    refine ⟨?_, hsub E rfl⟩
    rw [h1]; simp only []; rw [h2]; simp [fin]
    simpa using hd

/-- A value whose (inferred, well-formed) type is below `List<Any>` is a list of values of the
element type the checker gives the loop variable. -/
theorem list_inv (v : Val) (Te : Ty) (hg : gi Te = true) (hs : Ty.sub Te (tList .any) = true)
    (hv : hasTy v Te = true) :
    ∃ items, v = .list items ∧ hasTyAll items (forElemTy Te) = true ∧ gi (forElemTy Te) = true := by
  cases Te <;> (try simp [gi] at hg)
  case tuple ts =>
    rcases sub_tuple_cases ts _ hs with h | h | ⟨bs, h, _⟩ <;> simp [tList] at h
  case user k n args =>
    by_cases hn : n = "NoValue"
    · subst hn
      have := hasTy_noValue v (.user k "NoValue" args) (by simp [Ty.isNoValue])
      simp [this] at hv
    · have hsub := sub_user_cases k n args (tList .any) hn hs
      simp [tList] at hsub
      obtain ⟨k2, bs, ⟨_, hnl, _⟩, _⟩ := hsub
      subst hnl
      cases args with
      | nil => simp [gi, goodName0] at hg
      | cons a rest =>
        cases rest with
        | nil =>
          simp [gi] at hg
          cases v <;> simp [hasTy, isNamed] at hv
          rename_i items
          exact ⟨items, rfl, by simpa [forElemTy] using hv, by simpa [forElemTy] using hg⟩
        | cons b rest => simp [gi] at hg



-- ------------------------------------------------------------------ match: scrutinee shapes

/-- Name of the variant a `valKey` denotes. -/
def keyName (key : String × Nat × Option Val) : String :=
  if key.1 == "Option" then (if key.2.1 == 0 then "Some" else "None")
  else if key.1 == "Bool" then (if key.2.1 == 0 then "True" else "False")
  else "Unit"

/-- An enum value of the fragment together with the shape of its static type. -/
def ScrutOK (sv : Val) (Ts : Ty) : Prop :=
  match sv with
  | .bool _ => ∃ k, Ts = .user k "Bool" []
  | .unit => ∃ k, Ts = .user k "Unit" []
  | .none => ∃ k a, Ts = .user k "Option" [a]
  | .some pv => ∃ k a, Ts = .user k "Option" [a] ∧ hasTy pv a = true ∧ gi a = true
  | _ => False

/-- A well-typed scrutinee is an enum value, or its type is a non-enum named type. -/
theorem scrut_cases (sv : Val) (Ts : Ty) (hv : hasTy sv Ts = true) (hg : gi Ts = true)
    (hnt : Ts.isTuple = false) :
    ScrutOK sv Ts ∨ ∃ k n args, Ts = .user k n args ∧ enumVariants n = none := by
  cases Ts <;> (try simp [gi] at hg) <;> (try simp [Ty.isTuple] at hnt)
  rename_i k n args
  cases args with
  | nil =>
    simp [gi, goodName0] at hg
    cases sv <;> simp [hasTy, isNamed] at hv
    all_goals (subst hv)
    · exact Or.inr ⟨k, _, _, rfl, by simp [enumVariants]⟩
    · exact Or.inr ⟨k, _, _, rfl, by simp [enumVariants]⟩
    · exact Or.inl ⟨k, rfl⟩
    · exact Or.inl ⟨k, rfl⟩
    · simp at hg
  | cons a rest =>
    cases rest with
    | nil =>
      simp [gi] at hg
      cases sv <;> simp [hasTy, isNamed] at hv
      · subst hv; simp at hg
      · subst hv; simp at hg
      · subst hv; simp at hg
      · subst hv; simp at hg
      · subst hv; exact Or.inl ⟨k, a, rfl⟩
      · obtain ⟨h1, h2⟩ := hv; subst h1; exact Or.inl ⟨k, a, rfl, h2, hg.2⟩
      · obtain ⟨h1, h2⟩ := hv; subst h1; exact Or.inr ⟨k, _, _, rfl, by simp [enumVariants]⟩
    | cons b rest => simp [gi] at hg

-- ------------------------------------------------------------------ match: exhaustiveness

theorem exhaustLoop_covers : ∀ (names : List String) (rem : List String) (d : List Diag) (rem' : List String)
    (u' : Bool), exhaustLoop rem false names = (d, rem', u') → (u' = true ∨ rem' = []) →
    ∀ w ∈ rem, w ∈ names ∨ "_" ∈ names
  | [], rem, d, rem', u', h, hu, w, hw => by
    simp [exhaustLoop] at h
    obtain ⟨_, h2, h3⟩ := h
    subst h2; subst h3
    simp at hu
    subst hu
    simp at hw
  | v :: rest, rem, d, rem', u', h, hu, w, hw => by
    simp only [exhaustLoop] at h
    simp at h
    by_cases hv : v = "_"
    · subst hv; simp
    · simp [hv] at h
      by_cases hc : v ∈ rem
      · simp [hc] at h
        by_cases hwv : w = v
        · subst hwv; simp
        · have hw' : w ∈ rem.filter (fun x => x != v) := by simp [hw, hwv]
          rcases exhaustLoop_covers rest _ d rem' u' h hu w hw' with h1 | h1
          · exact Or.inl (by simp [h1])
          · exact Or.inr (by simp [h1])
      · simp [hc] at h
        obtain ⟨d0, rem0, u0, h0⟩ := triple_exists (exhaustLoop rem false rest)
        rw [h0] at h
        simp at h
        obtain ⟨_, h2, h3⟩ := h
        subst h2; subst h3
        rcases exhaustLoop_covers rest rem d0 rem0 u0 h0 hu w hw with h1 | h1
        · exact Or.inl (by simp [h1])
        · exact Or.inr (by simp [h1])

/-- `check_match_exhaustive` reports nothing ⇒ every variant of the enum is named by some case, or
there is a `_` case. -/
theorem exhaustive_covers (sn : String) (names : List String) (variants : List (String × Bool))
    (hv : enumVariants sn = some variants) (h : exhaustive sn names = []) :
    ∀ w ∈ variants.map (·.1), w ∈ names ∨ "_" ∈ names := by
  unfold exhaustive at h
  rw [hv] at h
  simp only at h
  split at h
  · rename_i he
    simp at he
    subst he
    simp
  · obtain ⟨d0, rem0, u0, h0⟩ := triple_exists (exhaustLoop (variants.map (·.1)) false names)
    rw [h0] at h
    simp only at h
    apply exhaustLoop_covers names _ d0 rem0 u0 h0
    cases u0 with
    | true => exact Or.inl rfl
    | false =>
      simp at h
      split at h
      · rename_i hr; exact Or.inr hr
      · simp at h

theorem caseNames_mem : ∀ (cs : List Case) (w : String), w ∈ caseNames cs →
    ∃ p b, Case.mk w p b ∈ cs
  | [], w, h => by simp [caseNames] at h
  | .mk v p b :: rest, w, h => by
    simp [caseNames] at h
    rcases h with rfl | h
    · exact ⟨p, b, by simp⟩
    · obtain ⟨p', b', hm⟩ := caseNames_mem rest w h
      exact ⟨p', b', by simp [hm]⟩

-- ------------------------------------------------------------------ match: patterns

/-- The pattern diagnostics of every case are empty when `tcCases` reports nothing. -/
theorem tcCases_pats (P : Program) (ret : Ty) (mode : Option Ty) (Ts0 : Ty) : ∀ (cs : List Case)
    (Γ : Blocks Ty) (Ts : List Ty) (Γ' : Blocks Ty), tcCases P ret mode Ts0 Γ cs = (Ts, Γ', []) →
    ∀ v p b, Case.mk v p b ∈ cs → patternDiags P (tyName Ts0) v p.isSome = []
  | [], Γ, Ts, Γ', h, v, p, b, hm => by simp at hm
  | .mk v0 p0 b0 :: rest, Γ, Ts, Γ', h, v, p, b, hm => by
    cases p0 with
    | none =>
      simp only [tcCases] at h
      destruct3 h1 : tcSeq P ret mode ([] :: [] :: Γ) b0 with T1 Γ1 d1 at h
      destruct3 h2 : tcCases P ret mode Ts0 Γ1.tail.tail rest with T2 Γ2 d2 at h
      simp only [Prod.mk.injEq] at h
      obtain ⟨_, _, hd⟩ := h
      obtain ⟨hd12, hd2⟩ := List.append_eq_nil_iff.mp hd
      obtain ⟨_, hdp⟩ := List.append_eq_nil_iff.mp hd12
      subst hd2
      simp at hm
      rcases hm with ⟨rfl, rfl, rfl⟩ | hm
      · exact hdp
      · exact tcCases_pats P ret mode Ts0 rest _ T2 Γ2 h2 v p b hm
    | some x =>
      simp only [tcCases] at h
      destruct3 h1 : tcSeq P ret mode ([] :: setB ([] :: Γ) x (payloadTy Ts0 v0)) b0 with T1 Γ1 d1 at h
      destruct3 h2 : tcCases P ret mode Ts0 Γ1.tail.tail rest with T2 Γ2 d2 at h
      simp only [Prod.mk.injEq] at h
      obtain ⟨_, _, hd⟩ := h
      obtain ⟨hd12, hd2⟩ := List.append_eq_nil_iff.mp hd
      obtain ⟨_, hdp⟩ := List.append_eq_nil_iff.mp hd12
      subst hd2
      simp at hm
      rcases hm with ⟨rfl, rfl, rfl⟩ | hm
      · exact hdp
      · exact tcCases_pats P ret mode Ts0 rest _ T2 Γ2 h2 v p b hm

theorem variantOf_enum (P : Program) (v en : String) (ctor : Bool)
    (h : variantOf P v = some (some (en, ctor))) :
    findFun P v = none ∧
    ((v = "Some" ∧ en = "Option" ∧ ctor = true) ∨ (v = "None" ∧ en = "Option" ∧ ctor = false) ∨
     ((v = "True" ∨ v = "False") ∧ en = "Bool" ∧ ctor = false) ∨ (v = "Unit" ∧ en = "Unit" ∧ ctor = false) ∨
     ((v = "Ok" ∨ v = "Err") ∧ en = "Result" ∧ ctor = true)) := by
  unfold variantOf at h
  split at h
  · simp at h
  · rename_i hf
    refine ⟨hf, ?_⟩
    repeat' split at h
    all_goals simp at h
    all_goals (obtain ⟨h1, h2⟩ := h; subst h1; subst h2)
    all_goals (rename_i hc; simp at hc; simp [hc])

/-- A case that passes the pattern checks against a non-enum named type is a `_` case. -/
theorem pat_nonenum (P : Program) (n v : String) (hp : Bool) (hn : enumVariants n = none)
    (h : patternDiags P (some n) v hp = []) : v = "_" := by
  by_cases hv : v = "_"
  · exact hv
  · unfold patternDiags at h
    simp [hv] at h
    split at h
    · simp at h
    · simp at h
    · rename_i en ctor hvo
      have hnv : n ≠ "NoValue" := by
        intro hh; subst hh; simp [enumVariants] at hn
      simp [hnv] at h
      obtain ⟨_, hen⟩ := h
      subst hen
      rcases (variantOf_enum P v en ctor hvo).2 with h1 | h1 | h1 | h1 | h1
      all_goals (obtain ⟨_, he, _⟩ := h1; subst he; simp [enumVariants] at hn)

theorem allUnderscore_of (P : Program) (n : String) (hn : enumVariants n = none) : ∀ (cs : List Case),
    (∀ v p b, Case.mk v p b ∈ cs → patternDiags P (some n) v p.isSome = []) → allUnderscore cs = true
  | [], h => by simp [allUnderscore]
  | .mk v p b :: rest, h => by
    simp [allUnderscore]
    exact ⟨pat_nonenum P n v _ hn (h v p b (by simp)),
      allUnderscore_of P n hn rest (fun v' p' b' hm => h v' p' b' (by simp [hm]))⟩

/-- A non-`_` case that passes the pattern checks against `Option` / `Bool` / `Unit`. -/
theorem pat_enum (P : Program) (sn v : String) (hp : Bool) (hv : v ≠ "_")
    (hsn : sn = "Option" ∨ sn = "Bool" ∨ sn = "Unit")
    (h : patternDiags P (some sn) v hp = []) :
    (sn = "Option" ∧ ((v = "Some" ∧ hp = true) ∨ (v = "None" ∧ hp = false))) ∨
    (sn = "Bool" ∧ (v = "True" ∨ v = "False") ∧ hp = false) ∨
    (sn = "Unit" ∧ v = "Unit" ∧ hp = false) := by
  unfold patternDiags at h
  simp [hv] at h
  split at h
  · simp at h
  · simp at h
  · rename_i en ctor hvo
    have hnv : sn ≠ "NoValue" := by
      rcases hsn with rfl | rfl | rfl <;> simp
    simp [hnv] at h
    obtain ⟨hc, hen⟩ := h
    subst hen; subst hc
    rcases (variantOf_enum P v en hp hvo).2 with h1 | h1 | h1 | h1 | h1
    · obtain ⟨a, b, c⟩ := h1; subst a; subst b; subst c; simp
    · obtain ⟨a, b, c⟩ := h1; subst a; subst b; subst c; simp
    · obtain ⟨a, b, c⟩ := h1; subst b; subst c; simp [a]
    · obtain ⟨a, b, c⟩ := h1; subst a; subst b; subst c; simp
    · obtain ⟨a, b, c⟩ := h1; subst b; rcases hsn with h | h | h <;> simp at h



theorem ldL_cons (il : Bool) (e : TExpr) (rest : List TExpr) :
    loopDiagsL il (e :: rest) = [] ↔ loopDiags il e = [] ∧ loopDiagsL il rest = [] := by
  simp [loopDiagsL]

/-- Leaving a scope whose innermost block is arbitrary. -/
theorem R_leave' (ret T : Ty) (g : List (String × Ty)) (Γ Γ2 : Blocks Ty) (il : Bool) (r : Res)
    (h : R ret T (g :: Γ) Γ2 il r) (hΓ : Γ2.tail = Γ) :
    R ret T Γ Γ il (leaveBlock true r) := by
  cases r <;> simp [R, leaveBlock] at h ⊢
  case val v ρ => exact ⟨h.1, by rw [← hΓ]; exact envOK_tail _ _ h.2⟩
  case brk ρ =>
    obtain ⟨h0, Γb, h1, h2⟩ := h
    exact ⟨h0, Γ, by rw [← h2]; exact envOK_tail _ _ h1, rfl⟩
  case cont ρ =>
    obtain ⟨h0, Γb, h1, h2⟩ := h
    exact ⟨h0, Γ, by rw [← h2]; exact envOK_tail _ _ h1, rfl⟩
  all_goals exact h

/-- Outcomes of `evalCases`: the value has the expected type (checked position) or the type of
one of the case bodies (inferred position). -/
def RC (ret : Ty) (mode : Option Ty) (Ts : List Ty) (Γ : Blocks Ty) (il : Bool) : Res → Prop
  | .val v ρ' => (match mode with
      | some E => hasTy v E = true
      | none => ∃ t ∈ Ts, hasTy v t = true) ∧ envOK Γ ρ'
  | .ret v => hasTy v ret = true
  | .brk ρ' => il = true ∧ ∃ Γb, envOK Γb ρ' ∧ Γb.tail = Γ.tail
  | .cont ρ' => il = true ∧ ∃ Γb, envOK Γb ρ' ∧ Γb.tail = Γ.tail
  | .err e => e.isTypeError = false
  | .timeout => True

theorem RC_of_R (ret T : Ty) (mode : Option Ty) (Ts : List Ty) (Γ : Blocks Ty) (il : Bool) (r : Res)
    (h : R ret (resTy mode T) Γ Γ il r) (hT : T ∈ Ts) : RC ret mode Ts Γ il r := by
  cases r <;> simp [R, RC] at h ⊢ <;> try exact h
  case val v ρ =>
    refine ⟨?_, h.2⟩
    cases mode with
    | none => exact ⟨T, hT, h.1⟩
    | some E => exact h.1

theorem RC_weaken (ret T : Ty) (mode : Option Ty) (Ts : List Ty) (Γ : Blocks Ty) (il : Bool) (r : Res)
    (h : RC ret mode Ts Γ il r) : RC ret mode (T :: Ts) Γ il r := by
  cases r <;> simp [RC] at h ⊢ <;> try exact h
  case val v ρ =>
    refine ⟨?_, h.2⟩
    cases mode with
    | none => obtain ⟨t, ht, hv⟩ := h.1; exact Or.inr ⟨t, ht, hv⟩
    | some E => exact h.1

theorem matchMode_some (exp : Option Ty) (E : Ty) (h : matchMode exp = some E) : exp = some E := by
  unfold matchMode at h
  split at h <;> simp at h
  subst h; rfl

theorem scrut_key (sv : Val) (Ts : Ty) (h : ScrutOK sv Ts) :
    ∃ key, valKey sv = some key ∧ ∃ sn variants, tyName Ts = some sn ∧ enumVariants sn = some variants ∧
      keyName key ∈ variants.map (·.1) ∧ key.1 = sn ∧ (sn = "Option" ∨ sn = "Bool" ∨ sn = "Unit") := by
  cases sv <;> simp [ScrutOK] at h
  case bool b =>
    obtain ⟨k, rfl⟩ := h
    refine ⟨_, rfl, "Bool", [("True", false), ("False", false)], rfl, by simp [enumVariants], ?_, rfl, by simp⟩
    cases b <;> simp [keyName]
  case unit =>
    obtain ⟨k, rfl⟩ := h
    exact ⟨_, rfl, "Unit", [("Unit", false)], rfl, by simp [enumVariants], by simp [keyName], rfl, by simp⟩
  case none =>
    obtain ⟨k, a, rfl⟩ := h
    exact ⟨_, rfl, "Option", [("Some", true), ("None", false)], rfl, by simp [enumVariants], by simp [keyName], rfl, by simp⟩
  case some pv =>
    obtain ⟨k, a, rfl, _, _⟩ := h
    exact ⟨_, rfl, "Option", [("Some", true), ("None", false)], rfl, by simp [enumVariants], by simp [keyName], rfl, by simp⟩

/-- How a non-`_` case that passed the pattern checks relates to the scrutinee's variant. -/
theorem pat_key (P : Program) (sv : Val) (Ts : Ty) (key : String × Nat × Option Val) (v : String) (hp : Bool)
    (hs : ScrutOK sv Ts) (hk : valKey sv = some key) (hv : v ≠ "_")
    (hd : patternDiags P (tyName Ts) v hp = []) :
    ∃ idx, patKey v = some (key.1, idx) ∧ (idx = key.2.1 ↔ v = keyName key) ∧
      (v = keyName key → (hp = true ↔ key.2.2.isSome = true)) ∧
      (∀ pv, key.2.2 = some pv → v = keyName key →
        hasTy pv (payloadTy Ts v) = true ∧ gi (payloadTy Ts v) = true) := by
  cases sv <;> simp [ScrutOK] at hs
  case bool b =>
    obtain ⟨k, rfl⟩ := hs
    simp [valKey] at hk
    subst hk
    have := pat_enum P "Bool" v hp hv (by simp) (by simpa [tyName] using hd)
    simp at this
    obtain ⟨hv', hp'⟩ := this
    subst hp'
    rcases hv' with rfl | rfl <;> cases b <;> simp [patKey, keyName]
  case unit =>
    obtain ⟨k, rfl⟩ := hs
    simp [valKey] at hk
    subst hk
    have := pat_enum P "Unit" v hp hv (by simp) (by simpa [tyName] using hd)
    simp at this
    obtain ⟨rfl, rfl⟩ := this
    simp [patKey, keyName]
  case none =>
    obtain ⟨k, a, rfl⟩ := hs
    simp [valKey] at hk
    subst hk
    have := pat_enum P "Option" v hp hv (by simp) (by simpa [tyName] using hd)
    simp at this
    rcases this with ⟨rfl, rfl⟩ | ⟨rfl, rfl⟩ <;> simp [patKey, keyName]
  case some pv =>
    obtain ⟨k, a, rfl, hpv, ga⟩ := hs
    simp [valKey] at hk
    subst hk
    have := pat_enum P "Option" v hp hv (by simp) (by simpa [tyName] using hd)
    simp at this
    rcases this with ⟨rfl, rfl⟩ | ⟨rfl, rfl⟩ <;>
      simp [patKey, keyName, payloadTy, Ty.isNoValue, enumVariants, hpv, ga]



/-- What `check P = []` gives for every function, plus membership in the fragment. -/
def ProgOK (P : Program) (D : Nat) : Prop :=
  ∀ f ∈ P.funs, okL P D f.body = true ∧
    (tcSeq P f.ret.toTy (some f.ret.toTy) ([] :: [paramBlock f, []]) f.body).2.2 = [] ∧
    loopDiagsL false f.body = []

/-- Soundness of M8 w.r.t. the typed reference semantics on the fragment `okE` (see Props/C16). -/
theorem sound (P : Program) (D : Nat) (hP : ProgOK P D) : ∀ n,
    (∀ d e ret exp Γ ρ T Γ' il, okS P d e = true → tcExpr P ret exp Γ e = (T, Γ', []) →
      loopDiags il e = [] → (∀ E, exp = some E → good E = true) → good ret = true →
      envOK Γ ρ → GoodEnv Γ → R ret (resTy exp T) Γ Γ' il (eval P n ρ e)) ∧
    (∀ d es ret exp Γ ρ T Γ' il, okL P d es = true → tcSeq P ret exp Γ es = (T, Γ', []) →
      loopDiagsL il es = [] → (∀ E, exp = some E → good E = true) → good ret = true →
      envOK Γ ρ → GoodEnv Γ → R ret (resTy exp T) Γ Γ' il (evalSeq P n ρ es)) ∧
    (∀ d es ret exp Γ ρ Ts Γ' il, okA P d es = true → tcItems P ret exp Γ es = (Ts, Γ', []) →
      loopDiagsL il es = [] → (∀ E, exp = some E → good E = true) → good ret = true →
      envOK Γ ρ → GoodEnv Γ → RI ret exp Ts Γ il (evalItems P n ρ es)) ∧
    (∀ f vs ret Γ ρ tys T Γ' il, callTy P Γ f tys = (T, Γ', []) → hasTyZip vs tys = true →
      envOK Γ ρ → R ret T Γ Γ il (callFn P n ρ f vs)) ∧
    (∀ d c body ret Γ ρ Tc Tb Γb il, okE P d c = true → okL P d body = true →
      tcExpr P ret (some tBool) Γ c = (Tc, Γ, []) → tcSeq P ret none ([] :: Γ) body = (Tb, Γb, []) →
      loopDiags il c = [] → loopDiagsL true body = [] → good ret = true → envOK Γ ρ → GoodEnv Γ →
      R ret tUnit Γ Γ il (evalWhile P n ρ c body)) ∧
    (∀ d x items body ret Γ ρ a Tb Γb il, okL P d body = true →
      tcSeq P ret none ([] :: setB ([] :: Γ) x a) body = (Tb, Γb, []) → loopDiagsL true body = [] →
      good ret = true → gi a = true → hasTyAll items a = true → envOK Γ ρ → GoodEnv Γ →
      R ret tUnit Γ Γ il (evalFor P n ρ x items body)) ∧
    (∀ d cs ret mode Ts0 Γ ρ Ts Γ' il sv key, okC P d cs = true →
      tcCases P ret mode Ts0 Γ cs = (Ts, Γ', []) → loopDiagsC il cs = [] →
      (∀ E, mode = some E → good E = true) → good ret = true → envOK Γ ρ → GoodEnv Γ →
      ScrutOK sv Ts0 → valKey sv = some key →
      (∃ v p b, Case.mk v p b ∈ cs ∧ (v = "_" ∨ v = keyName key)) →
      RC ret mode Ts Γ il (evalCases P n ρ key cs)) := by
  intro n
  induction n with
  | zero =>
    refine ⟨?_, ?_, ?_, ?_, ?_, ?_, ?_⟩
    · intros; simp [eval, R]
    · intros; simp [evalSeq, R]
    · intros; simp [evalItems, RI]
    · intros; simp [callFn, R]
    · intros; simp [evalWhile, R]
    · intros; simp [evalFor, R]
    · intros; simp [evalCases, RC]
  | succ n ih =>
    obtain ⟨ihE, ihL, ihA, ihF, ihW, ihFor, ihC⟩ := ih
    refine ⟨?_, ?_, ?_, ?_, ?_, ?_, ?_⟩
    · intro d e ret exp Γ ρ T Γ' il hs htc hld hexp hret henv hG
      have inv := tc_inv P d
      have gis := tc_gi P d
      cases e with
      | int v =>
        simp only [tcExpr] at htc
        simp only [eval]
        exact R_fin ret tInt T Γ Γ Γ' il _ exp [] (by simp [R, hasTy, isNamed, tInt, henv]) htc hexp
      | str v =>
        simp only [tcExpr] at htc
        simp only [eval]
        exact R_fin ret tStr T Γ Γ Γ' il _ exp [] (by simp [R, hasTy, isNamed, tStr, henv]) htc hexp
      | retUnit =>
        simp only [tcExpr] at htc
        obtain ⟨_, _, h3, _⟩ := fin_inv _ _ _ _ _ _ htc
        simp only [eval]
        simp [R]
        split at h3
        · rename_i hsub
          exact hasTy_sub .unit tUnit ret (by simp [hasTy, isNamed, tUnit]) hsub hret
        · simp at h3
      | brk =>
        simp [loopDiags] at hld
        simp only [eval]
        simp [R, hld]
        exact ⟨Γ, henv, rfl⟩
      | cont =>
        simp [loopDiags] at hld
        simp only [eval]
        simp [R, hld]
        exact ⟨Γ, henv, rfl⟩
      | var x =>
        simp only [okS] at hs
        cases d with
        | zero => simp [okE] at hs
        | succ d =>
        simp only [okE] at hs
        simp only [tcExpr] at htc
        destruct3 h1 : inferVar P Γ x with T1 Γ1 d1 at htc
        have hd := (fin_inv _ _ _ _ _ _ htc).2.2.1
        subst hd
        have e1 := inferVar_env P Γ Γ1 x T1 h1
        have e1' := e1.symm
        subst e1'
        refine R_fin ret T1 T Γ Γ Γ' il _ exp [] ?_ htc hexp
        have hl := lookupB_ok Γ ρ x henv
        unfold inferVar at h1
        cases hg : lookupB Γ x with
        | some T0 =>
          rw [hg] at h1
          simp at h1
          subst h1
          obtain ⟨v, hv1, hv2⟩ := hl.1 T0 hg
          simp [eval, hv1, R, hv2, henv]
        | none =>
          rw [hg] at h1
          simp only at h1
          have hρ := hl.2 hg
          simp at hs
          rcases hs with ⟨hvg, hff⟩ | hng
          · simp [isValueGlobal] at hvg
            rcases hvg with ((rfl | rfl) | rfl) | rfl
            all_goals
              simp [globalOf, hff, Global.ty] at h1
              subst h1
              simp [eval, hρ, globalVal, R, hasTy, isNamed, tOption, tBool, tUnit, henv]
          · simp [isGlobalName, reservedNames] at hng
            simp [globalOf, hng] at h1
      | paren e =>
        simp only [okS] at hs
        cases d with
        | zero => simp [okE] at hs
        | succ d =>
        simp only [okE] at hs
        simp [loopDiags] at hld
        simp only [tcExpr] at htc
        destruct3 h1 : tcExpr P ret none Γ e with T1 Γ1 d1 at htc
        have hd := (fin_inv _ _ _ _ _ _ htc).2.2.1
        subst hd
        simp only [eval]
        exact R_fin ret T1 T Γ Γ1 Γ' il _ exp [] (ihE d e ret none Γ ρ T1 Γ1 il (okS_of_okE P d e hs) h1 hld (by simp) hret henv hG) htc hexp
      | ret e =>
        simp only [okS] at hs
        cases d with
        | zero => simp [okE] at hs
        | succ d =>
        simp only [okE] at hs
        simp [loopDiags] at hld
        simp only [tcExpr] at htc
        destruct3 h1 : tcExpr P ret (some ret) Γ e with T1 Γ1 d1 at htc
        obtain ⟨_, hΓ', hd, _⟩ := fin_inv _ _ _ _ _ _ htc
        subst hd
        have ih1 := ihE d e ret (some ret) Γ ρ T1 Γ1 il (okS_of_okE P d e hs) h1 hld
          (by intro E hE; cases hE; exact hret) hret henv hG
        simp only [eval]
        cases hev : eval P n ρ e with
        | val v ρ1 => rw [hev] at ih1; simp [R, resTy] at ih1 ⊢; exact ih1.1
        | _ => rw [hev] at ih1; simp [R] at ih1 ⊢; try exact ih1
      | letE x hint e' =>
        simp only [okS] at hs
        simp [loopDiags] at hld
        simp only [tcExpr] at htc
        cases hint with
        | some hh =>
          simp only at htc
          destruct3 h1 : tcExpr P ret (some hh.toTy) Γ e' with T1 Γ1 d1 at htc
          have hd := (fin_inv _ _ _ _ _ _ htc).2.2.1
          subst hd
          have e1 := ((tc_inv P d).1 e' ret _ Γ T1 Γ1 hs h1).symm
          subst e1
          have hg := Hint.toTy_good hh
          have ih1 := ihE d e' ret (some hh.toTy) Γ ρ T1 Γ il (okS_of_okE P d e' hs) h1 hld
            (by intro E hE; cases hE; exact hg) hret henv hG
          refine R_fin ret tUnit T Γ _ Γ' il _ exp [] ?_ htc hexp
          simp only [eval]
          cases hev : eval P n ρ e' with
          | val v ρ1 =>
            rw [hev] at ih1
            simp [R, resTy] at ih1
            have hchk := hasTy_sub_typeOf v hh.toTy ih1.1
            simp [hchk, R, hasTy, isNamed, tUnit]
            exact setB_ok _ _ x _ v ih1.2 ih1.1
          | _ => rw [hev] at ih1; simp [R] at ih1 ⊢; try exact ih1
        | none =>
          simp only at htc
          destruct3 h1 : tcExpr P ret none Γ e' with T1 Γ1 d1 at htc
          have hd := (fin_inv _ _ _ _ _ _ htc).2.2.1
          subst hd
          have e1 := ((tc_inv P d).1 e' ret _ Γ T1 Γ1 hs h1).symm
          subst e1
          have ih1 := ihE d e' ret none Γ ρ T1 Γ il (okS_of_okE P d e' hs) h1 hld (by simp) hret henv hG
          refine R_fin ret tUnit T Γ _ Γ' il _ exp [] ?_ htc hexp
          simp only [eval]
          cases hev : eval P n ρ e' with
          | val v ρ1 =>
            rw [hev] at ih1
            simp [R, resTy] at ih1
            simp [R, hasTy, isNamed, tUnit]
            exact setB_ok _ _ x _ v ih1.2 ih1.1
          | _ => rw [hev] at ih1; simp [R] at ih1 ⊢; try exact ih1
      | binop op l r =>
        simp only [okS] at hs
        cases d with
        | zero => simp [okE] at hs
        | succ d =>
        simp only [okE] at hs
        simp at hs
        simp [loopDiags] at hld
        have inv := tc_inv P d
        simp only [tcExpr] at htc
        split at htc
        · rename_i hA
          destruct3 h1 : tcExpr P ret none Γ l with T1 Γ1 d1 at htc
          destruct3 h2 : tcExpr P ret none Γ1 r with T2 Γ2 d2 at htc
          obtain ⟨T3, d3, h3⟩ : ∃ a b, intBinopTy op T1 T2 = (a, b) := ⟨_, _, rfl⟩
          rw [h3] at htc
          simp only at htc
          have hd := (fin_inv _ _ _ _ _ _ htc).2.2.1
          simp at hd
          obtain ⟨hd1, hd2, hd3⟩ := hd
          subst hd1; subst hd2; subst hd3
          have e1 := (inv.1 l ret _ Γ T1 Γ1 hs.1 h1).symm
          subst e1
          have e2 := (inv.1 r ret _ Γ T2 Γ2 hs.2 h2).symm
          subst e2
          unfold intBinopTy at h3
          split at h3
          · simp at h3
          split at h3
          · simp at h3
          simp at h3
          obtain ⟨hT3, hsl, hsr⟩ := h3
          subst hT3
          refine R_fin ret tInt T Γ Γ Γ' il _ exp _ ?_ htc hexp
          exact binop_R P n ρ l r op ret tInt tInt Γ il
            (R_mono _ _ _ _ _ _ _ (ihE d l ret none Γ ρ T1 Γ il (okS_of_okE P d l hs.1) h1 hld.1 (by simp) hret henv hG)
              (fun v hv => hasTy_sub v T1 tInt hv hsl good_tInt))
            (fun ρ1 h => R_mono _ _ _ _ _ _ _ (ihE d r ret none Γ ρ1 T2 Γ il (okS_of_okE P d r hs.2) h2 hld.2 (by simp) hret h hG)
              (fun v hv => hasTy_sub v T2 tInt hv hsr good_tInt))
            (fun lv rv a b => hop_arith op hA lv rv a b)
        · split at htc
          · rename_i hA hB
            destruct3 h1 : tcExpr P ret none Γ l with T1 Γ1 d1 at htc
            destruct3 h2 : tcExpr P ret none Γ1 r with T2 Γ2 d2 at htc
            have hd := (fin_inv _ _ _ _ _ _ htc).2.2.1
            simp at hd
            obtain ⟨hd1, hd2⟩ := hd
            subst hd1; subst hd2
            have e1 := (inv.1 l ret _ Γ T1 Γ1 hs.1 h1).symm
            subst e1
            have e2 := (inv.1 r ret _ Γ T2 Γ2 hs.2 h2).symm
            subst e2
            have hop' : op = .eq ∨ op = .ne := by simpa using hB
            refine R_fin ret tBool T Γ Γ Γ' il _ exp _ ?_ htc hexp
            exact binop_R P n ρ l r op ret .any tBool Γ il
              (R_mono _ _ _ _ _ _ _ (ihE d l ret none Γ ρ T1 Γ il (okS_of_okE P d l hs.1) h1 hld.1 (by simp) hret henv hG)
                (fun v _ => hasTy_any v))
              (fun ρ1 h => R_mono _ _ _ _ _ _ _ (ihE d r ret none Γ ρ1 T2 Γ il (okS_of_okE P d r hs.2) h2 hld.2 (by simp) hret h hG)
                (fun v _ => hasTy_any v))
              (fun lv rv _ _ => hop_eq op hop' lv rv)
          · rename_i hA hB
            have key : ∀ opnd res, good opnd = true →
                (∀ lv rv, hasTy lv opnd = true → hasTy rv opnd = true →
                  (∀ v, binopVal op lv rv = .ok v → hasTy v res = true) ∧
                  (∀ e, binopVal op lv rv = .error e → e.isTypeError = false)) →
                (match tcExpr P ret (some opnd) Γ l with
                  | (_, Γ1, d1) => match tcExpr P ret (some opnd) Γ1 r with
                    | (_, Γ2, d2) => fin exp res Γ2 (d1 ++ d2)) = (T, Γ', []) →
                R ret (resTy exp T) Γ Γ' il (eval P (n + 1) ρ (.binop op l r)) := by
              intro opnd res gO hop htc'
              destruct3 h1 : tcExpr P ret (some opnd) Γ l with T1 Γ1 d1 at htc'
              destruct3 h2 : tcExpr P ret (some opnd) Γ1 r with T2 Γ2 d2 at htc'
              have hd := (fin_inv _ _ _ _ _ _ htc').2.2.1
              simp at hd
              obtain ⟨hd1, hd2⟩ := hd
              subst hd1; subst hd2
              have e1 := (inv.1 l ret _ Γ T1 Γ1 hs.1 h1).symm
              subst e1
              have e2 := (inv.1 r ret _ Γ T2 Γ2 hs.2 h2).symm
              subst e2
              have hE : ∀ E, some opnd = some E → good E = true := by
                intro E hE; cases hE; exact gO
              refine R_fin ret res T Γ Γ Γ' il _ exp _ ?_ htc' hexp
              exact binop_R P n ρ l r op ret opnd res Γ il
                (ihE d l ret (some opnd) Γ ρ T1 Γ il (okS_of_okE P d l hs.1) h1 hld.1 hE hret henv hG)
                (fun ρ1 h => ihE d r ret (some opnd) Γ ρ1 T2 Γ il (okS_of_okE P d r hs.2) h2 hld.2 hE hret h hG)
                hop
            cases op <;> simp [isIntArith] at hA hB
            all_goals (try simp only [] at htc)
            case lt => exact key tInt tBool good_tInt (fun lv rv a b => hop_cmp _ (by simp) lv rv a b) htc
            case le => exact key tInt tBool good_tInt (fun lv rv a b => hop_cmp _ (by simp) lv rv a b) htc
            case gt => exact key tInt tBool good_tInt (fun lv rv a b => hop_cmp _ (by simp) lv rv a b) htc
            case ge => exact key tInt tBool good_tInt (fun lv rv a b => hop_cmp _ (by simp) lv rv a b) htc
            case and => exact key tBool tBool good_tBool (fun lv rv a b => hop_bool _ (by simp) lv rv a b) htc
            case or => exact key tBool tBool good_tBool (fun lv rv a b => hop_bool _ (by simp) lv rv a b) htc
            case concat => exact key tStr tStr good_tStr (fun lv rv a b => hop_concat lv rv a b) htc
      | ifE c thn hasElse els =>
        simp only [okS] at hs
        cases d with
        | zero => simp [okE] at hs
        | succ d =>
        simp only [okE] at hs
        simp at hs
        obtain ⟨⟨hsc, hst⟩, hse⟩ := hs
        simp [loopDiags] at hld
        obtain ⟨hlc, hlt, hle⟩ := hld
        have inv := tc_inv P d
        have gis := tc_gi P d
        have blkΓ : ∀ es exp0 T0 Γ0, okL P d es = true → tcSeq P ret exp0 ([] :: Γ) es = (T0, Γ0, []) →
            Γ0.tail = Γ := by
          intro es exp0 T0 Γ0 hs0 h0
          obtain ⟨g', hg⟩ := inv.2.1 es ret exp0 [] Γ T0 Γ0 hs0 h0
          simp [hg]
        simp only [tcExpr] at htc
        destruct3 h1 : tcExpr P ret (some tBool) Γ c with T1 Γ1 d1 at htc
        -- the condition
        have cond : ∀ (hd1 : d1 = []) (Tr : Ty) (Γr : Blocks Ty),
            (∀ ρ1, envOK Γ ρ1 → R ret Tr Γ Γr il
              (if hasElse then leaveBlock true (evalSeq P n ([] :: ρ1) thn) else leaveBlock false (evalSeq P n ([] :: ρ1) thn))) →
            (∀ ρ1, envOK Γ ρ1 → R ret Tr Γ Γr il
              (if hasElse then leaveBlock true (evalSeq P n ([] :: ρ1) els) else .val .unit ρ1)) →
            R ret Tr Γ Γr il (eval P (n + 1) ρ (.ifE c thn hasElse els)) := by
          intro hd1 Tr Γr hthen helse
          subst hd1
          have e1 := (inv.1 c ret _ Γ T1 Γ1 hsc h1).symm
          subst e1
          have ihc := ihE d c ret (some tBool) Γ ρ T1 Γ il (okS_of_okE P d c hsc) h1 hlc
            (by intro E hE; cases hE; exact good_tBool) hret henv hG
          simp only [eval]
          cases hev : eval P n ρ c with
          | val v ρ1 =>
            rw [hev] at ihc
            simp [R, resTy] at ihc
            obtain ⟨b, rfl⟩ := canon_bool v ihc.1
            simp only []
            cases b with
            | true =>
              have := hthen ρ1 ihc.2
              cases hasElse <;> simpa using this
            | false =>
              have := helse ρ1 ihc.2
              cases hasElse <;> simpa using this
          | _ => rw [hev] at ihc; simp [R] at ihc ⊢; try exact ihc
        split at htc
        · rename_i hE
          subst hE
          split at htc
          · -- inferred: unify the branch types
            destruct3 h2 : tcSeq P ret none ([] :: Γ1) thn with T2 Γ2 d2 at htc
            destruct3 h3 : tcSeq P ret none ([] :: Γ2.tail) els with T3 Γ3 d3 at htc
            split at htc
            · rename_i U hU
              simp at htc
              obtain ⟨hT, hΓ', hd1, hd2, hd3⟩ := htc
              subst hd1; subst hd2; subst hd3
              have e1 := (inv.1 c ret _ Γ T1 Γ1 hsc h1).symm
              subst e1
              have e2 := blkΓ thn none T2 Γ2 hst h2
              rw [e2] at h3
              have e3 := blkΓ els none T3 Γ3 hse h3
              rw [e3] at hΓ'
              subst hΓ'; subst hT
              have g2 := gis.2.1 thn ret _ T2 Γ2 hst h2 (GoodEnv_push _ hG)
              have g3 := gis.2.1 els ret _ T3 Γ3 hse h3 (GoodEnv_push _ hG)
              simp only [resTy]
              apply cond rfl U Γ
              · intro ρ1 henv1
                have := R_leave ret T2 Γ Γ2 il true _ (ihL d thn ret none ([] :: Γ) ([] :: ρ1) T2 Γ2 il hst h2 hlt (by simp) hret
                  (envOK_push _ _ henv1) (GoodEnv_push _ hG)) e2
                simp only [resTy, if_true] at this ⊢
                exact R_mono _ _ _ _ _ _ _ this (fun v hv => (hasTy_unify v T2 T3 U hU g2 g3).1 hv)
              · intro ρ1 henv1
                have := R_leave ret T3 Γ Γ3 il true _ (ihL d els ret none ([] :: Γ) ([] :: ρ1) T3 Γ3 il hse h3 hle (by simp) hret
                  (envOK_push _ _ henv1) (GoodEnv_push _ hG)) e3
                simp only [resTy, if_true] at this ⊢
                exact R_mono _ _ _ _ _ _ _ this (fun v hv => (hasTy_unify v T2 T3 U hU g2 g3).2 hv)
            · simp at htc
          · rename_i E
            destruct3 h2 : tcSeq P ret (some E) ([] :: Γ1) thn with T2 Γ2 d2 at htc
            destruct3 h3 : tcSeq P ret (some E) ([] :: Γ2.tail) els with T3 Γ3 d3 at htc
            have hd := (fin_inv _ _ _ _ _ _ htc).2.2.1
            simp at hd
            obtain ⟨hd1, hd2, hd3⟩ := hd
            subst hd1; subst hd2; subst hd3
            have e1 := (inv.1 c ret _ Γ T1 Γ1 hsc h1).symm
            subst e1
            have e2 := blkΓ thn _ T2 Γ2 hst h2
            rw [e2] at h3
            have e3 := blkΓ els _ T3 Γ3 hse h3
            rw [e3] at htc
            have gE := hexp E rfl
            have hE' : ∀ E', some E = some E' → good E' = true := by
              intro E' h; cases h; exact gE
            refine R_fin ret E T Γ Γ Γ' il _ (some E) _ ?_ htc hexp
            apply cond rfl E Γ
            · intro ρ1 henv1
              have := R_leave ret _ Γ Γ2 il true _ (ihL d thn ret (some E) ([] :: Γ) ([] :: ρ1) T2 Γ2 il hst h2 hlt hE' hret
                (envOK_push _ _ henv1) (GoodEnv_push _ hG)) e2
              simpa [resTy] using this
            · intro ρ1 henv1
              have := R_leave ret _ Γ Γ3 il true _ (ihL d els ret (some E) ([] :: Γ) ([] :: ρ1) T3 Γ3 il hse h3 hle hE' hret
                (envOK_push _ _ henv1) (GoodEnv_push _ hG)) e3
              simpa [resTy] using this
        · rename_i hE
          simp at hE
          subst hE
          destruct3 h2 : tcSeq P ret none ([] :: Γ1) thn with T2 Γ2 d2 at htc
          have hd := (fin_inv _ _ _ _ _ _ htc).2.2.1
          simp at hd
          obtain ⟨hd1, hd2⟩ := hd
          subst hd1; subst hd2
          have e1 := (inv.1 c ret _ Γ T1 Γ1 hsc h1).symm
          subst e1
          have e2 := blkΓ thn _ T2 Γ2 hst h2
          rw [e2] at htc
          refine R_fin ret tUnit T Γ Γ Γ' il _ exp _ ?_ htc hexp
          apply cond rfl tUnit Γ
          · intro ρ1 henv1
            have := R_leave ret _ Γ Γ2 il false _ (ihL d thn ret none ([] :: Γ) ([] :: ρ1) T2 Γ2 il hst h2 hlt (by simp) hret
              (envOK_push _ _ henv1) (GoodEnv_push _ hG)) e2
            simpa using this
          · intro ρ1 henv1
            simp [R, hasTy, isNamed, tUnit, henv1]
      | tuple items =>
        simp only [okS] at hs
        cases d with
        | zero => simp [okE] at hs
        | succ d =>
        simp only [okE] at hs
        simp [loopDiags] at hld
        simp only [tcExpr] at htc
        destruct3 h1 : tcItems P ret none Γ items with Ts Γ1 d1 at htc
        have hd := (fin_inv _ _ _ _ _ _ htc).2.2.1
        subst hd
        have e1 := ((tc_inv P d).2.2.1 items ret _ Γ Ts Γ1 hs h1).symm
        subst e1
        have ih1 := ihA d items ret none Γ ρ Ts Γ il hs h1 hld (by simp) hret henv hG
        refine R_fin ret (.tuple Ts) T Γ Γ Γ' il _ exp [] ?_ htc hexp
        simp only [eval]
        cases hev : evalItems P n ρ items with
        | vals vs ρ1 => rw [hev] at ih1; simp [RI] at ih1; simp [R, hasTy, ih1.1, ih1.2]
        | _ => rw [hev] at ih1; simp [RI] at ih1; simp [R]; try exact ih1
      | list items =>
        simp only [okS] at hs
        cases d with
        | zero => simp [okE] at hs
        | succ d =>
        simp only [okE] at hs
        simp [loopDiags] at hld
        simp only [tcExpr] at htc
        split at htc
        · rename_i a ha
          have hexpE := listExpected_some exp a ha
          subst hexpE
          have ga := good_list_arg _ a (hexp _ rfl)
          destruct3 h1 : tcItems P ret (some a) Γ items with Ts Γ1 d1 at htc
          obtain ⟨_, hΓ', hd, _⟩ := fin_inv _ _ _ _ _ _ htc
          subst hd
          have e1 := ((tc_inv P d).2.2.1 items ret _ Γ Ts Γ1 hs h1).symm
          subst e1
          have hΓ'' := hΓ'.symm
          subst hΓ''
          have ih1 := ihA d items ret (some a) Γ ρ Ts Γ il hs h1 hld
            (by intro E hE; cases hE; exact ga) hret henv hG
          simp only [eval, resTy]
          cases hev : evalItems P n ρ items with
          | vals vs ρ1 => rw [hev] at ih1; simp [RI] at ih1; simp [R, hasTy, ih1.1, ih1.2]
          | _ => rw [hev] at ih1; simp [RI] at ih1; simp [R]; try exact ih1
        · destruct3 h1 : tcItems P ret none Γ items with Ts Γ1 d1 at htc
          split at htc
          · rename_i U hU
            have hd := (fin_inv _ _ _ _ _ _ htc).2.2.1
            subst hd
            have e1 := ((tc_inv P d).2.2.1 items ret _ Γ Ts Γ1 hs h1).symm
            subst e1
            have ih1 := ihA d items ret none Γ ρ Ts Γ il hs h1 hld (by simp) hret henv hG
            have gT := (tc_gi P d).2.2.1 items ret Γ Ts Γ hs h1 hG
            refine R_fin ret (tList U) T Γ Γ Γ' il _ exp [] ?_ htc hexp
            simp only [eval]
            cases hev : evalItems P n ρ items with
            | vals vs ρ1 =>
              rw [hev] at ih1
              simp [RI] at ih1
              have hall := hasTyAll_of_zip U vs Ts ih1.1
                (fun t ht v hv => (hasTy_unifyAllFrom v Ts Ty.noValue U 0 hU gi_noValue gT).2 t ht hv)
              simp [R, hasTy, tList, hall, ih1.2]
            | _ => rw [hev] at ih1; simp [RI] at ih1; simp [R]; try exact ih1
          · have hd := (fin_inv _ _ _ _ _ _ htc).2.2.1
            simp at hd
      | call f args =>
        simp only [okS] at hs
        cases d with
        | zero => simp [okE] at hs
        | succ d =>
        simp only [okE] at hs
        simp [loopDiags] at hld
        simp only [tcExpr] at htc
        destruct3 h1 : tcItems P ret none Γ args with Ts Γ1 d1 at htc
        destruct3 h2 : callTy P Γ1 f Ts with T2 Γ2 d2 at htc
        have hd := (fin_inv _ _ _ _ _ _ htc).2.2.1
        simp at hd
        obtain ⟨hd1, hd2⟩ := hd
        subst hd1; subst hd2
        have e1 := ((tc_inv P d).2.2.1 args ret _ Γ Ts Γ1 hs h1).symm
        subst e1
        have e2 := (callTy_env P Γ Γ2 f Ts T2 h2).symm
        subst e2
        have ih1 := ihA d args ret none Γ ρ Ts Γ il hs h1 hld (by simp) hret henv hG
        refine R_fin ret T2 T Γ Γ Γ' il _ exp [] ?_ htc hexp
        simp only [eval]
        have hb := callTy_bound P Γ Γ f Ts T2 h2
        have hl := lookupB_ok Γ ρ f henv
        have hcond : ((lookupB ρ f).isNone && (globalOf P f).isNone) = false := by
          cases hg : lookupB Γ f with
          | some T0 => obtain ⟨v, hv, _⟩ := hl.1 T0 hg; simp [hv]
          | none =>
            cases hgl : globalOf P f with
            | some g => simp
            | none => exact absurd ⟨hg, hgl⟩ hb
        simp only [hcond]
        cases hev : evalItems P n ρ args with
        | vals vs ρ1 =>
          rw [hev] at ih1
          simp [RI] at ih1
          simp
          exact ihF f vs ret Γ ρ1 Ts T2 Γ il h2 ih1.1 ih1.2
        | _ => rw [hev] at ih1; simp [RI] at ih1; simp [R]; try exact ih1
      | assign x e =>
        simp only [okS] at hs
        cases d with
        | zero => simp [okE] at hs
        | succ d =>
        simp only [okE] at hs
        simp [loopDiags] at hld
        simp only [tcExpr] at htc
        destruct3 h1 : varForAssign P Γ x with T1 Γ1 d1 at htc
        destruct3 h2 : tcExpr P ret (some T1) Γ1 e with T2 Γ2 d2 at htc
        have hd := (fin_inv _ _ _ _ _ _ htc).2.2.1
        simp at hd
        obtain ⟨hd1, hd2⟩ := hd
        subst hd1; subst hd2
        obtain ⟨e1, hlk⟩ := varForAssign_env P Γ Γ1 x T1 h1
        subst e1
        have e2 := ((tc_inv P d).1 e ret _ Γ1 T2 Γ2 hs h2).symm
        subst e2
        have gT1 := gi_good T1 (lookupB_gi Γ1 x T1 hG hlk)
        have ih1 := ihE d e ret (some T1) Γ1 ρ T2 Γ1 il (okS_of_okE P d e hs) h2 hld
          (by intro E hE; cases hE; exact gT1) hret henv hG
        refine R_fin ret tUnit T Γ1 Γ1 Γ' il _ exp _ ?_ htc hexp
        simp only [eval]
        cases hev : eval P n ρ e with
        | val v ρ1 =>
          rw [hev] at ih1
          simp [R, resTy] at ih1
          obtain ⟨w, hw, _⟩ := (lookupB_ok Γ1 ρ1 x ih1.2).1 T1 hlk
          simp [hw, R, hasTy, isNamed, tUnit]
          exact assignB_ok Γ1 ρ1 x T1 v ih1.2 hlk ih1.1
        | _ => rw [hev] at ih1; simp [R] at ih1 ⊢; try exact ih1
      | update isAdd x e =>
        simp only [okS] at hs
        cases d with
        | zero => simp [okE] at hs
        | succ d =>
        simp only [okE] at hs
        simp [loopDiags] at hld
        simp only [tcExpr] at htc
        destruct3 h1 : varForAssign P Γ x with T1 Γ1 d1 at htc
        destruct3 h2 : tcExpr P ret (some tInt) Γ1 e with T2 Γ2 d2 at htc
        have hd := (fin_inv _ _ _ _ _ _ htc).2.2.1
        simp at hd
        obtain ⟨hd1, hsubI, hd2⟩ := hd
        subst hd1; subst hd2
        obtain ⟨e1, hlk⟩ := varForAssign_env P Γ Γ1 x T1 h1
        subst e1
        have e2 := ((tc_inv P d).1 e ret _ Γ1 T2 Γ2 hs h2).symm
        subst e2
        have ih1 := ihE d e ret (some tInt) Γ1 ρ T2 Γ1 il (okS_of_okE P d e hs) h2 hld
          (by intro E hE; cases hE; exact good_tInt) hret henv hG
        refine R_fin ret tUnit T Γ1 Γ1 Γ' il _ exp _ ?_ htc hexp
        simp only [eval]
        cases hev : eval P n ρ e with
        | val v ρ1 =>
          rw [hev] at ih1
          simp [R, resTy] at ih1
          obtain ⟨dv, rfl⟩ := canon_int v ih1.1
          obtain ⟨w, hw, hwt⟩ := (lookupB_ok Γ1 ρ1 x ih1.2).1 T1 hlk
          obtain ⟨cur, rfl⟩ := canon_int w (hasTy_sub w T1 tInt hwt hsubI good_tInt)
          simp [hw, R, hasTy, isNamed, tUnit]
          exact assignB_ok Γ1 ρ1 x T1 _ ih1.2 hlk (by simpa [hasTy] using hwt)
        | _ => rw [hev] at ih1; simp [R] at ih1 ⊢; try exact ih1
      | whileE c body =>
        simp only [okS] at hs
        cases d with
        | zero => simp [okE] at hs
        | succ d =>
        simp only [okE] at hs
        simp at hs
        simp [loopDiags] at hld
        simp only [tcExpr] at htc
        destruct3 h1 : tcExpr P ret (some tBool) Γ c with T1 Γ1 d1 at htc
        destruct3 h2 : tcSeq P ret none ([] :: Γ1) body with T2 Γ2 d2 at htc
        have hd := (fin_inv _ _ _ _ _ _ htc).2.2.1
        simp at hd
        obtain ⟨hd1, hd2⟩ := hd
        subst hd1; subst hd2
        have e1 := ((tc_inv P d).1 c ret _ Γ T1 Γ1 hs.1 h1).symm
        subst e1
        have e2 : Γ2.tail = Γ := by
          obtain ⟨g', hg⟩ := (tc_inv P d).2.1 body ret none [] Γ T2 Γ2 hs.2 h2
          simp [hg]
        rw [e2] at htc
        refine R_fin ret tUnit T Γ Γ Γ' il _ exp _ ?_ htc hexp
        simp only [eval]
        exact ihW d c body ret Γ ρ T1 T2 Γ2 il hs.1 hs.2 h1 h2 hld.1 hld.2 hret henv hG
      | forE x e body =>
        simp only [okS] at hs
        cases d with
        | zero => simp [okE] at hs
        | succ d =>
        simp only [okE] at hs
        simp at hs
        simp [loopDiags] at hld
        simp only [tcExpr] at htc
        destruct3 h1 : tcExpr P ret (some (tList .any)) Γ e with T1 Γ1 d1 at htc
        destruct3 h2 : tcSeq P ret none ([] :: setB ([] :: Γ1) x (forElemTy T1)) body with T2 Γ2 d2 at htc
        have hd := (fin_inv _ _ _ _ _ _ htc).2.2.1
        simp at hd
        obtain ⟨hd1, hd2⟩ := hd
        subst hd1; subst hd2
        have e1 := ((tc_inv P d).1 e ret _ Γ T1 Γ1 hs.1.2 h1).symm
        subst e1
        obtain ⟨h1i, hsubL⟩ := tc_chk_infer P ret _ T1 Γ Γ e hs.1.1 h1
        have gT1 := (tc_gi P d).1 e ret Γ T1 Γ hs.1.2 h1i hG
        have ih1 := ihE d e ret none Γ ρ T1 Γ il (okS_of_okE P d e hs.1.2) h1i hld.1 (by simp) hret henv hG
        have e2 : Γ2.tail.tail = Γ := by
          obtain ⟨g', hg⟩ := (tc_inv P d).2.1 body ret none [] _ T2 Γ2 hs.2 h2
          simp [hg, setB_cons]
        rw [e2] at htc
        refine R_fin ret tUnit T Γ Γ Γ' il _ exp _ ?_ htc hexp
        simp only [eval]
        cases hev : eval P n ρ e with
        | val v ρ1 =>
          rw [hev] at ih1
          simp [R, resTy] at ih1
          obtain ⟨items, rfl, hall, ga⟩ := list_inv v T1 gT1 hsubL ih1.1
          simp only []
          exact ihFor d x items body ret Γ ρ1 (forElemTy T1) T2 Γ2 il hs.2 h2 hld.2 hret ga hall ih1.2 hG
        | _ => rw [hev] at ih1; simp [R] at ih1 ⊢; try exact ih1
      | matchE s cases =>
        simp only [okS] at hs
        cases d with
        | zero => simp [okE] at hs
        | succ d =>
        simp only [okE] at hs
        simp at hs
        simp [loopDiags] at hld
        simp only [tcExpr] at htc
        destruct3 h1 : tcExpr P ret none Γ s with T1 Γ1 d1 at htc
        destruct3 h2 : tcCases P ret (matchMode exp) T1 Γ1 cases with Ts Γ2 d2 at htc
        -- the diagnostics of every branch of the result computation
        have key : ∃ X, fin exp X Γ2 (d1 ++
            (if (!(scrutIsEnum T1) && (allUnderscore cases || T1.isTuple)) = true then [Diag.matchNotEnum] else []) ++
            (match tyName T1 with
              | some n => exhaustive n (caseNames cases)
              | none => []) ++ d2) = (T, Γ', []) ∧
            (matchMode exp = none → Ty.unifyAll Ts = .ok X) := by
          cases hmm : matchMode exp with
          | none =>
            rw [hmm] at htc
            simp only at htc
            cases hu : Ty.unifyAll Ts with
            | ok U => rw [hu] at htc; simp only at htc; exact ⟨U, htc, fun _ => rfl⟩
            | error i =>
              rw [hu] at htc
              simp only at htc
              have := (fin_inv _ _ _ _ _ _ htc).2.2.1
              simp at this
          | some E =>
            rw [hmm] at htc
            simp only at htc
            cases hu : Ty.unifyAll Ts with
            | ok U => rw [hu] at htc; simp only at htc; exact ⟨_, htc, fun h => by simp at h⟩
            | error i => rw [hu] at htc; simp only at htc; exact ⟨_, htc, fun h => by simp at h⟩
        obtain ⟨X, hfin, hX⟩ := key
        have hd := (fin_inv _ _ _ _ _ _ hfin).2.2.1
        simp only [List.append_eq_nil_iff] at hd
        obtain ⟨⟨⟨hd1, hdne⟩, hdex⟩, hd2⟩ := hd
        subst hd1; subst hd2
        have e1 := ((tc_inv P d).1 s ret _ Γ T1 Γ1 hs.1 h1).symm
        subst e1
        have e2 := ((tc_inv P d).2.2.2 cases ret _ T1 Γ Ts Γ2 hs.2 h2).symm
        subst e2
        have gT1 := (tc_gi P d).1 s ret Γ T1 Γ hs.1 h1 hG
        have hnt : T1.isTuple = false := by
          cases T1 <;> simp [Ty.isTuple, scrutIsEnum] at hdne ⊢
        have ih1 := ihE d s ret none Γ ρ T1 Γ il (okS_of_okE P d s hs.1) h1 hld.1 (by simp) hret henv hG
        have hΓ' := (fin_inv _ _ _ _ _ _ hfin).2.1
        simp only [eval]
        cases hev : eval P n ρ s with
        | val sv ρ1 =>
          rw [hev] at ih1
          simp [R, resTy] at ih1
          simp only []
          have hpats := tcCases_pats P ret (matchMode exp) T1 cases Γ Ts Γ h2
          rcases scrut_cases sv T1 ih1.1 gT1 hnt with hsc | ⟨k, nn, args, hT1, hnn⟩
          · obtain ⟨key, hkey, sn, variants, hsn, hvar, hmem, hk1, hsn3⟩ := scrut_key sv T1 hsc
            rw [hsn] at hdex
            simp only at hdex
            have hcov := exhaustive_covers sn (caseNames cases) variants hvar hdex (keyName key) hmem
            have hcov' : ∃ v p b, Case.mk v p b ∈ cases ∧ (v = "_" ∨ v = keyName key) := by
              rcases hcov with hc | hc
              · obtain ⟨p, b, hm⟩ := caseNames_mem cases _ hc
                exact ⟨_, p, b, hm, Or.inr rfl⟩
              · obtain ⟨p, b, hm⟩ := caseNames_mem cases _ hc
                exact ⟨_, p, b, hm, Or.inl rfl⟩
            have hmodeGood : ∀ E, matchMode exp = some E → good E = true := by
              intro E hE
              exact hexp E (matchMode_some exp E hE)
            have ihc := ihC d cases ret (matchMode exp) T1 Γ ρ1 Ts Γ il sv key hs.2 h2 hld.2 hmodeGood hret ih1.2 hG
              hsc hkey hcov'
            simp only [hkey]
            cases hmm : matchMode exp with
            | none =>
              rw [hmm] at ihc h2
              have hU := hX hmm
              have gTs := (tc_gi P d).2.2.2 cases ret T1 Γ Ts Γ hs.2 h2 hG gT1 hnt
              refine R_fin ret X T Γ Γ Γ' il _ exp _ ?_ hfin hexp
              cases hr : evalCases P n ρ1 key cases with
              | val v ρ2 =>
                rw [hr] at ihc
                simp [RC] at ihc
                obtain ⟨⟨t, ht, hvt⟩, henv2⟩ := ihc
                simp [R, henv2]
                exact (hasTy_unifyAllFrom v Ts Ty.noValue X 0 hU gi_noValue gTs).2 t ht hvt
              | _ => rw [hr] at ihc; simp [RC] at ihc; simp [R]; try exact ihc
            | some E =>
              rw [hmm] at ihc
              have hexpE := matchMode_some exp E hmm
              subst hexpE
              subst hΓ'
              simp only [resTy]
              cases hr : evalCases P n ρ1 key cases with
              | val v ρ2 => rw [hr] at ihc; simp [RC] at ihc; simp [R, ihc.1, ihc.2]
              | _ => rw [hr] at ihc; simp [RC] at ihc; simp [R]; try exact ihc
          · -- not an enum: all cases are `_`, and then the checker reported `matchNotEnum`
            subst hT1
            have hall := allUnderscore_of P nn hnn cases (by simpa [tyName] using hpats)
            simp [scrutIsEnum, hnn, hall] at hdne
        | _ => rw [hev] at ih1; simp [R] at ih1 ⊢; try exact ih1
    · -- blocks
      intro d es ret exp Γ ρ T Γ' il hs htc hld hexp hret henv hG
      cases d with
      | zero => simp [okL] at hs
      | succ d =>
      cases es with
      | nil =>
        simp only [tcSeq] at htc
        simp only [evalSeq]
        simp at htc
        obtain ⟨hT, hΓ', hd⟩ := htc
        subst hT; subst hΓ'
        simp [R, henv]
        cases exp with
        | none => simp [resTy, hasTy, isNamed, tUnit]
        | some E =>
          simp [resTy]
          simp at hd
          exact hasTy_sub .unit tUnit E (by simp [hasTy, isNamed, tUnit]) hd (hexp E rfl)
      | cons e rest =>
        simp only [okL] at hs
        simp at hs
        have hs1 : okS P d e = true := by unfold okS; exact hs.1
        rw [ldL_cons] at hld
        cases rest with
        | nil =>
          simp only [tcSeq] at htc
          simp only [evalSeq]
          exact ihE d e ret exp Γ ρ T Γ' il hs1 htc hld.1 hexp hret henv hG
        | cons e2 rest =>
          simp only [tcSeq] at htc
          destruct3 h1 : tcExpr P ret none Γ e with T1 Γ1 d1 at htc
          destruct3 h2 : tcSeq P ret exp Γ1 (e2 :: rest) with T2 Γ2 d2 at htc
          simp only [Prod.mk.injEq] at htc
          obtain ⟨hT, hΓ', hd⟩ := htc
          obtain ⟨hd1, hd2⟩ := List.append_eq_nil_iff.mp hd
          subst hd1; subst hd2; subst hT; subst hΓ'
          have ih1 := ihE d e ret none Γ ρ T1 Γ1 il hs1 h1 hld.1 (by simp) hret henv hG
          have htail := stmt_tail P d e ret none Γ Γ1 T1 hs1 h1
          have hG1 := stmt_goodenv P d (tc_gi P d).1 e ret none Γ Γ1 T1 hs1 h1 hG
          simp only [evalSeq]
          cases hev : eval P n ρ e with
          | val v ρ1 =>
            rw [hev] at ih1
            simp [R] at ih1
            exact R_reΓ _ _ Γ Γ1 _ il _
              (ihL d (e2 :: rest) ret exp Γ1 ρ1 T2 Γ2 il hs.2 h2 hld.2 hexp hret ih1.2 hG1) htail
          | _ => rw [hev] at ih1; simp [R] at ih1 ⊢; try exact ih1
    · -- items / arguments (checked left to right, evaluated right to left)
      intro d es ret exp Γ ρ Ts Γ' il hs htc hld hexp hret henv hG
      cases d with
      | zero => simp [okA] at hs
      | succ d =>
      cases es with
      | nil =>
        simp [tcItems] at htc
        obtain ⟨hT, _⟩ := htc
        subst hT
        simp only [evalItems]
        cases exp <;> simp [RI, hasTyZip, hasTyAll, henv]
      | cons e rest =>
        simp only [okA] at hs
        simp at hs
        rw [ldL_cons] at hld
        simp only [tcItems] at htc
        destruct3 h1 : tcExpr P ret exp Γ e with T1 Γ1 d1 at htc
        destruct3 h2 : tcItems P ret exp Γ1 rest with T2 Γ2 d2 at htc
        simp only [Prod.mk.injEq] at htc
        obtain ⟨hT, _, hd⟩ := htc
        obtain ⟨hd1, hd2⟩ := List.append_eq_nil_iff.mp hd
        subst hd1; subst hd2; subst hT
        have e1 := ((tc_inv P d).1 e ret _ Γ T1 Γ1 hs.1 h1).symm
        subst e1
        have ihr := ihA d rest ret exp Γ ρ T2 Γ2 il hs.2 h2 hld.2 hexp hret henv hG
        simp only [evalItems]
        cases hev : evalItems P n ρ rest with
        | vals vs ρ1 =>
          rw [hev] at ihr
          simp [RI] at ihr
          have ih1 := ihE d e ret exp Γ ρ1 T1 Γ il (okS_of_okE P d e hs.1) h1 hld.1 hexp hret ihr.2 hG
          simp only []
          cases hev1 : eval P n ρ1 e with
          | val v ρ2 =>
            rw [hev1] at ih1
            simp [R] at ih1
            cases exp with
            | none => simp [RI, hasTyZip, resTy] at ih1 ihr ⊢; exact ⟨⟨ih1.1, ihr.1⟩, ih1.2⟩
            | some a => simp [RI, hasTyAll, resTy] at ih1 ihr ⊢; exact ⟨⟨ih1.1, ihr.1⟩, ih1.2⟩
          | _ => rw [hev1] at ih1; simp [R] at ih1; simp [RI]; try exact ih1
        | _ => rw [hev] at ihr; simp [RI] at ihr ⊢; try exact ihr
    · -- calls
      intro f vs ret Γ ρ tys T Γ' il hct hz henv
      have hl := lookupB_ok Γ ρ f henv
      simp only [callFn]
      unfold callTy at hct
      cases hg : lookupB Γ f with
      | some T0 =>
        obtain ⟨w, hw, hwt⟩ := hl.1 T0 hg
        rw [hg] at hct
        simp only at hct
        split at hct
        · simp [hasTy_err] at hwt
        · simp [hasTy_fn] at hwt
        · split at hct
          · rename_i hnv
            simp [hasTy_noValue w T0 hnv] at hwt
          · simp at hct
      | none =>
        rw [hg] at hct
        simp only at hct
        simp only [hl.2 hg]
        cases hgl : globalOf P f with
        | none => rw [hgl] at hct; simp at hct
        | some g =>
          rw [hgl] at hct
          cases g with
          | val T0 =>
            simp only at hct
            split at hct
            · rename_i hnv
              -- value globals are never NoValue
              unfold globalOf at hgl
              repeat' split at hgl
              all_goals simp at hgl
              all_goals (subst hgl; simp [Ty.isNoValue, tOption, tBool, tUnit] at hnv)
            · simp at hct
          | someC =>
            simp only at hct
            split at hct
            · rename_i a
              simp at hct
              cases vs with
              | nil => simp [hasTyZip] at hz
              | cons v vs =>
                cases vs with
                | nil =>
                  simp [hasTyZip] at hz
                  simp [R, henv, ← hct.1, hasTy, tOption, hz]
                | cons v2 vs => simp [hasTyZip] at hz
            · simp at hct
            · simp at hct
          | printLike =>
            simp only at hct
            split at hct
            · rename_i a
              simp at hct
              obtain ⟨hT, _, hsub⟩ := hct
              cases vs with
              | nil => simp [hasTyZip] at hz
              | cons v vs =>
                cases vs with
                | nil =>
                  simp [hasTyZip] at hz
                  obtain ⟨s, rfl⟩ := canon_str v (hasTy_sub v a tStr hz hsub good_tStr)
                  simp [R, henv, ← hT, hasTy, isNamed, tUnit]
                | cons v2 vs => simp [hasTyZip] at hz
            · simp at hct
          | stringRepr =>
            simp only at hct
            split at hct
            · simp at hct
              cases vs with
              | nil => simp [hasTyZip] at hz
              | cons v vs =>
                cases vs with
                | nil => simp [R, henv, ← hct.1, hasTy, isNamed, tStr]
                | cons v2 vs => simp [hasTyZip] at hz
            · simp at hct
          | fn ps r =>
            simp only at hct
            obtain ⟨fd, hfd, hps, hr⟩ := globalOf_fn P f ps r hgl
            split at hct
            · rename_i hlen
              simp at hct hlen
              obtain ⟨hT, _, hdiag⟩ := hct
              subst hT
              have hzl := hasTyZip_length vs tys hz
              have hpl : fd.params.length = ps.length := by rw [hps]; simp [paramTys]
              have hargs : hasTyZip vs (fd.params.map (fun p => p.2.toTy)) = true := by
                have := args_sub ps vs tys hz hlen (by rw [hps]; exact paramTys_goodL fd.params)
                  (by simpa using hdiag)
                rw [hps] at this
                exact this
              simp only [hfd]
              have hne : (fd.params.length != vs.length) = false := by
                simp; omega
              simp only [hne]
              simp [paramsOk_of fd.params vs hargs]
              obtain ⟨hok, hchk, hloop⟩ := hP fd (findFun_mem P f fd hfd)
              obtain ⟨Tb, Γb, db, hb⟩ := triple_exists (tcSeq P fd.ret.toTy (some fd.ret.toTy) ([] :: [paramBlock fd, []]) fd.body)
              rw [hb] at hchk
              simp at hchk
              subst hchk
              have gret := Hint.toTy_good fd.ret
              have envb : envOK ([] :: [paramBlock fd, []]) ([] :: [bindParams fd.params vs [], []]) := by
                simp [envOK, blockOK]
                exact bind_ok fd.params vs [] [] hargs (by simp [blockOK])
              have gb : GoodEnv ([] :: [paramBlock fd, []]) := by
                intro b hb'
                simp at hb'
                rcases hb' with rfl | rfl | rfl
                · simp
                · exact foldl_setBlock_gi fd.params [] (by simp)
                · simp
              have ihb := ihL D fd.body fd.ret.toTy (some fd.ret.toTy) _ _ Tb Γb false hok hb hloop
                (by intro E hE; cases hE; exact gret) gret envb gb
              have fin_ok : ∀ v, hasTy v fd.ret.toTy = true →
                  R ret r Γ Γ il (if Ty.sub (typeOf v) fd.ret.toTy = true then Res.val v ρ else Res.err RErr.retType) := by
                intro v hv
                simp [hasTy_sub_typeOf v _ hv, R, henv, hr, hv]
              cases hev : evalSeq P n ([] :: [bindParams fd.params vs [], []]) fd.body with
              | val v ρb => rw [hev] at ihb; simp [R, resTy] at ihb; simpa using fin_ok v ihb.1
              | ret v => rw [hev] at ihb; simp [R] at ihb; simpa using fin_ok v ihb
              | brk ρb => rw [hev] at ihb; simp [R] at ihb
              | cont ρb => rw [hev] at ihb; simp [R] at ihb
              | err er => rw [hev] at ihb; simp [R] at ihb ⊢; exact ihb
              | timeout => simp [R]
            · simp at hct
    · -- while
      intro d c body ret Γ ρ Tc Tb Γb il hsc hsb hc hb hlc hlb hret henv hG
      have e2 : Γb.tail = Γ := by
        obtain ⟨g', hg⟩ := (tc_inv P d).2.1 body ret none [] Γ Tb Γb hsb hb
        simp [hg]
      simp only [evalWhile]
      have ihc := ihE d c ret (some tBool) Γ ρ Tc Γ il (okS_of_okE P d c hsc) hc hlc
        (by intro E hE; cases hE; exact good_tBool) hret henv hG
      cases hev : eval P n ρ c with
      | val v ρ1 =>
        rw [hev] at ihc
        simp [R, resTy] at ihc
        obtain ⟨b, rfl⟩ := canon_bool v ihc.1
        cases b with
        | false => simp [R, hasTy, isNamed, tUnit, ihc.2]
        | true =>
          simp only []
          have ihb := ihL d body ret none ([] :: Γ) ([] :: ρ1) Tb Γb true hsb hb hlb (by simp) hret
            (envOK_push _ _ ihc.2) (GoodEnv_push _ hG)
          cases hevb : evalSeq P n ([] :: ρ1) body with
          | val v2 ρ2 =>
            rw [hevb] at ihb
            simp [R] at ihb
            simp only []
            exact ihW d c body ret Γ ρ2.tail Tc Tb Γb il hsc hsb hc hb hlc hlb hret
              (by rw [← e2]; exact envOK_tail _ _ ihb.2) hG
          | cont ρ2 =>
            rw [hevb] at ihb
            simp [R] at ihb
            obtain ⟨Γb', hb1, hb2⟩ := ihb
            simp only []
            exact ihW d c body ret Γ ρ2.tail Tc Tb Γb il hsc hsb hc hb hlc hlb hret
              (by rw [← hb2]; exact envOK_tail _ _ hb1) hG
          | brk ρ2 =>
            rw [hevb] at ihb
            simp [R] at ihb
            obtain ⟨Γb', hb1, hb2⟩ := ihb
            simp [R, hasTy, isNamed, tUnit]
            rw [← hb2]; exact envOK_tail _ _ hb1
          | ret v2 => rw [hevb] at ihb; simp [R] at ihb ⊢; exact ihb
          | err er => rw [hevb] at ihb; simp [R] at ihb ⊢; exact ihb
          | timeout => simp [R]
      | _ => rw [hev] at ihc; simp [R] at ihc ⊢; try exact ihc
    · -- for
      intro d x items body ret Γ ρ a Tb Γb il hsb hb hlb hret ga hall henv hG
      cases items with
      | nil => simp [evalFor, R, hasTy, isNamed, tUnit, henv]
      | cons v rest =>
        simp [hasTyAll] at hall
        simp only [evalFor]
        have envb : envOK ([] :: setB ([] :: Γ) x a) ([] :: setB ([] :: ρ) x v) :=
          envOK_push _ _ (setB_ok _ _ x a v (envOK_push _ _ henv) hall.1)
        have gb : GoodEnv ([] :: setB ([] :: Γ) x a) :=
          GoodEnv_push _ (GoodEnv_setB _ x a (GoodEnv_push _ hG) ga)
        have ihb := ihL d body ret none _ _ Tb Γb true hsb hb hlb (by simp) hret envb gb
        have e2 : Γb.tail.tail = Γ := by
          obtain ⟨g', hg⟩ := (tc_inv P d).2.1 body ret none [] _ Tb Γb hsb hb
          simp [hg, setB_cons]
        have e3 : (setB ([] :: Γ) x a).tail = Γ := by simp [setB_cons]
        cases hevb : evalSeq P n ([] :: setB ([] :: ρ) x v) body with
        | val v2 ρ2 =>
          rw [hevb] at ihb
          simp [R] at ihb
          simp only []
          exact ihFor d x rest body ret Γ ρ2.tail.tail a Tb Γb il hsb hb hlb hret ga hall.2
            (by rw [← e2]; exact envOK_tail _ _ (envOK_tail _ _ ihb.2)) hG
        | cont ρ2 =>
          rw [hevb] at ihb
          simp [R] at ihb
          obtain ⟨Γb', hb1, hb2⟩ := ihb
          simp only []
          exact ihFor d x rest body ret Γ ρ2.tail.tail a Tb Γb il hsb hb hlb hret ga hall.2
            (by rw [← e3, ← hb2]; exact envOK_tail _ _ (envOK_tail _ _ hb1)) hG
        | brk ρ2 =>
          rw [hevb] at ihb
          simp [R] at ihb
          obtain ⟨Γb', hb1, hb2⟩ := ihb
          simp [R, hasTy, isNamed, tUnit]
          rw [← e3, ← hb2]; exact envOK_tail _ _ (envOK_tail _ _ hb1)
        | ret v2 => rw [hevb] at ihb; simp [R] at ihb ⊢; exact ihb
        | err er => rw [hevb] at ihb; simp [R] at ihb ⊢; exact ihb
        | timeout => simp [R]
    · -- match cases
      intro d cs ret mode Ts0 Γ ρ Ts Γ' il sv key hs htc hld hmode hret henv hG hsc hkey hcov
      cases d with
      | zero => simp [okC] at hs
      | succ d =>
      cases cs with
      | nil => obtain ⟨v, p, b, hm, _⟩ := hcov; simp at hm
      | cons c rest =>
        cases c with
        | mk v payload body =>
        simp only [okC] at hs
        simp at hs
        obtain ⟨⟨hvp, hsb⟩, hsr⟩ := hs
        simp [loopDiagsC] at hld
        obtain ⟨hlb, hlr⟩ := hld
        have hpat := tcCases_pats P ret mode Ts0 (Case.mk v payload body :: rest) Γ Ts Γ' htc v payload body (by simp)
        -- running the body of a case that fires
        have body_ok : ∀ (g : List (String × Ty)) (r : List (String × Val)) (T1 : Ty) (Γ1 : Blocks Ty) (Tr : List Ty),
            tcSeq P ret mode ([] :: g :: Γ) body = (T1, Γ1, []) → blockOK g r → (∀ p ∈ g, gi p.2 = true) →
            RC ret mode (T1 :: Tr) Γ il
              (leaveBlock true (leaveBlock true (evalSeq P n ([] :: r :: ρ) body))) := by
          intro g r T1 Γ1 Tr hb hgr hgg
          have e1 : Γ1.tail = g :: Γ := by
            obtain ⟨g', hg⟩ := (tc_inv P d).2.1 body ret mode [] (g :: Γ) T1 Γ1 hsb hb
            simp [hg]
          have envb : envOK ([] :: g :: Γ) ([] :: r :: ρ) := by
            simp [envOK, blockOK, hgr, henv]
          have gb : GoodEnv ([] :: g :: Γ) := by
            intro b hb'
            simp at hb'
            rcases hb' with rfl | rfl | hb'
            · simp
            · exact hgg
            · exact hG b hb'
          have ihb := ihL d body ret mode ([] :: g :: Γ) ([] :: r :: ρ) T1 Γ1 il hsb hb hlb hmode hret envb gb
          have l1 := R_leave' ret _ [] (g :: Γ) Γ1 il _ ihb e1
          have l2 := R_leave' ret _ g Γ (g :: Γ) il _ l1 rfl
          exact RC_of_R ret T1 mode (T1 :: Tr) Γ il _ l2 (by simp)
        cases payload with
        | none =>
          simp only [tcCases] at htc
          destruct3 h1 : tcSeq P ret mode ([] :: [] :: Γ) body with T1 Γ1 d1 at htc
          destruct3 h2 : tcCases P ret mode Ts0 Γ1.tail.tail rest with T2 Γ2 d2 at htc
          simp only [Prod.mk.injEq] at htc
          obtain ⟨hT, _, hd⟩ := htc
          obtain ⟨hd12, hd2⟩ := List.append_eq_nil_iff.mp hd
          obtain ⟨hd1, _⟩ := List.append_eq_nil_iff.mp hd12
          subst hd1; subst hd2; subst hT
          have e1 : Γ1.tail.tail = Γ := by
            obtain ⟨g', hg⟩ := (tc_inv P d).2.1 body ret mode [] ([] :: Γ) T1 Γ1 hsb h1
            simp [hg]
          rw [e1] at h2
          have fires := body_ok [] [] T1 Γ1 T2 h1 (by simp [blockOK]) (by simp)
          simp only [evalCases]
          by_cases hv : v = "_"
          · subst hv
            simpa using fires
          · simp [hv]
            obtain ⟨idx, hpk, hidx, hshape, _⟩ := pat_key P sv Ts0 key v false hsc hkey hv (by simpa using hpat)
            simp only [hpk]
            by_cases hi : idx = key.2.1
            · have hvk := hidx.mp hi
              have hnone : key.2.2 = none := by
                have := hshape hvk
                simp at this
                cases hk2 : key.2.2 with
                | none => rfl
                | some pv => simp [hk2] at this
              simp [hi, hnone]
              exact fires
            · simp [hi]
              have hcov' : ∃ v' p b, Case.mk v' p b ∈ rest ∧ (v' = "_" ∨ v' = keyName key) := by
                obtain ⟨v', p', b', hm, hor⟩ := hcov
                simp at hm
                rcases hm with ⟨rfl, rfl, rfl⟩ | hm
                · rcases hor with h | h
                  · exact absurd h hv
                  · exact absurd (hidx.mpr h) hi
                · exact ⟨v', p', b', hm, hor⟩
              exact RC_weaken ret T1 mode T2 Γ il _
                (ihC d rest ret mode Ts0 Γ ρ T2 Γ2 il sv key hsr h2 hlr hmode hret henv hG hsc hkey hcov')
        | some x =>
          simp at hvp
          simp only [tcCases] at htc
          destruct3 h1 : tcSeq P ret mode ([] :: setB ([] :: Γ) x (payloadTy Ts0 v)) body with T1 Γ1 d1 at htc
          destruct3 h2 : tcCases P ret mode Ts0 Γ1.tail.tail rest with T2 Γ2 d2 at htc
          simp only [Prod.mk.injEq] at htc
          obtain ⟨hT, _, hd⟩ := htc
          obtain ⟨hd12, hd2⟩ := List.append_eq_nil_iff.mp hd
          obtain ⟨hd1, _⟩ := List.append_eq_nil_iff.mp hd12
          subst hd1; subst hd2; subst hT
          rw [setB_cons] at h1
          simp only [setBlock] at h1
          have e1 : Γ1.tail.tail = Γ := by
            obtain ⟨g', hg⟩ := (tc_inv P d).2.1 body ret mode [] _ T1 Γ1 hsb h1
            simp [hg]
          rw [e1] at h2
          simp only [evalCases]
          simp [hvp]
          obtain ⟨idx, hpk, hidx, hshape, hpay⟩ := pat_key P sv Ts0 key v true hsc hkey hvp (by simpa using hpat)
          simp only [hpk]
          by_cases hi : idx = key.2.1
          · have hvk := hidx.mp hi
            have hsome : ∃ pv, key.2.2 = some pv := by
              have := (hshape hvk).mp rfl
              cases hk2 : key.2.2 with
              | none => simp [hk2] at this
              | some pv => exact ⟨pv, rfl⟩
            obtain ⟨pv, hpv⟩ := hsome
            obtain ⟨htp, gtp⟩ := hpay pv hpv hvk
            simp [hi, hpv, setB_cons, setBlock]
            exact body_ok [(x, payloadTy Ts0 v)] [(x, pv)] T1 Γ1 T2 h1 (by simp [blockOK, htp]) (by simp [gtp])
          · simp [hi]
            have hcov' : ∃ v' p b, Case.mk v' p b ∈ rest ∧ (v' = "_" ∨ v' = keyName key) := by
              obtain ⟨v', p', b', hm, hor⟩ := hcov
              simp at hm
              rcases hm with ⟨rfl, rfl, rfl⟩ | hm
              · rcases hor with h | h
                · exact absurd h hvp
                · exact absurd (hidx.mpr h) hi
              · exact ⟨v', p', b', hm, hor⟩
            exact RC_weaken ret T1 mode T2 Γ il _
              (ihC d rest ret mode Ts0 Γ ρ T2 Γ2 il sv key hsr h2 hlr hmode hret henv hG hsc hkey hcov')


end Check
