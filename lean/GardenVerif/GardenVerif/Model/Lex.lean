/-!
# M1 — model of Garden's lexer (`src/parser/lex.rs`, `lex_between`)

Representation (one, used everywhere): the source text is a `List Char` (the decoding of the
UTF-8 input); every offset is a **byte** offset exactly as in the Rust, computed with `csize`
(= `char::len_utf8`). The loop state carries the current byte offset `off` *and* the current
suffix `rest` (the Rust's `&s[offset..]`); every time the Rust re-slices the text at a new
offset the model re-slices with `splitBytes`, which fails when the requested byte count does not
end on a character boundary — that failure is the model's explicit `panic` outcome (Rust:
"byte index N is not a char boundary").

`Cfg` selects between the code as the check builds it (`Cfg.fixed`: worktree with the two fix
patches `lex-fix-nonascii` and `lex-fix-endline`) and the pinned tree (`Cfg.pinned`), kept only to
state the pre-fix defects as theorems about witnesses.

Import-free. Transcription notes are next to each function; line numbers refer to the pinned
`src/parser/lex.rs`.
-/

namespace Lex

/-! ## Bytes -/

/-- `char::len_utf8`. -/
def csize (c : Char) : Nat :=
  if c.toNat < 0x80 then 1 else if c.toNat < 0x800 then 2 else if c.toNat < 0x10000 then 3 else 4

/-- `str::len` of a char sequence. -/
def bytes : List Char → Nat
  | [] => 0
  | c :: cs => csize c + bytes cs

/-- `(&s[..n], &s[n..])`; `none` when `n` is past the end or not on a character boundary
(the Rust slice panics in both cases). -/
def splitBytes : List Char → Nat → Option (List Char × List Char)
  | [], n => if n = 0 then some ([], []) else none
  | c :: cs, n =>
    if n = 0 then some ([], c :: cs)
    else if csize c ≤ n then
      match splitBytes cs (n - csize c) with
      | some (a, b) => some (c :: a, b)
      | none => none
    else none

/-! ## `line_numbers::LinePositions` (crate line-numbers 0.4.0) -/

/-- `LinePositions::from(s)`: for every `s.split('\n')` piece the pair
(line start, offset of its terminating `\n` or of the end of text). -/
def linePositionsGo : List Char → Nat → Nat → List (Nat × Nat)
  | [], ls, cur => [(ls, cur)]
  | c :: cs, ls, cur =>
    if c = '\n' then (ls, cur) :: linePositionsGo cs (cur + 1) (cur + 1)
    else linePositionsGo cs ls (cur + csize c)

def linePositions (src : List Char) : List (Nat × Nat) := linePositionsGo src 0 0

/-- The entry with `line_start ≤ offset ≤ line_end` and its index. The Rust uses a binary search
with exactly this comparator; the ranges are disjoint and increasing, so the first hit of a
linear search is the same entry. `none` = the Rust's `assert!(offset <= s_end)` /
`expect("line should be present")` panic (both are panics; the model does not tell them apart). -/
def findLine : List (Nat × Nat) → Nat → Nat → Option (Nat × Nat)
  | [], _, _ => none
  | (s, e) :: ps, off, idx =>
    if s ≤ off ∧ off ≤ e then some (idx, off - s) else findLine ps off (idx + 1)

/-- `lp.from_offset(offset)` = (zero-based line, column in BYTES from the line start). -/
def fromOffset (lp : List (Nat × Nat)) (off : Nat) : Option (Nat × Nat) := findLine lp off 0

/-! ## Positions, tokens -/

/-- The six numeric fields of `Position` (`path`/`vfs_path` are constant per lex call). -/
structure Pos where
  start : Nat
  stop : Nat
  line : Nat
  endLine : Nat
  col : Nat
  endCol : Nat
  deriving DecidableEq, Repr, Inhabited

/-- `Position::merge` (src/parser/position.rs:72-87). -/
def Pos.merge (first second : Pos) : Pos :=
  { start := first.start
    stop := max first.stop second.stop
    line := first.line
    endLine := max first.endLine second.endLine
    col := first.col
    endCol := if first.stop > second.stop then first.endCol else second.endCol }

abbrev Comment := Pos × List Char

structure Token where
  pos : Pos
  text : List Char
  /-- `preceding_comments`, in source order. -/
  comments : List Comment
  deriving Repr, Inhabited

/-- `Position::merge_token` (position.rs:91-98). -/
def Pos.mergeToken (first : Token) (second : Pos) : Pos :=
  match first.comments with
  | (p, _) :: _ => Pos.merge p second
  | [] => Pos.merge first.pos second

inductive ErrKind where
  | unclosedString
  | unrecognized (text : List Char)
  deriving Repr, Inhabited

structure LexErr where
  kind : ErrKind
  pos : Pos
  deriving Repr, Inhabited

/-! ## Token tables (regenerated from the Rust by the translator; `garden` = current values) -/

structure LexTables where
  twoCharOps : List (List Char)
  twoCharTokens : List (List Char)
  oneCharOps : List Char
  oneCharTokens : List Char
  deriving Repr, DecidableEq

/-- lex.rs:20-33. -/
def LexTables.garden : LexTables where
  twoCharOps := [['=', '='], ['!', '='], ['>', '='], ['<', '='], ['&', '&'], ['|', '|'],
    ['+', '='], ['-', '='], ['*', '*'], ['+', '.'], ['-', '.'], ['*', '.'], ['/', '.']]
  twoCharTokens := [['=', '>'], [':', ':']]
  oneCharOps := ['+', '-', '*', '/', '%', '^', '=', '<', '>', '&', '|']
  oneCharTokens := ['(', ')', '{', '}', ',', '[', ']', '.', ':']

/-- What the lexer loop needs from the tables: a two-char entry is non-empty (otherwise the loop
would not advance) and a one-char entry is one byte (the Rust slices `&s[0..1]`). Decidable;
`LexTables.garden` satisfies it (`Lemmas/Lex.lean`). -/
def LexTables.wf (T : LexTables) : Bool :=
  (T.twoCharOps ++ T.twoCharTokens).all (fun e => !e.isEmpty) &&
  (T.oneCharOps ++ T.oneCharTokens).all (fun c => csize c == 1)

/-! ## Character classes and the four anchored regexes -/

/-- `char::is_whitespace` = Unicode `White_Space`. -/
def isWhitespace (c : Char) : Bool :=
  let n := c.toNat
  (9 ≤ n && n ≤ 13) || n == 0x20 || n == 0x85 || n == 0xA0 || n == 0x1680 ||
  (0x2000 ≤ n && n ≤ 0x200A) || n == 0x2028 || n == 0x2029 || n == 0x202F || n == 0x205F ||
  n == 0x3000

def isDigit (c : Char) : Bool := 48 ≤ c.toNat && c.toNat ≤ 57
def isDigitU (c : Char) : Bool := isDigit c || c == '_'
def isSymStart (c : Char) : Bool :=
  (97 ≤ c.toNat && c.toNat ≤ 122) || (65 ≤ c.toNat && c.toNat ≤ 90) || c == '_'
def isSymChar (c : Char) : Bool := isSymStart c || isDigit c

/-- `INTEGER_RE = ^-?[0-9][0-9_]*`: the matched prefix. No character class overlaps the next
literal, so greedy matching never backtracks. -/
def scanInt (s : List Char) : Option (List Char) :=
  match s with
  | '-' :: d :: r => if isDigit d then some ('-' :: d :: r.takeWhile isDigitU) else none
  | d :: r => if isDigit d then some (d :: r.takeWhile isDigitU) else none
  | [] => none

/-- `FLOAT_RE = ^-?[0-9][0-9_]*\.[0-9][0-9_]*` = `INTEGER_RE` then `\.[0-9][0-9_]*`. -/
def scanFloat (s : List Char) : Option (List Char) :=
  match scanInt s with
  | none => none
  | some m =>
    match s.drop m.length with
    | '.' :: d :: r => if isDigit d then some (m ++ '.' :: d :: r.takeWhile isDigitU) else none
    | _ => none

/-- `SYMBOL_RE = ^[a-zA-Z_][a-zA-Z0-9_]*`. -/
def scanSymbol (s : List Char) : Option (List Char) :=
  match s with
  | c :: r => if isSymStart c then some (c :: r.takeWhile isSymChar) else none
  | [] => none

/-- The part of `STRING_RE` after the opening quote, for the two variants of the regex:

* `any = false`: `^"(\\"|[^"])*("|\z)` (pinned tree): at each position prefer `\"` (two chars),
  else one char that is not `"`;
* `any = true`: `^"(\\.|[^"])*("|\z)` (tree with the C12 string-escape fix): prefer `\` followed
  by any char except newline (`.` does not match `\n`), else one char that is not `"`.

Leftmost-first semantics, iteration preferred over stopping. The preferred path never fails: it
stops either at a `"` the star cannot consume (then `"` matches) or at the end of the text (then
`\z` matches), so the regex never backtracks and the match is this deterministic scan. `esc` = the
previous char was a `\` consumed so far only as `[^"]` (so the current char may be the second half
of the two-char alternative). -/
def strBody (any : Bool) : Bool → List Char → List Char
  | _, [] => []
  | esc, c :: r =>
    if esc && (if any then c != '\n' else c == '"') then c :: strBody any false r
    else if c = '"' then ['"']
    else c :: strBody any (c == '\\') r

def scanString (any : Bool) (s : List Char) : Option (List Char) :=
  match s with
  | c :: r => if c = '"' then some ('"' :: strBody any false r) else none
  | [] => none

/-! ## The loop -/

structure Cfg where
  /-- advance over whitespace / an unrecognised character by the whole char (fix 1) instead of
  one byte (pinned lex.rs:166, 366-381). -/
  charAdvance : Bool
  /-- `end_line_number`/`end_column` from `lp.from_offset(end_offset)` (fix 2) instead of
  `line_number` / `column + len` (pinned). -/
  endFromOffset : Bool
  /-- which `STRING_RE` the tree has: `\\.` (true, C12 fix) or `\\"` (false, pinned). The lexer
  theorems hold for both; the driver selects the one `Generated/Tables.lean` reports. -/
  strEscapeAny : Bool

def Cfg.fixed (strAny : Bool) : Cfg := ⟨true, true, strAny⟩
def Cfg.pinned : Cfg := ⟨false, false, false⟩

structure State where
  off : Nat
  /-- `&s[off..]` -/
  rest : List Char
  /-- `preceding_comments`, newest first -/
  pending : List Comment
  /-- newest first -/
  toks : List Token
  /-- newest first -/
  errs : List LexErr
  deriving Repr, Inhabited

inductive Step where
  | done
  | next (st : State)
  | panic (site : String)

/-- Build the `Position { start_offset, end_offset, … }` literal of every branch. -/
def mkPos (cfg : Cfg) (lp : List (Nat × Nat)) (s e : Nat) : Option Pos :=
  match fromOffset lp s with
  | none => none
  | some (l, c) =>
    if cfg.endFromOffset then
      match fromOffset lp e with
      | none => none
      | some (el, ec) => some ⟨s, e, l, el, c, ec⟩
    else some ⟨s, e, l, l, c, c + (e - s)⟩

/-- `offset += n; continue` followed by `let s = &s[offset..]` at the loop head (lex.rs:121). -/
def advance (st : State) (n : Nat) : Step :=
  match splitBytes st.rest n with
  | none => .panic "slice: offset is not a char boundary"
  | some (_, r) => .next { st with off := st.off + n, rest := r }

/-- `tokens.push(Token { position, text: m, preceding_comments }); preceding_comments = vec![];
offset += m.len()` (with an optional error at the same position). -/
def emit (cfg : Cfg) (lp : List (Nat × Nat)) (st : State) (m : List Char)
    (err : Option ErrKind) : Step :=
  match mkPos cfg lp st.off (st.off + bytes m) with
  | none => .panic "from_offset"
  | some p =>
    advance { st with
      toks := ⟨p, m, st.pending.reverse⟩ :: st.toks
      pending := []
      errs := match err with
        | some k => ⟨k, p⟩ :: st.errs
        | none => st.errs } (bytes m)

/-- One iteration of `'outer: while offset < end_offset` (lex.rs:120-383). -/
def step (T : LexTables) (cfg : Cfg) (lp : List (Nat × Nat)) (endOff : Nat) (st : State) : Step :=
  if endOff ≤ st.off then .done else
  let s := st.rest
  -- lex.rs:124-159 comments
  if ['/', '/'].isPrefixOf s then
    let body := s.takeWhile (· != '\n')
    -- `s.find('\n')`: `Some(i)` iff something is left after the body; `&s[0..i + 1]`
    let text := if body.length < s.length then body ++ ['\n'] else body
    match mkPos cfg lp st.off (st.off + bytes body) with
    | none => .panic "from_offset"
    | some p => advance { st with pending := (p, text) :: st.pending } (bytes text)
  else
  match s with
  | [] => .done                       -- lex.rs:162-164 `else { break }`
  | c :: _ =>
    -- lex.rs:165-168
    if isWhitespace c then advance st (if cfg.charAdvance then csize c else 1) else
    -- lex.rs:171-194, table order, ops then tokens
    match (T.twoCharOps ++ T.twoCharTokens).find? (fun e => e.isPrefixOf s) with
    | some e => emit cfg lp st e none
    | none =>
    match scanFloat s with            -- lex.rs:198-219
    | some m => emit cfg lp st m none
    | none =>
    match scanInt s with              -- lex.rs:223-244
    | some m => emit cfg lp st m none
    | none =>
    -- lex.rs:247-270; text is `&s[0..1]`
    if (T.oneCharOps ++ T.oneCharTokens).contains c then
      (if csize c = 1 then emit cfg lp st [c] none
       else .panic "slice: &s[0..1] is not a char boundary")
    else
    match scanString cfg.strEscapeAny s with   -- lex.rs:271-339
    | some m =>
      if m.getLast? = some '"' then emit cfg lp st m none
      else emit cfg lp st (m.takeWhile (· != '\n')) (some .unclosedString)
    | none =>
    match scanSymbol s with           -- lex.rs:340-359
    | some m => emit cfg lp st m none
    | none =>
      -- lex.rs:360-382 "Unrecognized syntax"
      let n := if cfg.charAdvance then csize c else 1
      match mkPos cfg lp st.off (st.off + n) with
      | none => .panic "from_offset"
      | some p =>
        match splitBytes s n with
        | none => .panic "slice: &s[0..1] is not a char boundary"
        | some (t, _) => advance { st with errs := ⟨.unrecognized t, p⟩ :: st.errs } n

inductive Outcome where
  | ok (tokens : List Token) (trailing : List Comment) (errors : List LexErr)
  | panic (site : String)
  | outOfFuel
  deriving Repr, Inhabited

def Outcome.isPanic : Outcome → Bool
  | .panic _ => true
  | _ => false

def Outcome.isOutOfFuel : Outcome → Bool
  | .outOfFuel => true
  | _ => false

def Outcome.tokens : Outcome → List Token
  | .ok t _ _ => t
  | _ => []

def Outcome.trailing : Outcome → List Comment
  | .ok _ c _ => c
  | _ => []

def Outcome.errors : Outcome → List LexErr
  | .ok _ _ e => e
  | _ => []

def loop (T : LexTables) (cfg : Cfg) (lp : List (Nat × Nat)) (endOff : Nat) :
    Nat → State → Outcome
  | 0, _ => .outOfFuel
  | fuel + 1, st =>
    match step T cfg lp endOff st with
    | .done => .ok st.toks.reverse st.pending.reverse st.errs.reverse
    | .panic site => .panic site
    | .next st' => loop T cfg lp endOff fuel st'

/-- lex.rs:116-118 shebang: `if offset == 0 && s.starts_with('#') { offset =
s.find('\n').unwrap_or(s.len()) }`. -/
def shebangSkip (src : List Char) (offset : Nat) : Nat :=
  match src with
  | c :: _ => if offset = 0 ∧ c = '#' then bytes (src.takeWhile (· != '\n')) else offset
  | [] => offset

/-- `lex_between(vfs_path, s, offset, end_offset)` with explicit fuel. -/
def lexBetweenFuel (T : LexTables) (cfg : Cfg) (fuel : Nat) (src : List Char)
    (offset endOff : Nat) : Outcome :=
  if bytes src < endOff then .panic "assert!(end_offset <= s.len())" else   -- lex.rs:104
  let lp := linePositions src
  let offset := shebangSkip src offset
  match splitBytes src offset with
  | none => if endOff ≤ offset then .ok [] [] [] else .panic "slice: offset is not a char boundary"
  | some (_, rest) => loop T cfg lp endOff fuel ⟨offset, rest, [], [], []⟩

/-- `lex(vfs_path, s)` with the fuel that `Lemmas/Lex.lean` proves sufficient: every
iteration that continues consumes at least one character. -/
def lexWith (T : LexTables) (cfg : Cfg) (src : List Char) : Outcome :=
  lexBetweenFuel T cfg (src.length + 1) src 0 (bytes src)

/-- The lexer as the check builds it (worktree + fix patches); `strAny` = which `STRING_RE`. -/
def lex (T : LexTables) (src : List Char) (strAny : Bool := false) : Outcome :=
  lexWith T (Cfg.fixed strAny) src

/-- The lexer of the pinned tree. -/
def lexOld (T : LexTables) (src : List Char) : Outcome := lexWith T Cfg.pinned src

end Lex
