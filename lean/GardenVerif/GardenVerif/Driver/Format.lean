import GardenVerif.Driver.Sexp
import GardenVerif.Model.Format
/-!
Driver ops for M11 (C17, C18).

`same_tokens (a <lex output of text A>) (b <lex output of text B>)`
    → `OK (same true|false) (strict true|false) (ntoks nA nB) (ncomments cA cB)`
    The views are built from the REAL lexer's token lists (`garden verif lex`).

`fmt_check (text wrap s:H) (text spans s:H) (text indent s:H) (text blanks s:H) (text spacing s:H)
           (text final s:H) (line_edits (le L N)…) (span_edits (se S E s:H)…) (toplevel L…)
           (marks_wrap (sp S E)…) (marks_spans (sp S E)…) (marks_indent (sp S E)…)`
    → `OK (spans eq|ne|panic) (spans_in_gaps B) (indent eq|ne) (edits_in_gaps B) (bad_lines L…)
          (blanks eq|eqfix|ne) (final eq|ne)`   (`eqfix`: matches the phase-6 model with the repair
          format-fix-blank-lines-inside-string, marks from the lexer's spans of the `indent` text)
    Phase models run on the real intermediate texts and edit lists (`fmt_trace`), marks from the
    real lexer's spans of the phase's input text.

`fmt_final s:H`, `fmt_blanks s:H L…`, `fmt_indent s:H (le L N)…` → `OK s:H` (phase models alone).
-/

namespace DriverFormat
open Fmt

def unS (s : String) : String := if s.startsWith "s:" then (s.drop 2).toString else s

def hexBytes (s : String) : Option (List UInt8) := Hex.decodeBytes (unS s)

def posFields (s : String) : List Nat := (s.splitOn ":").map (fun x => x.toNat!)

structure RTok where
  text : List UInt8
  start : Nat
  stop : Nat
  line : Nat
  endLine : Nat
  comments : List (List UInt8 × Nat)   -- text, line

def stripEol (t : List UInt8) : List UInt8 :=
  let r := t.reverse
  let r := match r with | 10 :: rest => rest | _ => r
  let r := match r with | 13 :: rest => rest | _ => r
  r.reverse

def parseComment : Sexp → Option (List UInt8 × Nat)
  | .list [.atom _, .atom h, .atom p] =>
    match hexBytes h, posFields p with
    | some t, [_, _, line, _, _, _] => some (stripEol t, line)
    | _, _ => none
  | _ => none

def parseTok : Sexp → Option RTok
  | .list (.atom "tok" :: .atom h :: .atom p :: cs) =>
    match hexBytes h, posFields p, cs.mapM parseComment with
    | some t, [s, e, line, el, _, _], some cs => some ⟨t, s, e, line, el, cs⟩
    | _, _, _ => none
  | _ => none

def vcomments : List (List UInt8 × Nat) → List VComment
  | [] => []
  | [(t, _)] => [⟨t, false⟩]
  | (t, l) :: (t2, l2) :: rest => ⟨t, l + 1 == l2⟩ :: vcomments ((t2, l2) :: rest)

def vtoks : Option RTok → List RTok → List VTok
  | _, [] => []
  | prev, t :: ts =>
    let v : VTok :=
      { text := t.text
        touchesPrev := match prev with | some p => p.stop == t.start | none => false
        sameLinePrev := match prev with | some p => p.endLine == t.line | none => false
        comments := vcomments t.comments }
    v :: vtoks (some t) ts

/-- items of a `lex` response: toks, trailing comments; `(err …)` items are ignored -/
def viewOf (items : List Sexp) : Option View :=
  let toks := items.filterMap (fun s => match s with
    | .list (.atom "tok" :: _) => some s | _ => none)
  let trail := items.filterMap (fun s => match s with
    | .list (.atom "trail" :: _) => some s | _ => none)
  match toks.mapM parseTok, trail.mapM parseComment with
  | some ts, some tr => some ⟨vtoks none ts, vcomments tr⟩
  | _, _ => none

def sameTokensOp (rest : String) : String :=
  match Sexp.parseAll rest with
  | some [.list (.atom "a" :: ia), .list (.atom "b" :: ib)] =>
    match viewOf ia, viewOf ib with
    | some va, some vb =>
      let nc (v : View) := (v.toks.map (·.comments.length)).sum + v.trailing.length
      s!"OK (same {sameTokens va vb}) (strict {sameTokensStrict va vb}) (ntoks {va.toks.length} {vb.toks.length}) (ncomments {nc va} {nc vb})"
    | _, _ => "ERR view"
  | _ => "ERR parse"

def hexOf (t : MText) : String := "s:" ++ Hex.encodeBytes (bytes t)

def findText (items : List Sexp) (name : String) : Option (List UInt8) :=
  items.findSome? (fun s => match s with
    | .list [.atom "text", .atom n, .atom h] => if n == name then hexBytes h else none
    | _ => none)

def findList (items : List Sexp) (name : String) : List Sexp :=
  (items.findSome? (fun s => match s with
    | .list (.atom n :: xs) => if n == name then some xs else none
    | _ => none)).getD []

def natOf : Sexp → Option Nat
  | .atom s => s.toNat?
  | _ => none

def lineEdits (xs : List Sexp) : List (Nat × Nat) :=
  xs.filterMap (fun s => match s with
    | .list [.atom "le", .atom l, .atom n] => some (l.toNat!, n.toNat!)
    | _ => none)

def spanEdits (xs : List Sexp) : List SpanEdit :=
  xs.filterMap (fun s => match s with
    | .list [.atom "se", .atom a, .atom b, .atom h] =>
      some ⟨a.toNat!, b.toNat!, plain ((hexBytes h).getD [])⟩
    | _ => none)

def spansOf (xs : List Sexp) : List (Nat × Nat) :=
  xs.filterMap (fun s => match s with
    | .list [.atom "sp", .atom a, .atom b] => some (a.toNat!, b.toNat!)
    | _ => none)

def badLines (edits : List (Nat × Nat)) (n : Nat) : Nat → List Line → List Nat
  | _, [] => []
  | i, l :: ls => (if lineOK edits n i l then [] else [i]) ++ badLines edits n (i + 1) ls

def eqs (a b : List UInt8) : String := if a == b then "eq" else "ne"

def fmtCheck (rest : String) : String :=
  match Sexp.parseAll rest with
  | none => "ERR parse"
  | some items =>
    match findText items "wrap", findText items "spans", findText items "indent",
          findText items "blanks", findText items "spacing", findText items "final" with
    | some wrap, some spans, some indent, some blanks, some spacing, some final =>
      let les := lineEdits (findList items "line_edits")
      let ses := spanEdits (findList items "span_edits")
      let tl := (findList items "toplevel").filterMap natOf
      let mwrap := markSpans wrap (spansOf (findList items "marks_wrap"))
      let mspans := markSpans spans (spansOf (findList items "marks_spans"))
      let (spansRes, spansGaps) :=
        match applySpanEdits mwrap ses with
        | .ok t => (eqs (bytes t) spans, spansInGaps mwrap mwrap.length (sortDesc ses))
        | .panic _ => ("panic", false)
      let ind := applyIndentationEdits mspans les
      let ls := rawLines mspans
      let bad := badLines les ls.length 0 ls
      let nb := normalizeBlankLines (plain indent) tl
      let nbFix := normalizeBlankLinesSkip (markSpans indent (spansOf (findList items "marks_indent"))) tl
      let blanksRes := if bytes nb == blanks then "eq" else if bytes nbFix == blanks then "eqfix" else "ne"
      let fin := finalNewline (plain spacing)
      s!"OK (spans {spansRes}) (spans_in_gaps {spansGaps}) (indent {eqs (bytes ind) indent}) (edits_in_gaps {editsInGaps mspans les}) (bad_lines{String.join (bad.map (fun n => s!" {n}"))}) (blanks {blanksRes}) (final {eqs (bytes fin) final})"
    | _, _, _, _, _, _ => "ERR missing text"

def handle (op : String) (rest : String) : Option String :=
  if op == "same_tokens" then some (sameTokensOp rest)
  else if op == "fmt_check" then some (fmtCheck rest)
  else if op == "fmt_selftest" then
    some (if keywords == keywordStrings.map strB then "OK true" else "OK false")
  else if op == "fmt_final" then
    some (match hexBytes rest.trimAscii.toString with
      | some bs => "OK " ++ hexOf (finalNewline (plain bs))
      | none => "ERR hex")
  else if op == "fmt_blanks" then
    some (match rest.trimAscii.toString.splitOn " " with
      | h :: ls => (match hexBytes h with
        | some bs => "OK " ++ hexOf (normalizeBlankLines (plain bs) (ls.filterMap String.toNat?))
        | none => "ERR hex")
      | [] => "ERR args")
  else if op == "fmt_indent" then
    some (match Sexp.parseAll rest with
      | some (.atom h :: es) => (match hexBytes h with
        | some bs => "OK " ++ hexOf (applyIndentationEdits (plain bs) (lineEdits es))
        | none => "ERR hex")
      | _ => "ERR args")
  else none

end DriverFormat
