import GardenVerif.Lemmas.Nrepl
/-!
# C30 — nREPL delivers one final `done` per request, after all its output

Model: M10 (`Model/Nrepl.lean`), an interleaving transition system of the reader, the session
workers and the output flushers at the granularity of the Rust's channel / atomic / mutex
operations.  `Nrepl.Inv` (`Lemmas/Nrepl.lean`) is an *inductive invariant*: it holds initially and
is preserved by every transition, whatever the label (so for every client, every program, every
interleaving; no bound on steps, requests, sessions or output).  The property's three sentences
are corollaries.

Safety only.  That `done` is eventually sent needs the eval to finish (C02/C25 are premises) and
fair scheduling; what is proved is: once the worker has sent the last element of `responses`
for `r` (request state `finished`), exactly one `done r` is in the queue and it is last.
Request ids are the reader's message counter: the client is assumed not to reuse ids.
-/

namespace C30
open Nrepl

theorem inv_init : Inv init := Inv_init

theorem inv_step (s s' : State) (l : Label) (h : Inv s) (hs : step s l = some s') : Inv s' :=
  Inv_step h hs

theorem inv_reachable (s : State) (h : Reachable s) : Inv s := Inv_reachable h

/-! ### What the phase automaton means -/

def NoDone (r : Nat) (q : List Msg) : Prop := ∀ m ∈ q, m.rid = r → m.isDone = false

/-- Exactly one `done r`, and it is the last message with id `r`. -/
def OneDoneLast (r : Nat) (q : List Msg) : Prop :=
  ∃ pre st post, q = pre ++ Msg.done r st :: post ∧ NoDone r pre ∧ ∀ m ∈ post, m.rid ≠ r

theorem phase_char (r : Nat) (q : List Msg) :
    (phase r q = .open → NoDone r q) ∧ (phase r q = .closed → OneDoneLast r q) := by
  generalize hn : q.length = n
  induction n generalizing q with
  | zero =>
    have : q = [] := List.length_eq_zero_iff.mp hn
    subst this
    constructor
    · intro _ m hm; cases hm
    · intro h; simp [phase] at h
  | succ n ih =>
    rcases List.eq_nil_or_concat q with hq | ⟨q', m, hq⟩
    · subst hq; simp at hn
    · rw [List.concat_eq_append] at hq
      subst hq
      have hlen : q'.length = n := by simp at hn; omega
      obtain ⟨ih1, ih2⟩ := ih q' hlen
      rw [phase_append]
      unfold stepPhase
      by_cases hm : m.rid = r
      · simp only [hm, if_true]
        cases hp : phase r q' with
        | «open» =>
          simp only
          by_cases hd : m.isDone = true
          · simp only [hd, if_true]
            refine ⟨fun h => (by cases h), fun _ => ?_⟩
            cases m <;> simp [Msg.isDone] at hd
            rename_i r' st
            simp only [Msg.rid] at hm; subst hm
            exact ⟨q', st, [], (by simp), ih1 hp, fun m hm => (by cases hm)⟩
          · simp only [hd]
            refine ⟨fun _ => ?_, fun h => by simp at h⟩
            intro m' hm'
            simp only [List.mem_append, List.mem_singleton] at hm'
            rcases hm' with hm' | hm'
            · exact ih1 hp m' hm'
            · subst hm'; intro _; simpa using hd
        | closed => simp
        | bad => simp
      · simp only [hm, if_false]
        refine ⟨fun h => ?_, fun h => ?_⟩
        · intro m' hm'
          simp only [List.mem_append, List.mem_singleton] at hm'
          rcases hm' with hm' | hm'
          · exact ih1 h m' hm'
          · subst hm'; intro hh; exact absurd hh hm
        · obtain ⟨pre, st, post, hq, h1, h2⟩ := ih2 h
          refine ⟨pre, st, post ++ [m], by simp [hq], h1, ?_⟩
          intro m' hm'
          simp only [List.mem_append, List.mem_singleton] at hm'
          rcases hm' with hm' | hm'
          · exact h2 m' hm'
          · subst hm'; exact hm

theorem phase_not_bad {s : State} (h : Inv s) (r : Nat) : phase r s.respQ ≠ .bad := by
  have := h.req r
  unfold RInv at this
  split at this <;> simp_all

/-- **Sentence 1.** In every reachable state and for every request id: either no `done` with
that id has been sent yet, or exactly one has and it is the last message with that id. -/
theorem one_done_last (s : State) (h : Reachable s) (r : Nat) :
    NoDone r s.respQ ∨ OneDoneLast r s.respQ := by
  have hI := Inv_reachable h
  have hb := phase_not_bad hI r
  cases hp : phase r s.respQ with
  | «open» => exact Or.inl ((phase_char r _).1 hp)
  | closed => exact Or.inr ((phase_char r _).2 hp)
  | bad => exact absurd hp hb

/-- Safety form of "every request gets a `done`": once the handling of `r` has ended (the reader
sent its reply, or the worker sent the last element of `responses`), exactly one `done r` is in
the queue and it is last. -/
theorem finished_has_one_done (s : State) (h : Reachable s) (r : Nat)
    (hf : s.rstat r = .finished) : OneDoneLast r s.respQ := by
  have := (Inv_reachable h).req r
  unfold RInv at this
  simp only [hf] at this
  exact (phase_char r _).2 this.1

theorem done_finished {s : State} (h : Inv s) {r : Nat} {st : Status}
    (hd : Msg.done r st ∈ s.respQ) : s.rstat r = .finished := by
  have hreq := h.req r
  unfold RInv at hreq
  have hopen : phase r s.respQ = .open → False := by
    intro hp
    have := (phase_char r _).1 hp _ hd rfl
    simp [Msg.isDone] at this
  split at hreq
  · exact (hopen hreq.1).elim
  · exact (hopen hreq.1).elim
  · exact (hopen hreq.1).elim
  · exact (hopen hreq.2.1).elim
  · assumption

/-- **Sentence 2, accounting part.** While `r` is being handled, everything its eval has
printed is, per stream and in order: delivered chunks, then what the flusher holds in flight, then
what the final drain holds in flight, then the buffer — nothing lost, duplicated or reordered. -/
theorem nothing_lost (s : State) (h : Reachable s) (r i : Nat) (k : Stream)
    (ha : s.rstat r = .active i) :
    s.produced k r =
      deliv k r s.respQ ++ inflF k (s.sess i).fpc ++ inflW k (s.sess i).wpc ++ (s.sess i).buf k := by
  have := (Inv_reachable h).req r
  unfold RInv at this
  simp only [ha] at this
  exact this.2.2 k

theorem foldl_bad (r : Nat) (q : List Msg) : q.foldl (stepPhase r) .bad ≠ .closed := by
  induction q with
  | nil => simp
  | cons m q ih =>
    simp only [List.foldl_cons]
    have : stepPhase r .bad m = .bad := by unfold stepPhase; split <;> rfl
    rw [this]; exact ih

theorem none_after_done (r : Nat) (p : Phase) (hp : p ≠ .open) (post : List Msg)
    (h : post.foldl (stepPhase r) p = .closed) : ∀ m ∈ post, m.rid ≠ r := by
  induction post generalizing p with
  | nil => intro m hm; cases hm
  | cons m post ih =>
    simp only [List.foldl_cons] at h
    by_cases hm : m.rid = r
    · have : stepPhase r p m = .bad := by
        unfold stepPhase
        cases p <;> simp_all
      rw [this] at h
      exact absurd h (foldl_bad r post)
    · have : stepPhase r p m = p := by unfold stepPhase; simp [hm]
      rw [this] at h
      intro m' hm'
      simp only [List.mem_cons] at hm'
      rcases hm' with hm' | hm'
      · subst hm'; exact hm
      · exact ih p hp h m' hm'

theorem deliv_none (k : Stream) (r : Nat) (post : List Msg) (h : ∀ m ∈ post, m.rid ≠ r) :
    deliv k r post = [] := by
  induction post with
  | nil => rfl
  | cons m post ih =>
    have hm := h m (by simp)
    have : chunkOf k r m = [] := by
      cases m <;> simp_all [chunkOf, Msg.rid]
    simp only [deliv, this, List.nil_append]
    exact ih (fun m' hm' => h m' (by simp [hm']))

/-- **Sentence 2.** If `done r` is in the queue, then the `out` (`err`) chunks with id `r`
*before it* concatenate to exactly what the eval printed on that stream (and nothing with id `r`
follows it). -/
theorem output_complete_before_done (s : State) (h : Reachable s) (r : Nat) (st : Status)
    (pre post : List Msg) (hq : s.respQ = pre ++ Msg.done r st :: post) (k : Stream) :
    deliv k r pre = s.produced k r ∧ ∀ m ∈ post, m.rid ≠ r := by
  have hI := Inv_reachable h
  have hf : s.rstat r = .finished := done_finished hI (st := st) (by rw [hq]; simp)
  have hreq := hI.req r
  unfold RInv at hreq
  simp only [hf] at hreq
  have hph := hreq.1
  rw [hq] at hph
  unfold phase at hph
  rw [List.foldl_append, List.foldl_cons] at hph
  have hne : stepPhase r (List.foldl (stepPhase r) .open pre) (Msg.done r st) ≠ .open := by
    cases List.foldl (stepPhase r) Phase.open pre <;> simp [stepPhase, Msg.rid, Msg.isDone]
  have hpost := none_after_done r _ hne post hph
  refine ⟨?_, hpost⟩
  rw [hreq.2 k, hq, deliv_append]
  simp [deliv, chunkOf, deliv_none k r post hpost]

/-- **Sentence 2, quiescence.** Once `done r` is in the queue no worker holds `r` and no flusher
runs for `r`: nothing is buffered or in flight for it. -/
theorem done_quiescent (s : State) (h : Reachable s) (r : Nat) (st : Status)
    (hd : Msg.done r st ∈ s.respQ) (i : Nat) :
    cur (s.sess i).wpc ≠ some r ∧ fRid (s.sess i).fpc ≠ some r := by
  have hI := Inv_reachable h
  have hf := done_finished hI hd
  have hc : cur (s.sess i).wpc ≠ some r := by
    intro hc
    have := (hI.sess i).curr r hc
    rw [hf] at this; cases this
  refine ⟨hc, ?_⟩
  intro hfr
  have hp := (hI.sess i).pc
  unfold PcOk at hp
  cases hw : (s.sess i).wpc <;> simp only [hw] at hp hc <;> simp_all [fRid, cur]
  all_goals (rcases hp.1 with h1 | h1 <;> simp_all)

/-- **Sentence 3.** A transition changes the definitions of session `j` only if it is an
evaluation step *of session `j`* that defines something (or the `clone` that creates `j`). -/
theorem sessions_isolated (s s' : State) (l : Label) (hs : step s l = some s') (j : Nat)
    (hl : ∀ x v, l ≠ .wAct j (.define x v)) (hc : l ≠ .client .clone) :
    (s'.sess j).defs = (s.sess j).defs := by
  cases l <;> simp only [step] at hs <;>
    (repeat' (split at hs)) <;>
    (first
      | (simp only [reduceCtorEq] at hs; done)
      | (cases hs
         (try simp only [setSess, upd])
         all_goals (try split)
         all_goals (try simp_all)))

example : (run init [.client .clone, .client (.evalLike 1 .eval), .wDequeue 1, .wReset 1,
      .wStart 1 (.ok none), .wSpawn 1, .wTest 1, .wAct 1 (.print .out ['a']), .fTakeOut 1,
      .wFinish 1 (.lit ['1']), .wStop 1, .fSendOut 1, .fTakeErr 1, .fSendErr 1, .fStop 1, .wJoin 1,
      .wTakeOut 1, .wSendOut 1, .wTakeErr 1, .wSendErr 1, .wSend 1, .wSend 1]).map (·.respQ) =
    some [.done 0 (.newSession 1), .chunk .out 1 ['a'], .res 1 (.value ['1']), .done 1 .ok] := by
  decide

end C30
