import GardenVerif.Model.LspPos
/-! Lemmas about M9 `LspPos` used by `Props/C29.lean`. -/

namespace LspPos

/-! ### sizes -/

theorem utf8Len_pos (c : Char) : 0 < utf8Len c := Char.utf8Size_pos c

theorem utf16Len_pos (c : Char) : 0 < utf16Len c := by
  unfold utf16Len; split <;> omega

theorem utf16Len_le_utf8Len (c : Char) : utf16Len c ≤ utf8Len c := by
  unfold utf16Len utf8Len Char.utf8Size
  have : c.toNat = c.val.toNat := rfl
  split
  · have := Char.utf8Size_pos c; unfold Char.utf8Size at this; omega
  · rename_i h
    have h1 : ¬ c.val ≤ 127 := by
      intro h'; have := UInt32.le_iff_toNat_le.mp h'; simp at this; omega
    have h2 : ¬ c.val ≤ 2047 := by
      intro h'; have := UInt32.le_iff_toNat_le.mp h'; simp at this; omega
    have h3 : ¬ c.val ≤ 65535 := by
      intro h'; have := UInt32.le_iff_toNat_le.mp h'; simp at this; omega
    simp [h1, h2, h3]

@[simp] theorem utf8Len_nl : utf8Len '\n' = 1 := by decide

@[simp] theorem byteLen_nil : byteLen [] = 0 := rfl
@[simp] theorem byteLen_cons (c : Char) (cs : List Char) :
    byteLen (c :: cs) = utf8Len c + byteLen cs := rfl
@[simp] theorem utf16Count_nil : utf16Count [] = 0 := rfl
@[simp] theorem utf16Count_cons (c : Char) (cs : List Char) :
    utf16Count (c :: cs) = utf16Len c + utf16Count cs := rfl
@[simp] theorem countNl_nil : countNl [] = 0 := rfl
@[simp] theorem countNl_cons (c : Char) (cs : List Char) :
    countNl (c :: cs) = (if c = '\n' then 1 else 0) + countNl cs := rfl

theorem byteLen_append (a b : List Char) : byteLen (a ++ b) = byteLen a + byteLen b := by
  induction a with
  | nil => simp
  | cons c cs ih => simp [ih]; omega

theorem utf16Count_append (a b : List Char) :
    utf16Count (a ++ b) = utf16Count a + utf16Count b := by
  induction a with
  | nil => simp
  | cons c cs ih => simp [ih]; omega

theorem countNl_append (a b : List Char) : countNl (a ++ b) = countNl a + countNl b := by
  induction a with
  | nil => simp
  | cons c cs ih => simp [ih]; omega

theorem utf16Count_le_byteLen (l : List Char) : utf16Count l ≤ byteLen l := by
  induction l with
  | nil => simp
  | cons c cs ih => have := utf16Len_le_utf8Len c; simp; omega

theorem countNl_le_byteLen (l : List Char) : countNl l ≤ byteLen l := by
  induction l with
  | nil => simp
  | cons c cs ih => have := utf8Len_pos c; simp; split <;> omega

theorem countNl_eq_zero {l : List Char} (h : ∀ x ∈ l, x ≠ '\n') : countNl l = 0 := by
  induction l with
  | nil => rfl
  | cons c cs ih =>
    have hc : c ≠ '\n' := h c (by simp)
    simp [hc, ih (fun x hx => h x (by simp [hx]))]

/-! ### prefixes at byte offsets -/

theorem prefixAt_some {src pre : List Char} {o : Nat} (h : prefixAt src o = some pre) :
    ∃ post, src = pre ++ post ∧ byteLen pre = o := by
  induction src generalizing o pre with
  | nil =>
    cases o with
    | zero => simp [prefixAt] at h; subst h; exact ⟨[], rfl, rfl⟩
    | succ n => simp [prefixAt] at h
  | cons c cs ih =>
    cases o with
    | zero => simp [prefixAt] at h; subst h; exact ⟨c :: cs, rfl, rfl⟩
    | succ n =>
      simp only [prefixAt] at h
      split at h
      · rename_i hle
        cases hp : prefixAt cs (n + 1 - utf8Len c) with
        | none => simp [hp] at h
        | some p =>
          simp [hp] at h
          obtain ⟨post, h1, h2⟩ := ih hp
          subst h
          exact ⟨post, by simp [h1], by simp; omega⟩
      · simp at h

theorem prefixAt_byteLen (pre post : List Char) :
    prefixAt (pre ++ post) (byteLen pre) = some pre := by
  induction pre with
  | nil => simp [prefixAt]
  | cons c cs ih =>
    have hp := utf8Len_pos c
    simp only [List.cons_append, byteLen_cons]
    obtain ⟨n, hn⟩ : ∃ n, utf8Len c + byteLen cs = n + 1 := ⟨utf8Len c + byteLen cs - 1, by omega⟩
    rw [hn]
    simp only [prefixAt]
    have : utf8Len c ≤ n + 1 := by omega
    simp only [this, if_true]
    have : n + 1 - utf8Len c = byteLen cs := by omega
    rw [this, ih]; rfl

theorem isCharBoundary_iff (src : List Char) (o : Nat) :
    IsCharBoundary src o ↔ ∃ pre post, src = pre ++ post ∧ byteLen pre = o := by
  constructor
  · intro h
    unfold IsCharBoundary isCharBoundary at h
    cases hp : prefixAt src o with
    | none => simp [hp] at h
    | some pre =>
      obtain ⟨post, h1, h2⟩ := prefixAt_some hp
      exact ⟨pre, post, h1, h2⟩
  · rintro ⟨pre, post, rfl, rfl⟩
    unfold IsCharBoundary isCharBoundary
    simp [prefixAt_byteLen]

theorem lineOf_prefix (pre post : List Char) :
    lineOf (pre ++ post) (byteLen pre) = countNl pre := by
  induction pre with
  | nil => cases post <;> simp [lineOf]
  | cons c cs ih =>
    have hp := utf8Len_pos c
    simp only [List.cons_append, lineOf, byteLen_cons, countNl_cons]
    have h0 : ¬ (utf8Len c + byteLen cs = 0) := by omega
    have h1 : utf8Len c + byteLen cs - utf8Len c = byteLen cs := by omega
    simp only [h0, if_false, h1, ih]

/-! ### the last line of a prefix -/

theorem takeWhile_append_stop {p : Char → Bool} {x : Char} (hx : p x = false)
    (l r : List Char) : (l ++ x :: r).takeWhile p = l.takeWhile p := by
  induction l with
  | nil => simp [hx]
  | cons c cs ih => simp only [List.cons_append, List.takeWhile_cons, ih]

theorem mem_takeWhile_pos {p : Char → Bool} {l : List Char} {x : Char}
    (h : x ∈ l.takeWhile p) : p x = true := by
  induction l with
  | nil => simp at h
  | cons c cs ih =>
    rw [List.takeWhile_cons] at h
    split at h
    · simp only [List.mem_cons] at h
      rcases h with rfl | h
      · assumption
      · exact ih h
    · simp at h

theorem takeWhile_eq_self {p : Char → Bool} {l : List Char} (h : ∀ x ∈ l, p x = true) :
    l.takeWhile p = l := by
  induction l with
  | nil => rfl
  | cons c cs ih =>
    rw [List.takeWhile_cons, if_pos (h c (by simp)), ih (fun x hx => h x (by simp [hx]))]

theorem dropWhile_head_not {p : Char → Bool} {l : List Char} {d : Char} {ds : List Char}
    (h : l.dropWhile p = d :: ds) : p d = false := by
  induction l with
  | nil => simp at h
  | cons c cs ih =>
    rw [List.dropWhile_cons] at h
    split at h
    · exact ih h
    · rename_i hc
      injection h with h1 h2
      subst h1
      simpa using hc

theorem lastLine_of_noNl {l : List Char} (h : ∀ x ∈ l, x ≠ '\n') : lastLine l = l := by
  unfold lastLine
  have : l.reverse.takeWhile (fun c => c != '\n') = l.reverse := by
    apply takeWhile_eq_self
    intro x hx
    simp at hx
    simp [h x hx]
  rw [this, List.reverse_reverse]

theorem lastLine_append_nl (a b : List Char) : lastLine (a ++ '\n' :: b) = lastLine b := by
  unfold lastLine
  have : (a ++ '\n' :: b).reverse = b.reverse ++ '\n' :: a.reverse := by simp
  rw [this, takeWhile_append_stop (by simp)]

theorem lastLine_noNl (l : List Char) : ∀ x ∈ lastLine l, x ≠ '\n' := by
  intro x hx
  unfold lastLine at hx
  rw [List.mem_reverse] at hx
  have := mem_takeWhile_pos hx
  simpa using this

theorem lastLine_suffix (l : List Char) : ∃ a, l = a ++ lastLine l := by
  refine ⟨(l.reverse.dropWhile (fun c => c != '\n')).reverse, ?_⟩
  unfold lastLine
  rw [← List.reverse_append, List.takeWhile_append_dropWhile, List.reverse_reverse]

theorem lastLine_eq_nil_iff (l : List Char) :
    lastLine l = [] ↔ l = [] ∨ l.getLast? = some '\n' := by
  unfold lastLine
  rw [List.reverse_eq_nil_iff, ← List.head?_reverse]
  cases h : l.reverse with
  | nil => simp at h; simp [h]
  | cons c cs =>
    have hne : l ≠ [] := by intro h'; simp [h'] at h
    simp [List.takeWhile_cons, hne]

/-- Induction on the number of lines: a text is newline-free, or a newline-free line, a
newline, and a shorter text. -/
theorem nl_induction {P : List Char → Prop}
    (base : ∀ l, (∀ x ∈ l, x ≠ '\n') → P l)
    (step : ∀ a b, (∀ x ∈ a, x ≠ '\n') → P b → P (a ++ '\n' :: b)) : ∀ l, P l := by
  intro l
  generalize hn : l.length = n
  induction n using Nat.strongRecOn generalizing l with
  | _ n ih =>
    by_cases hall : ∀ x ∈ l, x ≠ '\n'
    · exact base l hall
    · have hsplit : l = l.takeWhile (fun c => c != '\n') ++ l.dropWhile (fun c => c != '\n') :=
        (List.takeWhile_append_dropWhile).symm
      have htw : ∀ x ∈ l.takeWhile (fun c => c != '\n'), x ≠ '\n' := by
        intro x hx; simpa using mem_takeWhile_pos hx
      cases hd : l.dropWhile (fun c => c != '\n') with
      | nil =>
        exfalso; apply hall
        rw [hd, List.append_nil] at hsplit
        rw [hsplit]; exact htw
      | cons d ds =>
        have hdnl : d = '\n' := by
          have := dropWhile_head_not hd
          simpa using this
        subst hdnl
        rw [hd] at hsplit
        have hlen : ds.length < n := by
          have := congrArg List.length hsplit
          simp at this; omega
        rw [hsplit]
        exact step _ ds htw (ih ds.length hlen ds rfl)

/-! ### `line_char_to_offset` on the position of a prefix -/

theorem findNl_append (a b : List Char) (ha : ∀ x ∈ a, x ≠ '\n') :
    findNl (a ++ '\n' :: b) = some (byteLen a, b) := by
  induction a with
  | nil => simp [findNl]
  | cons c cs ih =>
    have hc : c ≠ '\n' := ha c (by simp)
    simp [findNl, hc, ih (fun x hx => ha x (by simp [hx]))]

theorem findNl_none {l : List Char} (h : ∀ x ∈ l, x ≠ '\n') : findNl l = none := by
  induction l with
  | nil => rfl
  | cons c cs ih =>
    have hc : c ≠ '\n' := h c (by simp)
    simp [findNl, hc, ih (fun x hx => h x (by simp [hx]))]

/-- Skipping as many newlines as `pre` contains lands at the start of the last line of `pre`. -/
theorem skipLines_prefix (pre post : List Char) :
    ∃ k, skipLines (countNl pre) (pre ++ post) = some (k, lastLine pre ++ post) ∧
      k + byteLen (lastLine pre) = byteLen pre := by
  induction pre using nl_induction with
  | base l hl =>
    refine ⟨0, ?_, ?_⟩
    · simp [countNl_eq_zero hl, skipLines, lastLine_of_noNl hl]
    · simp [lastLine_of_noNl hl]
  | step a b ha ih =>
    obtain ⟨k, hk, hlen⟩ := ih
    refine ⟨byteLen a + 1 + k, ?_, ?_⟩
    · have hc : countNl (a ++ '\n' :: b) = countNl b + 1 := by
        simp [countNl_append, countNl_eq_zero ha]; omega
      rw [hc, lastLine_append_nl]
      simp only [skipLines, List.append_assoc, List.cons_append]
      rw [findNl_append a (b ++ post) ha]
      simp only [hk]
    · rw [lastLine_append_nl, byteLen_append]; simp; omega

theorem walkUnits_line (l post : List Char) (hl : ∀ x ∈ l, x ≠ '\n') (u : Nat) :
    walkUnits (u + utf16Count l) (l ++ post) u = byteLen l := by
  induction l generalizing u with
  | nil => cases post <;> simp [walkUnits]
  | cons c cs ih =>
    have hc : c ≠ '\n' := hl c (by simp)
    have hp := utf16Len_pos c
    have hlt : ¬ (u ≥ u + (utf16Len c + utf16Count cs)) := by omega
    simp only [List.cons_append, walkUnits, utf16Count_cons, hlt, hc, or_self, if_false, byteLen_cons]
    have : u + (utf16Len c + utf16Count cs) = (u + utf16Len c) + utf16Count cs := by omega
    rw [this, ih (fun x hx => hl x (by simp [hx]))]

/-- The heart of the round trip: the LSP position of the end of `pre`, converted back inside
`pre ++ post`, is the byte length of `pre`. -/
theorem lineCharToOffset_prefix (pre post : List Char) :
    lineCharToOffset (pre ++ post) (countNl pre) (utf16Count (lastLine pre)) = byteLen pre := by
  obtain ⟨k, hk, hlen⟩ := skipLines_prefix pre post
  unfold lineCharToOffset
  rw [hk]
  have := walkUnits_line (lastLine pre) post (lastLine_noNl pre) 0
  simp only [Nat.zero_add] at this
  simp only [this]; omega

theorem lineCharToOffset_zero (src : List Char) : lineCharToOffset src 0 0 = 0 := by
  cases src <;> simp [lineCharToOffset, skipLines, walkUnits]

theorem asU32_of_lt {n : Nat} (h : n < 4294967296) : asU32 n = n := by
  unfold asU32; omega

theorem lastLine_byteLen_le (l : List Char) : byteLen (lastLine l) ≤ byteLen l := by
  obtain ⟨a, ha⟩ := lastLine_suffix l
  have := congrArg byteLen ha
  rw [byteLen_append] at this; omega

theorem offsetToLspPosition_prefix (pre post : List Char) (line : Nat) :
    offsetToLspPosition (pre ++ post) (byteLen pre) line =
      some ⟨asU32 line, asU32 (utf16Count (lastLine pre))⟩ := by
  unfold offsetToLspPosition
  have : min (byteLen pre) (byteLen (pre ++ post)) = byteLen pre := by
    rw [byteLen_append]; omega
  simp only [this, prefixAt_byteLen]

/-! ### `str::lines()` and `whole_document_range` -/

theorem splitInclusive_noNl {l : List Char} (h : ∀ x ∈ l, x ≠ '\n') :
    splitInclusive l = if l = [] then [] else [l] := by
  induction l with
  | nil => rfl
  | cons c cs ih =>
    have hc : c ≠ '\n' := h c (by simp)
    have := ih (fun x hx => h x (by simp [hx]))
    simp only [splitInclusive, hc, if_false, this]
    by_cases hcs : cs = [] <;> simp [hcs]

theorem splitInclusive_append_nl (a b : List Char) (ha : ∀ x ∈ a, x ≠ '\n') :
    splitInclusive (a ++ '\n' :: b) = (a ++ ['\n']) :: splitInclusive b := by
  induction a with
  | nil => simp [splitInclusive]
  | cons c cs ih =>
    have hc : c ≠ '\n' := ha c (by simp)
    simp [splitInclusive, hc, ih (fun x hx => ha x (by simp [hx]))]

theorem splitInclusive_eq_nil_iff (l : List Char) : splitInclusive l = [] ↔ l = [] := by
  cases l with
  | nil => simp [splitInclusive]
  | cons c cs =>
    simp only [splitInclusive]
    split
    · simp
    · split <;> simp

/-- Number of pieces, and the last piece when the text does not end in a newline. -/
theorem splitInclusive_shape (l : List Char) :
    (splitInclusive l).length = countNl l + (if lastLine l = [] then 0 else 1) ∧
    (lastLine l ≠ [] → (splitInclusive l).getLast? = some (lastLine l)) := by
  induction l using nl_induction with
  | base l hl =>
    rw [splitInclusive_noNl hl, lastLine_of_noNl hl, countNl_eq_zero hl]
    by_cases h : l = [] <;> simp [h]
  | step a b ha ih =>
    rw [splitInclusive_append_nl a b ha, lastLine_append_nl, countNl_append, countNl_eq_zero ha]
    refine ⟨by simp [ih.1]; omega, ?_⟩
    intro hne
    have hb : splitInclusive b ≠ [] := by
      intro h
      rw [splitInclusive_eq_nil_iff] at h
      subst h; simp [lastLine] at hne
    rw [List.getLast?_cons_of_ne_nil hb]
    exact ih.2 hne

theorem stripLineEnd_of_noNl {l : List Char} (h : ∀ x ∈ l, x ≠ '\n') : stripLineEnd l = l := by
  unfold stripLineEnd
  have : l.getLast? ≠ some '\n' := by
    intro hl
    exact h '\n' (List.mem_of_getLast? hl) rfl
  simp [this]

/-- `whole_document_range` in closed form: its end is the LSP position of the end of the
document in the implementation's own line model. No hypothesis on `'\r'`. -/
theorem wholeDocumentRange_eq (src : List Char) :
    wholeDocumentRange src =
      ⟨⟨0, 0⟩, ⟨asU32 (countNl src), asU32 (utf16Count (lastLine src))⟩⟩ := by
  unfold wholeDocumentRange
  obtain ⟨hlen, hlast⟩ := splitInclusive_shape src
  by_cases h0 : src = []
  · subst h0; simp [lastLine]
  · have he : src.isEmpty = false := by cases src <;> simp_all
    simp only [he, Bool.false_eq_true, if_false]
    by_cases h1 : src.getLast? = some '\n'
    · have hl : lastLine src = [] := (lastLine_eq_nil_iff src).mpr (Or.inr h1)
      simp only [h1, if_true, rustLines, List.length_map, hlen, hl, utf16Count_nil]
      simp
    · have hl : lastLine src ≠ [] := by
        intro h; rcases (lastLine_eq_nil_iff src).mp h with h | h
        · exact h0 h
        · exact h1 h
      simp only [h1, if_false, rustLines, List.length_map, hlen, hl, List.getLast?_map, hlast hl,
        Option.map_some, stripLineEnd_of_noNl (lastLine_noNl src)]
      simp

/-! ### the specification's line model under `NoBareCR` -/

theorem noBareCR_cons {c : Char} {cs : List Char} (h : noBareCR (c :: cs) = true) :
    noBareCR cs = true := by
  simp [noBareCR] at h; exact h.2

theorem noBareCR_append_right (a b : List Char) (h : noBareCR (a ++ b) = true) :
    noBareCR b = true := by
  induction a with
  | nil => simpa using h
  | cons c cs ih => exact ih (noBareCR_cons h)

theorem specDropLine_eq_findNl (s : List Char) (h : noBareCR s = true) :
    specDropLine s = (findNl s).map (·.2) := by
  induction s with
  | nil => rfl
  | cons c cs ih =>
    have hcs := noBareCR_cons h
    by_cases hc : c = '\n'
    · simp [specDropLine, findNl, hc]
    · by_cases hr : c = '\r'
      · subst hr
        simp [noBareCR] at h
        cases cs with
        | nil => simp at h
        | cons d ds =>
          have hd : d = '\n' := by simpa using h.1
          subst hd
          simp [specDropLine, findNl]
      · simp only [specDropLine, findNl, hc, hr, if_false, ih hcs]
        cases findNl cs <;> rfl

theorem noBareCR_findNl {s r : List Char} {k : Nat} (h : noBareCR s = true)
    (hf : findNl s = some (k, r)) : noBareCR r = true := by
  induction s generalizing k with
  | nil => simp [findNl] at hf
  | cons c cs ih =>
    have hcs := noBareCR_cons h
    simp only [findNl] at hf
    split at hf
    · injection hf with hf; injection hf with _ hr; subst hr; exact hcs
    · cases hf' : findNl cs with
      | none => simp [hf'] at hf
      | some p =>
        obtain ⟨k', r'⟩ := p
        simp [hf'] at hf
        obtain ⟨_, rfl⟩ := hf
        exact ih hcs hf'

theorem specSkipLines_eq_skipLines (n : Nat) (s : List Char) (h : noBareCR s = true) :
    specSkipLines n s = (skipLines n s).map (·.2) := by
  induction n generalizing s with
  | zero => rfl
  | succ n ih =>
    simp only [specSkipLines, skipLines, specDropLine_eq_findNl s h]
    cases hf : findNl s with
    | none => rfl
    | some p =>
      obtain ⟨i, rest⟩ := p
      simp only [Option.map_some]
      rw [ih rest (noBareCR_findNl h hf)]
      cases skipLines n rest <;> rfl

theorem specWalk_line (l post : List Char) (hl : ∀ x ∈ l, x ≠ '\n' ∧ x ≠ '\r') (u : Nat) :
    specWalk (u + utf16Count l) (l ++ post) u = post := by
  induction l generalizing u with
  | nil => cases post <;> simp [specWalk]
  | cons c cs ih =>
    have hc := hl c (by simp)
    have hp := utf16Len_pos c
    have hlt : ¬ (u ≥ u + (utf16Len c + utf16Count cs)) := by omega
    simp only [List.cons_append, specWalk, utf16Count_cons, hlt, hc.1, hc.2, or_self, if_false]
    have : u + (utf16Len c + utf16Count cs) = (u + utf16Len c) + utf16Count cs := by omega
    rw [this, ih (fun x hx => hl x (by simp [hx]))]

/-- In a document without bare CR, a newline-free stretch that is followed by the rest of the
document and does not end in `'\r'` contains no `'\r'`. -/
theorem noCR_of_noBareCR (l post : List Char) (h : noBareCR (l ++ post) = true)
    (hnl : ∀ x ∈ l, x ≠ '\n') (hlast : l.getLast? ≠ some '\r') : ∀ x ∈ l, x ≠ '\r' := by
  induction l with
  | nil => simp
  | cons c cs ih =>
    intro x hx
    simp only [List.mem_cons] at hx
    have hcs : noBareCR (cs ++ post) = true := noBareCR_cons h
    have hlast' : cs ≠ [] → cs.getLast? ≠ some '\r' := by
      intro hne; rwa [List.getLast?_cons_of_ne_nil hne] at hlast
    rcases hx with rfl | hx
    · intro hr
      subst hr
      cases cs with
      | nil => simp at hlast
      | cons d ds =>
        simp [noBareCR] at h
        exact hnl d (by simp) h.1
    · cases cs with
      | nil => simp at hx
      | cons d ds =>
        exact ih hcs (fun y hy => hnl y (by simp [hy])) (hlast' (by simp)) x hx

theorem lastLine_getLast? (pre : List Char) (h : lastLine pre ≠ []) :
    (lastLine pre).getLast? = pre.getLast? := by
  obtain ⟨a, ha⟩ := lastLine_suffix pre
  conv => rhs; rw [ha]
  rw [List.getLast?_append]
  cases hl : (lastLine pre).getLast? with
  | none => exact absurd (List.getLast?_eq_none_iff.mp hl) h
  | some x => rfl

/-- The specification's reading of the implementation's position for the end of `pre`:
exactly the suffix after `pre`, provided the document has no bare CR and the position is not
between the `\r` and `\n` of a CRLF. -/
theorem specSeek_prefix (pre post : List Char) (h : noBareCR (pre ++ post) = true)
    (hcr : pre.getLast? ≠ some '\r') :
    specSeek (pre ++ post) (countNl pre) (utf16Count (lastLine pre)) = post := by
  obtain ⟨k, hk, _⟩ := skipLines_prefix pre post
  unfold specSeek
  rw [specSkipLines_eq_skipLines _ _ h, hk]
  simp only [Option.map_some]
  obtain ⟨a, ha⟩ := lastLine_suffix pre
  have hsuf : noBareCR (lastLine pre ++ post) = true := by
    apply noBareCR_append_right a
    rw [← List.append_assoc, ← ha]; exact h
  have hlast : (lastLine pre).getLast? ≠ some '\r' := by
    by_cases hne : lastLine pre = []
    · simp [hne]
    · rw [lastLine_getLast? pre hne]; exact hcr
  have hnocr := noCR_of_noBareCR (lastLine pre) post hsuf (lastLine_noNl pre) hlast
  have := specWalk_line (lastLine pre) post (fun x hx => ⟨lastLine_noNl pre x hx, hnocr x hx⟩) 0
  simpa using this

theorem noBareCR_getLast? (l : List Char) (h : noBareCR l = true) : l.getLast? ≠ some '\r' := by
  induction l with
  | nil => simp
  | cons c cs ih =>
    cases cs with
    | nil => simp [noBareCR] at h; simpa using h
    | cons d ds =>
      rw [List.getLast?_cons_of_ne_nil (by simp)]
      exact ih (noBareCR_cons h)

end LspPos
