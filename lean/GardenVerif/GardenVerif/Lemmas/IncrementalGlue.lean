import GardenVerif.Lemmas.IncrementalRun
/-!
Helper lemmas for C11 (incremental = batch): the reference run of a whole history (`canon`) and the
two simulations glued over it — `incremental_of_canon` (the real incremental session is the
reference run with further values below frame 0's) and `batch_of_canon` (the concatenated request
runs through the same states with the later inputs' entries below).
-/
set_option linter.unusedVariables false
set_option linter.unusedSimpArgs false

namespace Incr
open Machine Resume

-- ------------------------------------------------------------------ the reference run

/-- the program after loading an input's definitions (`Resume.load` on the program) -/
def loadP (p : Program) (i : Input) : Program :=
  { funs := p.funs ++ i.funs, enums := p.enums ++ i.enums, toplevel := p.toplevel }

theorem load_prog (s : State) (i : Input) : (load s i).prog = loadP s.prog i := rfl

/-- The state in which the reference run starts a request: definitions loaded, the input's
expressions pending, frame 0's value stack EMPTY, `stop_at_expr_id` at the last expression. -/
def startC (s : State) (i : Input) (last : Expr) : State :=
  { load s i with
    stopAt := some last.id,
    frames := s.frames.map (fun f => { f with exprs := i.exprs.map (fun e => (St.N, e)), values := [] }) }

/-- One request of the reference run (`ob` as in `evalC`). -/
def requestC (ob : Option Nat) (fuel : Nat) (s : State) (i : Input) : Option (State × Option Value) :=
  match i.exprs.getLast? with
  | none => some (load s i, none)
  | some last =>
    match evalC ob fuel (startC s i last) with
    | some (s', v) => some ({ s' with stopAt := s.stopAt }, some v)
    | none => none

/-- **The reference run of a history**: every request but the last with the guard for the node `b`
the concatenated run stops at. -/
def canon (b : Nat) (fuel : Nat) : State → List Input → Option (State × Option Value)
  | s, [] => some (s, none)
  | s, [i] => requestC none fuel s i
  | s, i :: i2 :: rest =>
    match requestC (some b) fuel s i with
    | some (s', _) => canon b fuel s' (i2 :: rest)
    | none => none

/-- between requests: one frame, nothing pending -/
def Rest (s : State) : Prop := ∃ f, s.frames = [f] ∧ f.exprs = []

theorem settled_Rest (s : State) (h : settled s = true) : Rest s := by
  unfold settled at h
  match hf : s.frames, h with
  | [f], h => exact ⟨f, hf, by simpa [hf] using h⟩
  | [], h => simp [hf] at h
  | _ :: _ :: _, h => simp [hf] at h

theorem evalC_settled (ob : Option Nat) : ∀ (n : Nat) (c c' : State) (v : Value),
    evalC ob n c = some (c', v) → settled c' = true := by
  intro n
  induction n with
  | zero => intro c c' v h; simp [evalC] at h
  | succ n ih =>
    intro c c' v h
    by_cases hg : guardO ob c = true
    · simp only [evalC, hg, if_true] at h
      cases hs : step c with
      | cont c1 => simp only [hs] at h; exact ih c1 c' v h
      | done c1 v1 =>
        simp only [hs] at h
        by_cases hc : endOK c c1 = true
        · simp only [hc, if_true, Option.some.injEq, Prod.mk.injEq] at h
          obtain ⟨h1, _⟩ := h; subst h1
          simp only [endOK, Bool.and_eq_true] at hc; exact hc.1
        · simp [hc] at h
      | error s e => simp [hs] at h
      | panic site => simp [hs] at h
      | unsupported w => simp [hs] at h
    · simp [evalC, hg] at h

theorem requestC_Rest (ob : Option Nat) (fuel : Nat) (s s' : State) (i : Input) (ov : Option Value)
    (hr : Rest s) (h : requestC ob fuel s i = some (s', ov)) : Rest s' := by
  unfold requestC at h
  split at h
  · simp at h; obtain ⟨h1, _⟩ := h; subst h1; exact hr
  · split at h
    · rename_i c' v he
      simp at h
      obtain ⟨h1, _⟩ := h; subst h1
      obtain ⟨f, hf, hx⟩ := settled_Rest _ (evalC_settled ob fuel _ c' v he)
      exact ⟨f, hf, hx⟩
    · simp at h

theorem step_done_prog (s s' : State) (v : Value) (h : step s = .done s' v) : s'.prog = s.prog := by
  unfold step at h
  match hf : s.frames with
  | [] => simp [hf] at h
  | f :: callers =>
    simp only [hf] at h
    match he : f.exprs with
    | [] =>
      simp only [he] at h
      cases callers with
      | nil =>
        cases hv : f.values with
        | nil => simp [hv] at h
        | cons w ws => simp [hv] at h; obtain ⟨h1, _⟩ := h; subst h1; simp [setTop, hf]
      | cons caller rest =>
        cases hv : f.values with
        | nil => simp [hv] at h
        | cons w ws =>
          simp only [hv] at h
          split at h <;> simp at h
          obtain ⟨h1, _⟩ := h; subst h1; rfl
    | (st, e0) :: rest =>
      simp only [he] at h
      repeat' split at h
      all_goals (try (unfold stopCheck at h; repeat' split at h))
      all_goals (try (simp at h))
      all_goals (try (obtain ⟨h1, _⟩ := h; subst h1; simp [setTop, hf]))

theorem evalC_prog (ob : Option Nat) : ∀ (n : Nat) (c c' : State) (v : Value),
    evalC ob n c = some (c', v) → c'.prog = c.prog := by
  intro n
  induction n with
  | zero => intro c c' v h; simp [evalC] at h
  | succ n ih =>
    intro c c' v h
    by_cases hg : guardO ob c = true
    · simp only [evalC, hg, if_true] at h
      cases hs : step c with
      | cont c1 => simp only [hs] at h; rw [ih c1 c' v h, C11.step_cont_prog c c1 hs]
      | done c1 v1 =>
        simp only [hs] at h
        by_cases hc : endOK c c1 = true
        · simp only [hc, if_true, Option.some.injEq, Prod.mk.injEq] at h
          obtain ⟨h1, _⟩ := h; subst h1
          exact step_done_prog c c1 v1 hs
        · simp [hc] at h
      | error s e => simp [hs] at h
      | panic site => simp [hs] at h
      | unsupported w => simp [hs] at h
    · simp [evalC, hg] at h

-- ------------------------------------------------------------------ the incremental session

/-- **One real request = one reference request with further values below.** -/
theorem request_of_requestC (ob : Option Nat) (fuel : Nat) (C C' : State) (i : Input) (ov : Option Value)
    (RI : List Value) (hr : Rest C) (h : requestC ob fuel C i = some (C', ov)) :
    ∃ RI', request fuel (LF [] RI C.stopAt C) i = .value (LF [] RI' C'.stopAt C') ov := by
  obtain ⟨fc, hfc, hex⟩ := hr
  unfold requestC at h
  unfold request
  cases hl : i.exprs.getLast? with
  | none =>
    simp only [hl] at h ⊢
    simp at h
    obtain ⟨h1, h2⟩ := h
    subst h1 h2
    exact ⟨RI, by simp [load, LF]⟩
  | some last =>
    simp only [hl] at h ⊢
    cases he : evalC ob fuel (startC C i last) with
    | none => simp [he] at h
    | some r =>
      obtain ⟨c', v⟩ := r
      simp [he] at h
      obtain ⟨h1, h2⟩ := h
      subst h1 h2
      have hst : ({ setExprs (load (LF [] RI C.stopAt C) i) i.exprs with stopAt := some last.id } : State) =
          LF [] (fc.values ++ RI) (some last.id) (startC C i last) := by
        simp [setExprs, load, LF, startC, hfc, mapLast, fx]
      have hseg := seg_same (fc.values ++ RI) ob fuel (startC C i last) c' v (some last.id) rfl he
      refine ⟨fc.values ++ RI, ?_⟩
      simp only [hst, hseg]
      simp [LF, load]

theorem incremental_of_canon (b : Nat) (fuel : Nat) : ∀ (is : List Input) (C C' : State) (ov : Option Value)
    (RI : List Value), Rest C → canon b fuel C is = some (C', ov) →
    ∃ RI', incremental fuel (LF [] RI C.stopAt C) is = .value (LF [] RI' C'.stopAt C') ov
  | [], C, C', ov, RI, hr, h => by
    simp [canon] at h
    obtain ⟨h1, h2⟩ := h
    subst h1 h2
    exact ⟨RI, by simp [incremental]⟩
  | [i], C, C', ov, RI, hr, h => by
    simp only [canon] at h
    simpa [incremental] using request_of_requestC none fuel C C' i ov RI hr h
  | i :: i2 :: rest, C, C', ov, RI, hr, h => by
    simp only [canon] at h
    cases hq : requestC (some b) fuel C i with
    | none => simp [hq] at h
    | some r =>
      obtain ⟨C1, ov1⟩ := r
      simp only [hq] at h
      obtain ⟨RI1, h1⟩ := request_of_requestC (some b) fuel C C1 i ov1 RI hr hq
      obtain ⟨RI', h2⟩ := incremental_of_canon b fuel (i2 :: rest) C1 C' ov RI1 (requestC_Rest _ _ _ _ _ _ hr hq) h
      exact ⟨RI', by simp only [incremental, h1]; exact h2⟩

-- ------------------------------------------------------------------ the concatenated request

theorem guardO_withProg (ob : Option Nat) (p' : Program) (c : State) :
    guardO ob (C11.withProg p' c) = guardO ob c := by cases ob <;> rfl

theorem evalC_mono (p' : Program) (ob : Option Nat) : ∀ (n : Nat) (c c' : State) (v : Value),
    C11.Ext c.prog p' → evalC ob n c = some (c', v) →
    evalC ob n (C11.withProg p' c) = some (C11.withProg p' c', v) := by
  intro n
  induction n with
  | zero => intro c c' v _ h; simp [evalC] at h
  | succ n ih =>
    intro c c' v hx h
    by_cases hg : guardO ob c = true
    · simp only [evalC, hg, guardO_withProg, if_true] at h ⊢
      cases hs : step c with
      | cont c1 =>
        simp only [hs] at h
        have hm := C11.step_mono c p' hx (by simp [hs, C11.okStep])
        rw [hs] at hm
        simp only [hm, C08.mapState]
        exact ih c1 c' v (by rw [C11.step_cont_prog c c1 hs]; exact hx) h
      | done c1 v1 =>
        simp only [hs] at h
        have hm := C11.step_mono c p' hx (by simp [hs, C11.okStep])
        rw [hs] at hm
        simp only [hm, C08.mapState]
        have he : endOK (C11.withProg p' c) (C11.withProg p' c1) = endOK c c1 := rfl
        rw [he]
        by_cases hc : endOK c c1 = true
        · simp only [hc, if_true, Option.some.injEq, Prod.mk.injEq] at h ⊢
          obtain ⟨h1, h2⟩ := h
          subst h1 h2
          exact ⟨rfl, rfl⟩
        · simp [hc] at h
      | error s e => simp [hs] at h
      | panic site => simp [hs] at h
      | unsupported w => simp [hs] at h
    · simp [evalC, hg] at h

/-- every prefix program is extended by the program of the whole history -/
def ExtAll (pall : Program) : Program → List Input → Prop
  | _, [] => True
  | p, i :: rest => C11.Ext (loadP p i) pall ∧ ExtAll pall (loadP p i) rest

/-- `b` is the id of the last expression of the last input -/
def LastIs (b : Nat) : List Input → Prop
  | [] => True
  | [i] => ∀ last, i.exprs.getLast? = some last → last.id = b
  | _ :: i2 :: rest => LastIs b (i2 :: rest)

def allExprs (is : List Input) : List (St × Expr) := (is.flatMap (·.exprs)).map (fun e => (St.N, e))

theorem eval_add (m : Nat) : ∀ (s s' : State) (v : Value), Resume.eval m s = .done s' v →
    ∀ k, Resume.eval (m + k) s = .done s' v := by
  induction m with
  | zero => intro s s' v h; simp [Resume.eval] at h
  | succ m ih =>
    intro s s' v h k
    rw [show m + 1 + k = (m + k) + 1 by omega]
    simp only [Resume.eval] at h ⊢
    cases hs : step s with
    | cont s1 => simp only [hs] at h ⊢; exact ih s1 s' v h k
    | done s1 v1 => simp only [hs] at h ⊢; exact h
    | error s1 e => simp [hs] at h
    | panic site => simp [hs] at h
    | unsupported w => simp [hs] at h

/-- **The concatenated request runs through the reference run**, the later inputs' entries and
some values below. -/
theorem batch_of_canon (b : Nat) (fuel : Nat) (pall : Program) : ∀ (is : List Input) (C C' : State)
    (v : Value) (RB : List Value), Rest C → canon b fuel C is = some (C', some v) →
    ExtAll pall C.prog is → LastIs b is →
    ∃ (m : Nat) (RB' : List Value),
      Resume.eval m (LFend (allExprs is) RB (some b) (C11.withProg pall C)) =
        .done (LF [] RB' (some b) (C11.withProg pall C')) v
  | [], C, C', v, RB, hr, h, hx, hl => by simp [canon] at h
  | [i], C, C', v, RB, hr, h, hx, hl => by
    obtain ⟨fc, hfc, hex⟩ := hr
    simp only [canon, requestC] at h
    cases hlast : i.exprs.getLast? with
    | none => simp [hlast] at h
    | some last =>
      simp only [hlast] at h
      cases he : evalC none fuel (startC C i last) with
      | none => simp [he] at h
      | some r =>
        obtain ⟨c', v'⟩ := r
        simp [he] at h
        obtain ⟨hC', hv⟩ := h
        subst hv hC'
        have hb : last.id = b := hl last hlast
        have hext : C11.Ext (startC C i last).prog pall := hx.1
        have hm := evalC_mono pall none fuel _ c' v' hext he
        have hseg := seg_same RB none fuel _ _ v' (some last.id) rfl hm
        refine ⟨fuel, RB, ?_⟩
        have hfin : LF [] RB (some b) (C11.withProg pall { c' with stopAt := C.stopAt }) =
            LF [] RB (some last.id) (C11.withProg pall c') := by
          simp [LF, C11.withProg, hb]
        rw [hfin]
        have hst : LFend (allExprs [i]) RB (some b) (C11.withProg pall C) =
            LF [] RB (some last.id) (C11.withProg pall (startC C i last)) := by
          simp [LFend, LF, C11.withProg, startC, load, hfc, mapLast, fx, allExprs, hb]
        rw [hst]
        exact hseg
  | i :: i2 :: rest, C, C', v, RB, hr, h, hx, hl => by
    obtain ⟨fc, hfc, hex⟩ := hr
    simp only [canon] at h
    cases hq : requestC (some b) fuel C i with
    | none => simp [hq] at h
    | some r =>
      obtain ⟨C1, ov1⟩ := r
      simp only [hq] at h
      have hr1 : Rest C1 := requestC_Rest _ _ _ _ _ _ ⟨fc, hfc, hex⟩ hq
      have hall : allExprs (i :: i2 :: rest) = i.exprs.map (fun e => (St.N, e)) ++ allExprs (i2 :: rest) := by
        simp [allExprs]
      unfold requestC at hq
      cases hlast : i.exprs.getLast? with
      | none =>
        simp [hlast] at hq
        obtain ⟨hq1, _⟩ := hq
        subst hq1
        have hnil : i.exprs = [] := by
          cases hxs : i.exprs with
          | nil => rfl
          | cons x xs => simp [hxs] at hlast
        obtain ⟨m, RB', hm⟩ := batch_of_canon b fuel pall (i2 :: rest) (load C i) C' v RB hr1 h hx.2 hl
        refine ⟨m, RB', ?_⟩
        have : LFend (allExprs (i :: i2 :: rest)) RB (some b) (C11.withProg pall C) =
            LFend (allExprs (i2 :: rest)) RB (some b) (C11.withProg pall (load C i)) := by
          rw [hall, hnil]; simp [LFend, C11.withProg, load]
        rw [this]; exact hm
      | some last =>
        simp only [hlast] at hq
        cases he : evalC (some b) fuel (startC C i last) with
        | none => simp [he] at hq
        | some r =>
          obtain ⟨c', v0⟩ := r
          simp [he] at hq
          obtain ⟨hq1, _⟩ := hq
          have hext : C11.Ext (startC C i last).prog pall := hx.1
          have hm := evalC_mono pall (some b) fuel _ c' v0 hext he
          obtain ⟨m1, R', hseg⟩ := seg_diff (allExprs (i2 :: rest)) b fuel _ _ v0 RB hm
          have hC1prog : C1.prog = loadP C.prog i := by
            subst hq1
            have := evalC_prog (some b) fuel _ c' v0 he
            simpa [startC, load_prog] using this
          obtain ⟨m2, RB', hm2⟩ := batch_of_canon b fuel pall (i2 :: rest) C1 C' v R' hr1 h
            (by rw [hC1prog]; exact hx.2) hl
          refine ⟨m1 + m2, RB', ?_⟩
          have hst : LFend (allExprs (i :: i2 :: rest)) RB (some b) (C11.withProg pall C) =
              LF (allExprs (i2 :: rest)) RB (some b) (C11.withProg pall (startC C i last)) := by
            rw [hall]
            simp [LFend, LF, C11.withProg, startC, load, hfc, mapLast, fx]
          have hend : LFend (allExprs (i2 :: rest)) R' (some b) (C11.withProg pall c') =
              LFend (allExprs (i2 :: rest)) R' (some b) (C11.withProg pall C1) := by
            subst hq1; simp [LFend, C11.withProg]
          rw [hst, hseg m2, hend]
          exact hm2

theorem requestC_prog (ob : Option Nat) (fuel : Nat) (s s' : State) (i : Input) (ov : Option Value)
    (h : requestC ob fuel s i = some (s', ov)) : s'.prog = loadP s.prog i := by
  unfold requestC at h
  split at h
  · simp at h; obtain ⟨h1, _⟩ := h; subst h1; rfl
  · split at h
    · rename_i c' v he
      simp at h
      obtain ⟨h1, _⟩ := h; subst h1
      have := evalC_prog ob fuel _ c' v he
      simpa [startC, load_prog] using this
    · simp at h

theorem loadP_concat_cons (p : Program) (i : Input) (rest : List Input) :
    loadP p (concatInputs (i :: rest)) = loadP (loadP p i) (concatInputs rest) := by
  simp [loadP, concatInputs, List.flatMap_cons, List.append_assoc]

/-- the reference run ends with all definitions loaded -/
theorem canon_prog (b fuel : Nat) : ∀ (is : List Input) (C C' : State) (ov : Option Value),
    canon b fuel C is = some (C', ov) → C'.prog = loadP C.prog (concatInputs is)
  | [], C, C', ov, h => by
    simp [canon] at h; obtain ⟨h1, _⟩ := h; subst h1
    simp [loadP, concatInputs]
  | [i], C, C', ov, h => by
    simp only [canon] at h
    rw [requestC_prog none fuel C C' i ov h]
    simp [loadP, concatInputs]
  | i :: i2 :: rest, C, C', ov, h => by
    simp only [canon] at h
    cases hq : requestC (some b) fuel C i with
    | none => simp [hq] at h
    | some r =>
      obtain ⟨C1, ov1⟩ := r
      simp only [hq] at h
      rw [canon_prog b fuel (i2 :: rest) C1 C' ov h, requestC_prog _ _ _ _ _ _ hq, loadP_concat_cons C.prog i]

theorem mapLast_blocks (T : List (St × Expr)) (R : List Value) : ∀ (l : List Frame),
    (mapLast (fx T R) l).map (·.blocks) = l.map (·.blocks)
  | [] => rfl
  | [f] => rfl
  | f :: f2 :: rest => by simp [mapLast, mapLast_blocks T R (f2 :: rest)]

end Incr
