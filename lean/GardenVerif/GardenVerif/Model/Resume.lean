import GardenVerif.Model.Machine
/-!
M6 (the part C07 and C11 need): the JSON session's `run` requests with source text and its
`:resume` command, on top of the evaluator model M4 (`Machine.step`).

* `eval` (src/eval.rs) = iterate `Machine.step` until it returns (`Resume.eval`).
* `:resume` (src/json_session.rs `handle_run_request`, `EvalAction::Resume`) = `eval` on the
  stack as it is (`Resume.resume`).
* a `run` request whose input is source (`handle_run_eval_request`): load the input's definitions
  into the (persistent) environment, then `eval_toplevel_exprs_then_stop`: REPLACE the current
  frame's `exprs_to_eval` by the input's toplevel expressions, set `stop_at_expr_id` to the last
  one, `eval`, put `stop_at_expr_id` back (`Resume.request`). With no toplevel expression nothing
  is evaluated and the value is `None`.

The session state is one `Machine.State` (one `Env` lives for the whole session): the program's
definitions, frame 0 with its value stack and first binding block, persist between requests.
Import-free apart from the machine model (the driver links it).
-/

namespace Resume
open Machine

/-- Result of one `eval` call. -/
inductive Outcome where
  | done (s : State) (v : Value)
  | error (s : State) (e : Err)
  | panic (site : String)
  | unsupported (what : String)
  | outOfFuel

/-- `eval`: the loop around `Machine.step`. -/
def eval : Nat → State → Outcome
  | 0, _ => .outOfFuel
  | n + 1, s =>
    match step s with
    | .cont s' => eval n s'
    | .done s' v => .done s' v
    | .error s' e => .error s' e
    | .panic site => .panic site
    | .unsupported w => .unsupported w

/-- `:resume`: `eval` on the stack as it is. -/
def resume (fuel : Nat) (s : State) : Outcome := eval fuel s

/-- The observable part of a response to `run`/`:resume`: the error kind and the node the
failed entry belongs to (top pending entry of the current frame after the restore), or the value. -/
def topEntry (s : State) : Option (St × Nat) :=
  match s.frames with
  | f :: _ => match f.exprs with
    | (st, e) :: _ => some (st, e.id)
    | [] => none
  | [] => none

/-- Responses of: `eval` on `s`, then `:resume` × `k` as long as the session is stopped at an
error (a finished evaluation or a crash ends the list). -/
def resumes (fuel : Nat) : Nat → State → List Outcome
  | 0, s => [eval fuel s]
  | k + 1, s =>
    match eval fuel s with
    | .error s' e => .error s' e :: resumes fuel k s'
    | o => [o]

/-- What a response shows: the error kind and the entry the session is stopped at (plus, for the
model-level witnesses, the number of pending entries and values of the current frame). -/
inductive Obs where
  | value
  | error (e : Err) (top : Option (St × Nat)) (pending values : Nat)
  | panic (site : String)
  | unsupported
  | outOfFuel
  deriving DecidableEq, Repr

def Outcome.obs : Outcome → Obs
  | .done _ _ => .value
  | .error s e =>
    match s.frames with
    | f :: _ => .error e (topEntry s) f.exprs.length f.values.length
    | [] => .error e none 0 0
  | .panic site => .panic site
  | .unsupported _ => .unsupported
  | .outOfFuel => .outOfFuel

/-- Observable responses of a failing `run` followed by `k` `:resume`s. -/
def observe (fuel k : Nat) (s : State) : List Obs := (resumes fuel k s).map Outcome.obs

-- ------------------------------------------------------------------ `run` requests (C11)

/-- One parsed source input: its definitions and its toplevel expressions in order. -/
structure Input where
  funs : List FunDef
  enums : List EnumDef
  exprs : List Expr

/-- `load_toplevel_items_with_stubs`: add the input's definitions to the environment. (A later
definition of the same name replaces the earlier one in the real namespace; the model's lookup
takes the first. C11 assumes names are defined once, so the two agree.) -/
def load (s : State) (i : Input) : State :=
  { s with prog := { funs := s.prog.funs ++ i.funs, enums := s.prog.enums ++ i.enums,
                     toplevel := s.prog.toplevel } }

/-- `eval_toplevel_exprs`: replace the current frame's pending entries. -/
def setExprs (s : State) (exprs : List Expr) : State :=
  match s.frames with
  | f :: rest => { s with frames := { f with exprs := exprs.map (fun e => (St.N, e)) } :: rest }
  | [] => s

inductive Reply where
  /-- `Ok(value)`; `none` when the input had no toplevel expression -/
  | value (s : State) (v : Option Value)
  | error (s : State) (e : Err)
  | panic (site : String)
  | unsupported (what : String)
  | outOfFuel

/-- One `run` request with source text (`handle_run_eval_request`). -/
def request (fuel : Nat) (s : State) (i : Input) : Reply :=
  let s := load s i
  match i.exprs.getLast? with
  | none => .value s none
  | some last =>
    let old := s.stopAt
    match eval fuel { setExprs s i.exprs with stopAt := some last.id } with
    | .done s' v => .value { s' with stopAt := old } (some v)
    | .error s' e => .error { s' with stopAt := old } e
    | .panic site => .panic site
    | .unsupported w => .unsupported w
    | .outOfFuel => .outOfFuel

/-- A fresh session: no user definitions, frame 0 idle (`Env::new`). -/
def sessionInit : State := init { funs := [], enums := [], toplevel := [] } [] none none

/-- Submit the inputs one request at a time; the reply to the LAST one (an earlier error, crash
or fuel exhaustion ends the history there). -/
def incremental (fuel : Nat) : State → List Input → Reply
  | s, [] => .value s none
  | s, [i] => request fuel s i
  | s, i :: rest =>
    match request fuel s i with
    | .value s' _ => incremental fuel s' rest
    | r => r

/-- All inputs concatenated into one (definitions are loaded before anything runs). -/
def concatInputs (is : List Input) : Input :=
  { funs := is.flatMap (·.funs), enums := is.flatMap (·.enums), exprs := is.flatMap (·.exprs) }

def batch (fuel : Nat) (s : State) (is : List Input) : Reply := request fuel s (concatInputs is)

end Resume
