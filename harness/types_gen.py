"""Enumerators / generators of Garden types in the wire format of Appendix E.

Types are wire-format strings; `parse`/`render` convert to nested lists for
structural mutation (`mutate`), which is what produces near-miss pairs (same
prefix but different arity, one leaf replaced by a sub/supertype, a renamed
constructor, ...).
"""
import itertools

SIG = {"Int": ("struct", 0), "String": ("struct", 0), "Foo": ("struct", 0), "NoValue": ("enum", 0),
       "Unit": ("enum", 0), "List": ("struct", 1), "Option": ("enum", 1), "Result": ("enum", 2)}


def user(name, *args):
    return "(user %s %s%s)" % (SIG[name][0], name, "".join(" " + a for a in args))


def tup(*items):
    return "(tuple%s)" % "".join(" " + a for a in items)


def fn(name, params, ret, tparams=()):
    return "(fn %s (tparams%s) (params%s) %s)" % (
        name or "-", "".join(" " + t for t in tparams), "".join(" " + p for p in params), ret)


def depth0():
    return ["(any)", user("Int"), user("String"), user("Foo"), user("NoValue"), user("Unit"),
            "(param T)", "(param U)"]


def next_depth(base, rng=None, cap=None):
    """All types whose immediate components come from `base` (arity <= 2)."""
    out = []
    for a in base:
        out.append(user("List", a))
        out.append(user("Option", a))
        out.append(tup(a))
        out.append(fn(None, [], a))
        out.append(fn("f", [], a))
    out.append(tup())
    for a, b in itertools.product(base, repeat=2):
        out.append(user("Result", a, b))
        out.append(tup(a, b))
        out.append(fn(None, [a], b))
    for a, b, c in itertools.product(base, repeat=3):
        out.append(fn(None, [a, b], c))
    if cap and len(out) > cap and rng:
        out = rng.sample(out, cap)
    return out


def random_type(rng, depth, malformed=False):
    if depth == 0 or rng.random() < 0.25:
        pool = depth0()
        if malformed:
            pool = pool + ["(err)"]
        return rng.choice(pool)
    k = rng.randrange(7 if not malformed else 9)
    r = lambda: random_type(rng, depth - 1, malformed)
    if k == 0:
        return user("List", r())
    if k == 1:
        return user("Option", r())
    if k == 2:
        return user("Result", r(), r())
    if k == 3:
        return tup(*[r() for _ in range(rng.randrange(4))])
    if k in (4, 5):
        return fn(rng.choice([None, None, "f", "g"]), [r() for _ in range(rng.randrange(3))], r(),
                  rng.choice([(), (), ("T",)]))
    if k == 6:
        return rng.choice(depth0())
    if k == 7:  # wrong arity
        return "(user struct List%s)" % "".join(" " + r() for _ in range(rng.choice([0, 2, 3])))
    return "(user %s Result%s)" % (rng.choice(["enum", "struct"]), "".join(" " + r() for _ in range(rng.choice([0, 1, 3]))))


def parse(t):
    toks = t.replace("(", " ( ").replace(")", " ) ").split()
    pos = [0]

    def go():
        assert toks[pos[0]] == "("
        pos[0] += 1
        items = []
        while toks[pos[0]] != ")":
            if toks[pos[0]] == "(":
                items.append(go())
            else:
                items.append(toks[pos[0]])
                pos[0] += 1
        pos[0] += 1
        return items

    return go()


def render(s):
    if isinstance(s, list):
        return "(" + " ".join(render(x) for x in s) + ")"
    return s


def _children_slots(s):
    """(container list, start index) of the type-valued children of node s."""
    if s[0] == "tuple":
        return s, 1
    if s[0] == "user":
        return s, 3
    if s[0] == "fn":
        return s[3], 1  # params; the return type is s[4]
    return None, 0


def _subterms(s, acc):
    acc.append(s)
    cont, start = _children_slots(s)
    if cont is not None:
        for c in cont[start:]:
            _subterms(c, acc)
    if s[0] == "fn":
        _subterms(s[4], acc)
    return acc


def mutate(rng, t, well_formed_only=True):
    """A structurally close variant of type t."""
    import copy
    s = copy.deepcopy(parse(t))
    nodes = _subterms(s, [])
    node = rng.choice(nodes)
    ops = ["leaf", "leaf", "leaf", "dropchild", "addchild", "wrap"]
    if not well_formed_only:
        ops += ["rename", "kind", "err"]
    op = rng.choice(ops)
    leaves = [parse(x) for x in depth0()]
    if op == "leaf" or op == "wrap" or op == "err":
        new = rng.choice(leaves) if op == "leaf" else (["err"] if op == "err" else
                                                       ["user", "struct", "List", copy.deepcopy(node)])
        node[:] = new
    elif op in ("dropchild", "addchild"):
        cont, start = _children_slots(node)
        if cont is None or (node[0] == "user" and well_formed_only):
            node[:] = rng.choice(leaves)
        elif op == "dropchild" and len(cont) > start:
            del cont[rng.randrange(start, len(cont))]
        else:
            cont.insert(rng.randrange(start, len(cont) + 1), rng.choice(leaves))
    elif op == "rename" and node[0] == "user":
        node[2] = rng.choice(["List", "Option", "Result", "Int", "NoValue"])
    elif op == "kind" and node[0] == "user":
        node[1] = "enum" if node[1] == "struct" else "struct"
    return render(s)


def well_formed(t):
    if "(err)" in t:
        return False

    def ok(s):
        if not isinstance(s, list):
            return True
        if s and s[0] == "user":
            name = s[2]
            if name not in SIG or SIG[name][0] != s[1] or len(s) - 3 != SIG[name][1]:
                return False
        return all(ok(x) for x in s)

    return ok(parse(t))
