"""C27 — Eval-up-to reports the value the expression takes when run.

Proof (partial by design): GardenVerif.Props.C27 — stop_is_prefix / stop_at_first_completion /
error_only_before_completion over `stepWith d` (Machine.step and the test-body step with assert):
the run with `stop_at_expr_id = id` is step for step the run without it up to the FIRST completion
of node id, where it returns the top of the value stack; errors are errors of the other run.
`mark_used_preserves` is proved only locally (the observed node's own steps, simple node kinds: one extra
value at completion, which is the value reported); the rest of that half rests on the direct oracle below.

Tie: hook op `evalupto <src> <offset>` of `garden verif` (src/verif_runner.rs: exactly what
`garden reftest-eval-up-to` does, with the offset given instead of a caret comment, reporting the
chosen expression id, the items after `set_observed_expr_value_used`, the answer and the per-tick
trace of the second run) vs driver op `evalupto_model` (Model/EvalUpTo.lean on the same items and
node id): answer, end state, output, per-tick trace, and the `value_is_used` flags after marking.
A sample of positions is also run through the real CLI with a caret comment (hook == CLI).

Direct oracle (implementation only): for every sampled position whose innermost expression is a
value expression (literal, variable, operator, call, list, tuple, if/else, match), the same file
is run normally with that expression wrapped in `__obs(...)` (`fun __obs(x) { println("OBS:" ^
string_repr(x)) x }`): for a position in a test, in place; for a position in a toplevel item, in
a copy of the item appended to the file (eval-up-to re-evaluates the item in the environment the
whole file has produced). The first `OBS:` line must show the value eval-up-to reported; if
eval-up-to reported an error the instrumented run must fail before printing one.
"""
import os
import re
from . import machine_corr as MC
from . import prog_core_gen as PG
from . import c26 as T
from .common import hexs, unhex, pmap

LEAN_MODULES = ["GardenVerif.Props.C27"]

OBS_FUN = 'fun __obs(x) {\n  println("OBS:" ^ string_repr(x))\n  x\n}\n'
SIMPLE_KINDS = ("int", "str", "var", "lambda", "binop", "let", "assign", "update", "list", "tuple")
VALUE_KINDS = ("int", "str", "var", "binop", "call", "list", "tuple", "if", "match", "paren")


def gen_prog(rng):
    src, info = PG.gen_program(rng, size=rng.choice([12, 25, 40]), err_rate=0.01, exits=0.3)
    g_funs = re.findall(r"^fun (\w+)\(([^)]*)\)", src, re.M)
    shared = [(n, [PG.INT] * (len(p.split(",")) if p.strip() else 0), PG.INT) for n, p in g_funs if n.startswith("f")]
    parts = [src]
    for k in range(rng.randrange(0, 3)):
        kind = rng.choice(["pass", "fail", "err", "rand", "deep"])
        if kind == "deep":
            parts.insert(0, T.BOOM + "\n")
        parts.append(T.gen_test(rng, k, kind, [])[1])
    if rng.random() < 0.3:
        parts.append("{\n  let q = %d\n  let w = q + 2\n  w * 2\n}\n" % rng.randrange(5))
    out = "\n".join(parts)
    if out.count(T.BOOM) > 1:
        out = out.replace(T.BOOM + "\n", "", out.count(T.BOOM) - 1)
    return out


def _distinct_values(rng, n):
    pool = []
    for k in range(n):
        u = 10 * (k + 1) + rng.randrange(0, 9)
        pool.append(rng.choice(["%d" % u, '"s%d"' % u, "[%d, %d]" % (u, u + 1), "Some(%d)" % u, "(%d, %d)" % (u, u + 1),
                                "%d" % (u + 100)]))
    return pool


def gen_dest_probe(rng):
    """A program with ONE binding construct whose destination NAMES are the eval-up-to positions.
    -> (src, instrumented_src_for(name) function results as list of (offset, name, instrumented, kind))"""
    kind = rng.choice(["destr", "destr", "destr", "plain", "for", "fordestr", "param"])
    where = rng.choice(["block", "test", "top"])
    n = rng.randrange(2, 5)
    vals = _distinct_values(rng, n)
    names = ["d%d" % i for i in range(n)]
    dest = list(names)
    if kind == "destr":
        # `_` at a random non-empty proper subset of the positions (often the first ones)
        k_us = rng.randrange(0, n)
        for i in (range(k_us) if rng.random() < 0.5 else rng.sample(range(n), k_us)):
            dest[i] = "_"
    pre = ["let before = 1"]
    defs = ""
    rhs_kind = rng.choice(["lit", "var", "call"])
    tup = "(%s)" % ", ".join(vals)
    if rhs_kind == "var":
        pre.append("let tup = %s" % tup)
        rhs = "tup"
    elif rhs_kind == "call":
        defs = "fun mk() {\n  %s\n}\n" % tup
        rhs = "mk()"
    else:
        rhs = tup
    obs = lambda nm: 'println("OBS:" ^ string_repr(%s))' % nm
    if kind == "param":
        head = "fun pf(%s) {\n  " % ", ".join(names)
        src = head + "0\n}\npf(%s)\n" % ", ".join(vals)
        out = []
        for nm in names:
            off = len("fun pf(") + ", ".join(names).index(nm)
            inst = head + obs(nm) + "\n  0\n}\npf(%s)\n" % ", ".join(vals)
            out.append((off, nm, inst, kind))
        return src, out
    if kind == "plain":
        stmt, body_first, targets = "let d0 = %s" % vals[0], None, ["d0"]
    elif kind == "destr":
        stmt, body_first, targets = "let (%s) = %s" % (", ".join(dest), rhs), None, [d for d in dest if d != "_"]
    elif kind == "for":
        stmt, body_first, targets = "for d0 in [%s] {" % ", ".join(vals), True, ["d0"]
    else:
        stmt, body_first, targets = ("for (%s) in [%s, %s] {" % (", ".join(dest), tup, tup)), True, list(dest)
    ind = "" if where == "top" else "  "

    def build(extra_after=None):
        lines = [ind + x for x in pre] + [ind + stmt]
        if body_first:
            if extra_after:
                lines.append(ind + "  " + extra_after)
            lines.append(ind + "  let inner = 0")
            lines.append(ind + "}")
        elif extra_after:
            lines.append(ind + extra_after)
        lines.append(ind + "let after = 2")
        body = "\n".join(lines) + "\n"
        if where == "block":
            return defs + "{\n" + body + "}\n"
        if where == "test":
            return defs + "test probe {\n" + body + "}\n"
        return defs + body
    src = build()
    base = src.index(stmt)
    out = []
    for nm in targets:
        m = re.search(r"\b%s\b" % nm, stmt)
        out.append((base + m.start(), nm, build(obs(nm)), kind))
    return src, out


EV = re.compile(r"^OK \(evalupto \(first ok\) \(firstticks (\d+)\) \(id (\w+)\) (\(.*?\)) (\(end[^)]*\)) "
                r"(?:\(out1 [0-9a-f]*\) )?\(out2 ([0-9a-f]*)\) (?:\(items ([0-9a-f]*)\) \(marked ([0-9a-f]*)\)|\(flags ([^)]*)\)) "
                r"\(trace ([0-9a-f]*)\)\)$")


def parse_ev(r):
    if r is None or not r.startswith("OK (evalupto"):
        return dict(kind="other", raw=(r or "None")[:300])
    if r.startswith("OK (evalupto (first (") or r.startswith("OK (evalupto (first (exception") or "(first (" in r[:40]:
        return dict(kind="first-error", raw=r[:200])
    if r.startswith("OK (evalupto (unsupported"):
        return dict(kind="unsupported", raw=r[:200])
    m = EV.match(r)
    if not m:
        return dict(kind="other", raw=r[:300])
    ft, nid, res, end, out2, items, marked, flags, trace = m.groups()
    d = dict(kind="ok", id=nid, end=end, out2=unhex(out2), trace=unhex(trace).split("\n") if trace else [],
             items=unhex(items) if items else None, marked=unhex(marked) if marked else None, flags=flags)
    parts = res[1:-1].split(" ")
    if parts[0] == "value":
        d.update(res="value", short=parts[1], display=unhex(parts[2]), pos=parts[3] if len(parts) > 3 else None)
    elif parts[0] == "error":
        inner = res[len("(error "):-1]
        if inner.startswith("(exception") or inner.startswith("(assertion"):
            pp = inner[1:-1].split(" ")
            kind = MC.classify_err(unhex(pp[2])) if pp[0] == "exception" else "assertion " + unhex(pp[2])
        elif inner.startswith("("):
            kind = inner[1:-1].split(" ")[0]
        else:
            kind = inner
            if kind.startswith("type-error assertion-failed: "):
                kind = "assertion " + kind[len("type-error assertion-failed: "):]
        d.update(res="error", err=kind)
    else:
        d.update(res=parts[0])
    return d


NODE = re.compile(r"\((\w+) (\d+) ([01])")


def run(ctx):
    rng = ctx.rng
    nprog = ctx.scale(40, 2000)
    per_prog = ctx.scale(25, 60)
    ctx.rule = ("programs of the core-program generator (functions, toplevel statements, loops, closures, match) plus 0..2 "
                "tests (bodies as in C26) and sometimes a toplevel block item; eval-up-to at up to %d byte offsets per "
                "program chosen uniformly among the non-blank characters (so every kind of node and both ends of its "
                "span are hit). Non-trivial = the position selects an expression (eval-up-to answers with a value or a "
                "run-time error, not `nothing to execute`)." % per_prog)
    progs = [gen_prog(rng) for _ in range(nprog)]
    cases = []
    for pi, src in enumerate(progs):
        offs = [i for i, c in enumerate(src) if not c.isspace()]
        for off in rng.sample(offs, min(per_prog, len(offs))):
            cases.append((pi, off))
    impl = [parse_ev(r) for r in ctx.garden_batch(["evalupto %s %d trace" % (hexs(progs[pi]), off) for pi, off in cases],
                                                   timeout=1200)]
    model_lines = []
    for (pi, off), i in zip(cases, impl):
        if i["kind"] == "ok" and i["id"] != "none" and i["items"]:
            model_lines.append("evalupto_model %s 300000 trace %s" % (i["id"], i["items"]))
        else:
            model_lines.append("ping")
    model = ctx.model_batch(model_lines, timeout=1200)
    kinds_hist = {}
    n_cmp = n_unsup = n_value = n_error = n_noexpr = n_simple = n_stmt_pos = 0
    oracle_jobs = []
    for (pi, off), i, mr in zip(cases, impl, model):
        src = progs[pi]
        inp = dict(src=src, offset=off)
        if i["kind"] == "first-error":
            ctx.case((pi, off), False)
            continue
        if i["kind"] != "ok":
            ctx.fail("C27/hook-crash", "eval-up-to crashed or gave no answer: %s" % i.get("raw"), **inp)
            continue
        nontrivial = i["res"] in ("value", "error")
        ctx.case((pi, off), nontrivial)
        n_value += i["res"] == "value"
        n_error += i["res"] == "error"
        n_noexpr += i["res"] not in ("value", "error")
        if i["id"] == "none":
            continue
        # the observed node's kind, from the marked items
        kind = None
        for k, nid, u in NODE.findall(i["marked"] or ""):
            if nid == i["id"]:
                kind = k
                if u != "1":
                    ctx.fail("C27/not-marked-used", "the observed node %s is not marked value_is_used" % nid, **inp)
                break
        kinds_hist[kind] = kinds_hist.get(kind, 0) + 1
        # which flags does the marking change? (hypothesis of the `…_partial` theorems: for the Simple kinds
        # only the observed node's own flag)
        before = {nid: u for _, nid, u in NODE.findall(i["items"] or "")}
        changed = sorted(nid for _, nid, u in NODE.findall(i["marked"] or "") if before.get(nid) != u)
        if kind in SIMPLE_KINDS:
            n_simple += 1
            if any(nid != i["id"] for nid in changed):
                ctx.disagree("markused", inp, None, changed, detail="marking a %s node changed the value_is_used flag of "
                             "other nodes (the partial theorems assume it does not)" % kind)
        if changed == [i["id"]]:
            n_stmt_pos += 1
        # ---- model correspondence
        m = parse_ev(mr)
        if m["kind"] == "unsupported" or mr == "OK pong" or (mr or "").startswith("OK (evalupto (noitem)"):
            # outside the fragment, or a position inside a function body (prev_call_args: not modelled)
            n_unsup += 1
        elif m["kind"] != "ok":
            ctx.disagree("evalupto", inp, m.get("raw"), i.get("res"), detail="model gave no answer")
        else:
            n_cmp += 1
            diff = None
            if i["res"] != m["res"]:
                diff = "answer kind: impl %s / model %s" % (i["res"], m["res"])
            elif i["res"] == "value" and (i["short"] != m["short"] or (
                    i["display"] != m["display"] and not re.match(r"^(fn:|bi:|clo|C:)", i["short"]))):
                diff = "value: impl %s / model %s" % (i["display"], m["display"])
            elif i["res"] == "error" and i["err"] != m["err"] and not i["err"].startswith("unclassified"):
                diff = "error: impl %s / model %s" % (i["err"], m["err"])
            elif i["end"] != m["end"]:
                diff = "end state: impl %s / model %s" % (i["end"], m["end"])
            elif i["out2"] != m["out2"]:
                diff = "output: impl %r / model %r" % (i["out2"][:100], m["out2"][:100])
            elif i["trace"] != m["trace"]:
                diff = "trace length: impl %d / model %d" % (len(i["trace"]), len(m["trace"]))
                for k, (a, b) in enumerate(zip(i["trace"], m["trace"])):
                    if a != b:
                        diff = "trace line %d: impl %r / model %r" % (k, a, b)
                        break
            else:
                real = {nid: u for _, nid, u in NODE.findall(i["marked"])}
                for fl in (m["flags"] or "").split(","):
                    if not fl:
                        continue
                    nid, u = fl.split(":")
                    if nid in real and real[nid] != ("1" if u == "true" else "0"):
                        diff = "value_is_used of node %s after marking: impl %s / model %s" % (nid, real[nid], u)
                        break
            if diff:
                ctx.disagree("evalupto", inp, m.get("res"), i.get("res"), detail=diff)
        # ---- direct oracle job
        if kind in VALUE_KINDS and i["res"] in ("value", "error"):
            oracle_jobs.append((pi, off, i, kind))
    if n_value + n_error > 20 and not kinds_hist:
        ctx.disagree("evalupto", {}, None, None, detail="the hook reports no observed expression id for any position "
                     "(is the cfg-guarded call of verif_runner::note_observed in eval_up_to missing?)")
    ctx.cov["positions"] = len(cases)
    ctx.cov["answers"] = {"value": n_value, "error": n_error, "nothing": n_noexpr}
    ctx.cov["observed_node_kinds"] = kinds_hist
    ctx.cov["model_compared"] = n_cmp
    ctx.cov["observed_nodes_of_simple_kind"] = n_simple
    ctx.cov["observed_nodes_in_statement_position"] = n_stmt_pos
    ctx.cov["model_outside_fragment"] = n_unsup

    # ------------------------------------------------------------------ direct oracle: instrumented run
    # span of the observed node: from `astpos`-free data: the answer's position is the node's span unless
    # let_var_pos / assign_var_pos moved it (then the kind is let/assign/for, not a value kind)
    lines = []
    meta = []
    n_skip_exit = 0
    for pi, off, i, kind in oracle_jobs:
        src = progs[pi]
        if i["res"] == "value" and i.get("pos"):
            a, b = [int(x) for x in i["pos"].split(":")]
        else:
            continue      # for errors the span is not reported; handled below through value positions only
        if not (a <= off < b):
            continue
        # which item? tests are instrumented in place, other items in an appended copy
        item_start = max([m.start() for m in re.finditer(r"^(?=\S)", src, re.M) if m.start() <= a] or [0])
        nxt = [m.start() for m in re.finditer(r"^(?=\S)", src, re.M) if m.start() > a]
        item_end = nxt[0] if nxt else len(src)
        # items of the generator start at column 0 and continuation lines are indented or `}`
        while item_end < len(src) and src[item_end] == "}":
            nn = [m.start() for m in re.finditer(r"^(?=\S)", src, re.M) if m.start() > item_end]
            item_end = nn[0] if nn else len(src)
        item = src[item_start:item_end]
        if re.search(r"\b(break|continue|return)\b", src[a:b]):
            # wrapping the expression in a call would move its exit statement into operand position, which
            # changes what the instrumented program does (and runs into C02/break-continue-in-operand-position):
            # not observable this way (false alarm found by the first thorough run)
            n_skip_exit += 1
            continue
        wrapped = item[:a - item_start] + "__obs(" + src[a:b] + ")" + item[b - item_start:]
        if item.startswith("test "):
            new = src[:item_start] + wrapped + src[item_end:] + "\n" + OBS_FUN
        elif item.startswith("fun ") or item.startswith("enum "):
            continue
        else:
            new = src + "\n" + wrapped + "\n" + OBS_FUN
        lines.append("machine %s - 2000000 - notrace" % hexs(new))
        meta.append((pi, off, i, kind, new))
    res = [MC.parse_resp(r) for r in ctx.garden_batch(lines, timeout=1200)]
    n_or = n_or_skip = n_uneval = 0
    for (pi, off, i, kind, new), r in zip(meta, res):
        if r["kind"] in ("parse-error", "other", "died"):
            n_or_skip += 1
            continue
        n_or += 1
        obs = [l[4:] for l in r.get("out", "").split("\n") if l.startswith("OBS:")]
        if not obs and r["kind"] == "ok":
            # the run finishes without ever evaluating the expression (dead branch, loop not entered)
            n_uneval += 1
            ctx.fail("C27/value-for-unevaluated-expression",
                     "eval-up-to reported %r for a %s expression that is never evaluated when the item runs (the run "
                     "finishes normally): the value of the whole item is reported at the expression's position"
                     % (i["display"], kind), src=progs[pi], offset=off, instrumented=new)
        elif not obs:
            ctx.fail("C27/value-but-run-failed-before/%s" % kind,
                     "eval-up-to reported %r for a %s expression, but the instrumented run fails (%s) before "
                     "evaluating it" % (i["display"], kind, r.get("outcome")),
                     src=progs[pi], offset=off, instrumented=new)
        elif obs[0] != i["display"]:
            ctx.fail("C27/wrong-value/%s" % kind,
                     "eval-up-to reported %r but the expression's first value in the run is %r" % (i["display"], obs[0]),
                     src=progs[pi], offset=off, instrumented=new)
    ctx.cov["oracle_expression_never_evaluated"] = n_uneval
    ctx.cov["oracle_skipped_expression_contains_exit_statement"] = n_skip_exit
    ctx.cov["oracle_instrumented_runs"] = n_or
    ctx.cov["oracle_skipped_unparsable_instrumentation"] = n_or_skip


    # ------------------------------------------------------------------ destination names (let / for / parameters)
    # Positions on the NAMES a construct binds: plain and destructuring `let` (with `_` at every position, elements
    # of different values and types, the tuple given as a literal / a variable / a call), `for` variables (plain and
    # destructuring) and function parameters. These go through let_var_pos / assign_var_pos / eval_up_to_param, which
    # Model/EvalUpTo.lean does not model (it models expression positions): direct oracle only — the value eval-up-to
    # reports must be the value BOUND to that name in a run instrumented with a print right after the binding.
    probes = [gen_dest_probe(rng) for _ in range(ctx.scale(80, 1500))]
    jobs = [(src, off, nm, inst, kind) for src, outs in probes for off, nm, inst, kind in outs]
    ev = [parse_ev(r) for r in ctx.garden_batch(["evalupto %s %d notrace" % (hexs(src), off) for src, off, _, _, _ in jobs],
                                                timeout=900)]
    runs = [MC.parse_resp(r) for r in ctx.garden_batch(["machine %s - 2000000 - notrace" % hexs(inst)
                                                        for _, _, _, inst, _ in jobs], timeout=900)]
    dest_hist = {}
    for (src, off, nm, inst, kind), i, r in zip(jobs, ev, runs):
        ctx.case(("dest", src, off), True)
        dest_hist[kind] = dest_hist.get(kind, 0) + 1
        obs = [l[4:] for l in r.get("out", "").split("\n") if l.startswith("OBS:")]
        if i["kind"] != "ok" or not obs:
            ctx.fail("C27/hook-crash", "destination-name probe gave no answer: %s / instrumented run %s"
                     % (i.get("raw", i.get("res")), r.get("outcome", r.get("raw"))), src=src, offset=off)
            continue
        got = i.get("display") if i["res"] == "value" else "<%s>" % i["res"]
        if got == obs[0]:
            continue
        if kind == "fordestr" and got == "Unit":
            ctx.fail("C27/for-destructuring-variable-reports-unit",
                     "eval-up-to on the variable %s of a destructuring `for` reports Unit; it is bound to %s"
                     % (nm, obs[0]), src=src, offset=off)
        else:
            ctx.fail("C27/wrong-value/destination-name/%s" % kind,
                     "eval-up-to on the name %s reports %r but the name is bound to %r" % (nm, got, obs[0]),
                     src=src, offset=off, instrumented=inst)
    ctx.cov["destination_name_positions"] = dest_hist

    # ------------------------------------------------------------------ hook == CLI on a sample (caret comment)
    sample = [c for c in zip(cases, impl) if c[1]["kind"] == "ok" and c[1]["res"] == "value"]
    rng.shuffle(sample)
    scratch = ctx.scratch("cli")

    def cli(job):
        (pi, off), i = job
        src = progs[pi]
        ls = src.rfind("\n", 0, off) + 1
        le = src.find("\n", off)
        le = len(src) if le < 0 else le
        col = off - ls
        if col < 2 or "//" in src or '"\\n"' in src[ls:le]:
            return None
        caret = " " * (col - 2) + "//^"
        new = src[:le] + "\n" + caret + src[le:]
        path = os.path.join(scratch, "p%d_%d.gdn" % (pi, off))
        with open(path, "w") as f:
            f.write(new)
        rc, so, se = ctx.garden(["reftest-eval-up-to", path], timeout=60)
        os.remove(path)
        return rc, so, se, new
    n_cli = 0
    for job, r in zip(sample[:ctx.scale(40, 400)], pmap(cli, sample[:ctx.scale(40, 400)])):
        if r is None:
            continue
        rc, so, se, new = r
        (pi, off), i = job
        last = [l for l in so.split("\n") if l.strip()]
        n_cli += 1
        want = ": " + i["display"]
        if "verif_input.gdn" in want or "<closure" in want or "<fun" in want:
            continue      # these displays contain the file name
        if rc != 0 or not last or not last[-1].endswith(want):
            # a caret line inside a multi-line expression can change the parse; only report clear mismatches
            if rc == 0 and last and re.search(r":\d+: ", last[-1]) and not se.strip():
                ctx.disagree("evalupto-vs-cli", dict(src=new, offset=off), None, [last[-1], i["display"]],
                             detail="hook op and `garden reftest-eval-up-to` give different answers")
    ctx.cov["cli_runs_compared"] = n_cli
    if oracle_jobs:
        j = oracle_jobs[0]
        ctx.sample({"src": progs[j[0]], "offset": j[1], "node": j[3], "answer": j[2].get("display", j[2].get("err"))})
    ctx.assumptions += [
        "the observed node id is taken from the real tool (find_item_at / find_expr_of_id are not modelled)",
        "mark_used_preserves is not proved: the effect of marking the node used is checked only by the oracle "
        "(instrumented run of the UNMARKED program) and by the flag/trace correspondence",
        "positions inside function and method bodies (prev_call_args) are outside the model; the hook answers are "
        "still checked for crashes",
        "the instrumented run wraps the expression in a call of an identity function, which makes its value used",
        "positions on destination names (let / for / parameters: let_var_pos, assign_var_pos, eval_up_to_param) are "
        "checked by the direct oracle only; the Lean model covers expression positions",
    ]
