"""JSON-session client shared by C09 and C10.

* `commands()`            — the REPL command vocabulary, read from Generated/Tables.lean (regenerated
                            from `Command::from_string` on every run).
* `gen_history(rng, n)`   — G-hist: request histories driven by a small state machine
                            (idle / errored at toplevel / errored inside a call / interrupted) so that
                            every command is issued in every state with non-negligible weight.
* `run_reftest(…)`        — `garden reftest-json-session` (no framing, every response printed).
* `run_framed(…)`         — the real `garden json` process with Content-Length framing, one request at
                            a time, liveness probe at the end; the process is always killed.
* `canon_real(…)`         — canonical line per response, same format as the Lean driver `session_run`.
* `model_request(…)`      — the `session_run` request line for a history (uses the `astx` hook op).
"""
import json
import os
import re
import subprocess
import time
from . import common
from .common import hexs, unhex
from . import machine_corr as MC

import threading
RETRY_LOCK = threading.Lock()
TABLES = os.path.join(common.LEAN_DIR, "GardenVerif", "Generated", "Tables.lean")


def commands():
    """[(name, variant, args)] from Tables.replCommands."""
    src = open(TABLES).read()
    i = src.index("def replCommands")
    j = src.index("]", i)
    return re.findall(r'name := "([^"]+)", variant := "([^"]+)", args := "([^"]+)"', src[i:j])


# ------------------------------------------------------------------ programs

DEFS = [
    "fun f(a) { let la = a + 1  g(la) }\nfun g(b) { let lb = b * 2  if lb > 50 { let inner = lb  nosuch_g } else { lb } }",
    "fun loopy(n) { let i = 0  while i < n { let w = i  i += 1 }  i }",
    "fun pr(s) { println(s)  7 }",
    "fun h(n) { let acc = 0  for x in [1, 2, 3] { let sq = x * x  if sq > n { let deep = sq  acc = acc + nosuch_h } }  acc }",
    "enum Color { Red, Green(Int) }",
    "fun m(c) { match c { Green(k) => { let mk = k  mk / 0 } Red => 1 } }",
    "fun nosuch1() { 1 }",
    "fun nosuch_g() { 2 }",
    "fun g(b) { b }",
    "test t_ok { 1 + 1 }",
    "test t_bad { let tl = 1  nosuch_t }",
    "test t_call { f(100) }",
]
OK_EVALS = [
    "1 + 1", "let tv1 = 5", "let tv2 = [1, 2]", "f(0)", "pr(\"hi\")", "[1, 2, 3]", "loopy(3)",
    "if True { 1 } else { 2 }", "for x in [1, 2] { println(string_repr(x)) }",
    "match Some(1) { Some(v) => v None => 0 }", "\"a\" ^ \"b\"", "tv1", "h(100)", "m(Red)",
    "let c1 = fun(z) { z + 1 }\nc1(1)", "1 2 3", "{ let blk = 1  blk }", "",
]
FAIL_TOP = [
    "nosuch1 + nosuch2", "1 + \"a\"", "if 1 { 2 } else { 3 }", "match 1 { Some(x) => x }",
    "let q = [1, nosuchq]", "1 / 0", "while 1 { }", "for x in 5 { }", "let (a, b) = (1, 2, 3)",
    "println(1)", "f()", "if True { let blk1 = 1  nosuchb }", "for y in [1, 2] { let fy = y  nosuchf }",
    "let i0 = 0\nwhile i0 < 2 { i0 += 1  nosuchw }", "match Some(2) { Some(p) => { let mp = p  nosuchm } None => 0 }",
    "(1, nosucht)", "nosuchfn(1, 2)", "tv1 + nosuchr + 1",
]
FAIL_CALL = [
    "f(100)", "loopy(\"x\")", "h(0)", "m(Green(3))", "let c2 = fun(z) { let cz = z  cz + nosuchc }\nc2(1)",
    "pr(f(100))", "[1, f(100)]", "h(f(100))",
]
PARSE_ERR = ["let x = ", "fun (", "1 +", "(1, }"]
REPLACE_ARGS = ["True", "5", "[1, 2]", "nosuchx", "\"s\"", "Some(1)", "1 +", ""]
TYPE_ARGS = ["1 + 1", "nosuch", "\"a\"", "f(100)", "continue", "[1]", ""]
NAMES = ["f", "g", "tv1", "la", "lb", "inner", "b", "nosuch", "println", "t_ok", "t_bad", "t_call", "acc", "sq"]
OTHER_REQS = [
    {"method": "eval_up_to", "path": None, "src": "let e1 = 1 + 2", "offset": 10},
    {"method": "eval_up_to", "path": None, "src": "fun zz(", "offset": 3},
    {"method": "load", "input": "fun ld1() { 1 }", "path": "/tmp/ld.gdn", "offset": 0, "end_offset": 15},
]
RAW_BAD = ["not json", "{\"method\":\"foo\"}", "{\"method\":\"run\"}", "[1, 2", "{}", "{\"method\":\"run\",\"input\":5}"]
# commands whose effect the model does not follow (comparison with the model stops there)
UNMODELLED = {":trace", ":quit"}


def cmd_arg(rng, name, argkind):
    if name == ":replace":
        return rng.choice(REPLACE_ARGS)
    if name == ":type":
        return rng.choice(TYPE_ARGS)
    if name == ":test":
        return rng.choice(["t_ok", "t_bad", "t_call", "zz"])
    if name in (":forget", ":forget_local", ":doc", ":source", ":search", ":methods", ":help", ":namespaces", ":parse"):
        return rng.choice(NAMES + ["1 + 2", ":skip"])
    if name == ":load":
        return "/nonexistent/%d.gdn" % rng.randrange(100)
    if name == ":namespace":
        return "other_ns.gdn"
    return rng.choice(NAMES)


def gen_history(rng, n, cmds, with_unmodelled=0.05):
    """-> (requests, interrupt ticks). request = dict(kind='run', input, id?) | dict(kind='raw', text)
    | dict(kind='other', obj)."""
    state = "idle"
    reqs = []
    names = [c for c in cmds if c[0] not in (":quit",)]
    control = [c for c in names if c[0] in (":skip", ":replace", ":resume", ":abort", ":test", ":type",
                                            ":forget", ":forget_local", ":locals", ":stack", ":fvalues", ":fstmts")]
    next_id = 1
    for k in range(n):
        r = rng.random()
        req = None
        # commands: ~45% when stopped somewhere, ~30% when idle
        p_cmd = 0.30 if state == "idle" else 0.50
        if r < p_cmd:
            pool = control if rng.random() < 0.7 else names
            name, variant, argkind = rng.choice(pool)
            if name in UNMODELLED and rng.random() > with_unmodelled:
                name, variant, argkind = rng.choice(control)
            if name == ":namespace" and rng.random() > with_unmodelled:
                argkind = "none"
            with_arg = argkind != "none" and rng.random() < 0.7
            text = name
            if rng.random() < 0.1:
                text = name.upper() if rng.random() < 0.5 else "  " + name
            if with_arg:
                text += " " + cmd_arg(rng, name, argkind)
            elif argkind == "none" and rng.random() < 0.1:
                text += " extra"
            req = dict(kind="run", input=text)
            if name == ":abort":
                state = "idle"
        elif r < p_cmd + 0.12:
            req = dict(kind="run", input=rng.choice(DEFS))
        elif r < p_cmd + 0.27:
            req = dict(kind="run", input=rng.choice(OK_EVALS))
        elif r < p_cmd + 0.40:
            req = dict(kind="run", input=rng.choice(FAIL_TOP))
            state = "err-top"
        elif r < p_cmd + 0.52:
            # make sure the callee exists most of the time
            if not any(q.get("input", "").startswith("fun f(a)") for q in reqs) and rng.random() < 0.8:
                reqs.append(dict(kind="run", input=DEFS[0]))
                reqs.append(dict(kind="run", input=DEFS[3] + "\n" + DEFS[4] + "\n" + DEFS[5]))
            req = dict(kind="run", input=rng.choice(FAIL_CALL))
            state = "err-call"
        elif r < p_cmd + 0.56:
            req = dict(kind="run", input=rng.choice(PARSE_ERR))
        elif r < p_cmd + 0.60:
            req = dict(kind="raw", text=rng.choice(RAW_BAD))
        elif r < p_cmd + 0.62:
            req = dict(kind="run", input=":" + rng.choice(["nosuchcmd", "skipp", "", " skip"]))
        elif r < p_cmd + 0.64 and with_unmodelled:
            req = dict(kind="other", obj=rng.choice(OTHER_REQS))
        else:
            req = dict(kind="run", input=rng.choice(OK_EVALS + DEFS))
        if req["kind"] == "run" and rng.random() < 0.5:
            req["id"] = next_id
            next_id += 1
        reqs.append(req)
    reqs = reqs[:n + 2]
    ints = []
    if rng.random() < 0.4:
        ints = sorted(set(rng.randrange(1, 12 * len(reqs)) for _ in range(rng.randrange(1, 4))))
    return reqs, ints


def req_json(req):
    if req["kind"] == "run":
        d = {"method": "run", "input": req["input"]}
        if "id" in req:
            d["id"] = req["id"]
        return json.dumps(d)
    if req["kind"] == "raw":
        return req["text"]
    if req["kind"] == "interrupt":
        return json.dumps({"method": "interrupt"})
    return json.dumps(req["obj"])


# ------------------------------------------------------------------ real runs

def parse_stream(txt):
    """Concatenated (pretty-printed or compact) JSON objects with possibly raw lines in between."""
    dec = json.JSONDecoder()
    out, raw = [], []
    i, n = 0, len(txt)
    while i < n:
        while i < n and txt[i].isspace():
            i += 1
        if i >= n:
            break
        if txt[i] == "{":
            try:
                o, j = dec.raw_decode(txt, i)
                if isinstance(o, dict) and "kind" in o:
                    out.append(o)
                    i = j
                    continue
            except ValueError:
                pass
        j = txt.find("\n", i)
        j = n if j < 0 else j
        raw.append(txt[i:j])
        i = j
    return out, raw


PANIC_RE = re.compile(r"panicked at ([^:\s]+):(\d+):\d+:\s*\n([^\n]*)")


def run_reftest(ctx, reqs, ints=(), timeout=30):
    d = ctx.scratch("hist")
    path = os.path.join(d, "h%d.jsonl" % (hash(tuple(req_json(r) for r in reqs)) & 0xffffffff))
    with open(path, "w") as f:
        for r in reqs:
            f.write(req_json(r) + "\n")
    env = dict(os.environ, RUST_BACKTRACE="0", NO_COLOR="1")
    env.pop("GARDEN_VERIF_INTERRUPT_AT", None)
    if ints:
        env["GARDEN_VERIF_INTERRUPT_AT"] = ",".join(str(t) for t in ints)
    rc, so, se = common.run_cmd([common.GARDEN, "reftest-json-session", path], timeout=timeout, env=env, mem_gb=3)
    if rc == -9999:
        # a loaded machine can make a debug-build session take long: once more, alone, generously
        with RETRY_LOCK:
            rc, so, se = common.run_cmd([common.GARDEN, "reftest-json-session", path], timeout=300, env=env, mem_gb=3)
    try:
        os.remove(path)
    except OSError:
        pass
    objs, raw = parse_stream(so)
    m = PANIC_RE.search(se or "")
    panic = None
    if m:
        panic = dict(file=m.group(1), line=int(m.group(2)), msg=m.group(3).strip())
    return dict(rc=rc, objs=objs, raw=raw, panic=panic, stderr=(se or "")[-600:], timeout=(rc == -9999))


def kind_of(o):
    k = o["kind"]
    if isinstance(k, dict):
        kk = next(iter(k))
        return kk, k[kk]
    return k, None


def split_responses(objs):
    """-> list of (response object, printed text before it); notifications are not responses."""
    res, printed = [], ""
    for o in objs:
        kk, v = kind_of(o)
        if kk == "printed":
            printed += v["s"]
        elif kk == "printed_stderr":
            pass
        else:
            res.append((o, printed))
            printed = ""
    return res


ANSI = re.compile(r"\x1b\[[0-9;]*m")


def harness_classify(inp, cmds):
    """Python twin of Session.classify: (':name' | 'nosuch' | 'source', args)."""
    t = inp.strip(" \t\n\r")
    if " " in t:
        name, args = t.split(" ", 1)
    else:
        name, args = t, None
    lname = name.lower()
    for c in cmds:
        if c[0] == lname:
            return lname, args
    return ("nosuch" if inp.startswith(":") else "source"), args


def frame_tag(name):
    if name is None:
        return None
    if name.endswith(".gdn"):
        return "toplevel"
    return name.replace(" ", "_")


def us(s):
    return s.replace(" ", "_")


def canon_real(req, o, printed, cmds):
    """Canonical line for one real response to `req` (same format as Driver/Session.lean)."""
    kk, v = kind_of(o)
    rid = o.get("id")
    ids = "-" if rid is None else str(rid)
    pr = "printed=" + hexs(printed)
    if kk == "malformed_request":
        return "malformed id=%s %s" % (ids, pr)
    if kk == "interrupted":
        if v.get("stack_frame_name") is None:
            return "interrupted " + pr
        return "evalerr id=%s err=interrupted frame=%s %s" % (ids, frame_tag(v["stack_frame_name"]), pr)
    if kk == "evaluate":
        val = v["value"]
        fr = frame_tag(v.get("stack_frame_name"))
        if "Err" in val:
            if fr is None:
                return "parseerr " + pr
            msg = val["Err"][0]["message"]
            if msg == "Interrupted":
                kind = "interrupted"
            elif msg.startswith("Reached the tick"):
                kind = "tick-limit"
            elif msg.startswith("Reached the recursion"):
                kind = "stack-limit"
            else:
                kind = MC.classify_err(msg[len("Exception: "):] if msg.startswith("Exception: ") else msg)
            return "evalerr id=%s err=%s frame=%s %s" % (ids, us(kind), fr, pr)
        s = val["Ok"]
        if s is not None:
            m = re.search(r"and the expression evaluated to (.*)\.$", s, re.S)
            if m:
                s = m.group(1)
            elif re.match(r"^(Loaded |Ran \d)", s):
                s = None
        if s is not None:
            # M4 displays a function value by name only
            s = re.sub(r"<fun (\w+) [^>]*>", r"<fun \1>", s)
        return "evalok id=%s value=%s frame=%s %s" % (ids, "-" if s is None else hexs(s), fr, pr)
    if kk == "run_command":
        msg = ANSI.sub("", v["message"])
        fr = frame_tag(v.get("stack_frame_name"))
        name, args = harness_classify(req.get("input", ""), cmds) if req["kind"] == "run" else ("?", None)
        tag = "info"
        if msg == "Aborted":
            tag = "Aborted"
        elif msg.startswith("Nothing to skip"):
            tag = "nothing-to-skip"
        elif msg.startswith("Nothing to replace"):
            tag = "nothing-to-replace"
        elif msg.startswith(":replace requires"):
            tag = "replace-usage"
        elif msg.startswith(":type requires"):
            tag = "type-usage"
        elif msg.startswith(":test requires"):
            tag = "test-usage"
        elif msg.startswith(":forget requires"):
            tag = "forget-usage"
        elif msg.startswith(":forget_local requires"):
            tag = "forget-local-usage"
        elif msg.startswith(":load requires"):
            tag = "load-usage"
        elif msg.startswith("Could not load file"):
            tag = "load-usage"
        elif msg.startswith("No function or enum value named"):
            tag = "forget-unknown"
        elif msg.startswith("No local variable named"):
            tag = "forget-local-unknown"
        elif msg.startswith("No such command"):
            tag = "no-such-command"
        elif name == ":type":
            tag = "type-failed" if msg.startswith("Evaluation failed") else "type-ok"
        elif name in (":forget", ":forget_local"):
            tag = "" if msg == "" else "info"
        elif name == ":locals":
            names = [l.split()[0] for l in msg.split("\n") if l.strip()]
            tag = "locals " + " ".join(sorted(names))
        elif name == ":stack":
            fs = []
            for l in msg.split("\n"):
                m = re.search(r"(fun (\w+)\(\)|test (\w+)|closure|__toplevel__)\s*$", l)
                if m:
                    t = m.group(1)
                    fs.append("toplevel" if t == "__toplevel__" else ("fun " + m.group(2) if m.group(2) else t))
            tag = "stack " + " ".join(fs)
        elif name == ":namespace":
            tag = "namespace"
        return "cmd id=%s msg=%s frame=%s %s" % (ids, us(tag), fr, pr)
    return "unknown-kind %s" % kk


# ------------------------------------------------------------------ model side

def model_request(ctx, histories, cfg="patched", fuel=20000):
    """session_run lines for [(reqs, ints)]; `astx` of every input and of every command argument."""
    srcs = []
    for reqs, _ in histories:
        for r in reqs:
            if r["kind"] == "run":
                srcs.append(r["input"])
                t = r["input"].strip(" \t\n\r")
                srcs.append(t.split(" ", 1)[1] if " " in t else "")
    uniq = sorted(set(srcs))
    ast = ctx.garden_batch(["astx " + hexs(s) for s in uniq])
    amap = {}
    for s, a in zip(uniq, ast):
        amap[s] = a[3:] if a and a.startswith("OK ") else "(astx 1)"
    lines = []
    for reqs, ints in histories:
        parts = []
        for r in reqs:
            if r["kind"] == "run":
                t = r["input"].strip(" \t\n\r")
                args = t.split(" ", 1)[1] if " " in t else ""
                parts.append("(run %s h%s %s %s)" % (r.get("id", "-"), hexs(r["input"]), amap[r["input"]], amap[args]))
            elif r["kind"] == "raw":
                parts.append("(malformed)")
            elif r["kind"] == "interrupt":
                parts.append("(interrupt)")
            else:
                parts.append("(other %s)" % r["obj"].get("method", "x"))
        il = ",".join(str(t) for t in ints) if ints else "-"
        lines.append("session_run %s %d %s %s" % (cfg, fuel, il, " ".join(parts)))
    return lines


def parse_model(resp):
    """-> (lines, outcome string) or None"""
    if not resp or not resp.startswith("OK "):
        return None
    parts = resp[3:].split(" ;; ")
    end = parts[-1]
    m = re.match(r"END (\S+)(?: ([0-9a-f]*))? ?(\(state[^)]*\))?", end)
    outcome = m.group(1) if m else "?"
    detail = unhex(m.group(2)) if m and m.group(2) and outcome != "ok" and re.fullmatch(r"[0-9a-f]*", m.group(2) or "") else ""
    return parts[:-1], outcome, detail, (m.group(3) if m else None)


# ------------------------------------------------------------------ framed `garden json`

def run_framed(reqs, ints=(), per_request_timeout=90, probe=True):
    """Drive the real `garden json` process: one framed request at a time, wait for its response.
    Returns dict(responses=[(obj, printed)] per request or None, alive, probe_ok, ready, stderr)."""
    env = dict(os.environ, RUST_BACKTRACE="0", NO_COLOR="1")
    env.pop("GARDEN_VERIF_INTERRUPT_AT", None)
    if ints:
        env["GARDEN_VERIF_INTERRUPT_AT"] = ",".join(str(t) for t in ints)
    p = subprocess.Popen([common.GARDEN, "json"], stdin=subprocess.PIPE, stdout=subprocess.PIPE,
                         stderr=subprocess.PIPE, env=env, preexec_fn=common._limits(3))
    import selectors
    sel = selectors.DefaultSelector()
    sel.register(p.stdout, selectors.EVENT_READ)
    buf = b""

    def read_obj(timeout):
        nonlocal buf
        end = time.time() + timeout
        while True:
            if b"\n" in buf:
                line, buf = buf.split(b"\n", 1)
                if not line.strip():
                    continue
                try:
                    return json.loads(line.decode("utf-8", "replace"))
                except ValueError:
                    return {"kind": {"raw": {"s": line.decode("utf-8", "replace")}}}
            left = end - time.time()
            if left <= 0 or not sel.select(left):
                return None
            chunk = os.read(p.stdout.fileno(), 65536)
            if not chunk:
                return None
            buf += chunk

    out = dict(responses=[], alive=False, probe_ok=None, ready=False, extra=0)
    try:
        first = read_obj(90)
        out["ready"] = bool(first) and kind_of(first)[0] == "ready"

        def send(text):
            body = text.encode()
            p.stdin.write(b"Content-Length: %d\n" % len(body) + body + b"\n")
            p.stdin.flush()

        def get_response():
            printed = ""
            while True:
                o = read_obj(per_request_timeout)
                if o is None:
                    return None
                kk, v = kind_of(o)
                if kk == "printed":
                    printed += v["s"]
                elif kk in ("printed_stderr", "raw"):
                    continue
                else:
                    return (o, printed)
        dead = False
        for r in reqs:
            if dead:
                out["responses"].append(None)
                continue
            try:
                send(req_json(r))
            except (BrokenPipeError, OSError):
                dead = True
                out["responses"].append(None)
                continue
            got = get_response()
            out["responses"].append(got)
            if got is None:
                dead = True
        if probe and not dead:
            try:
                send(json.dumps({"method": "run", "input": ":abort"}))
                get_response()
                # an `interrupt` sent while idle interrupts the NEXT evaluation (documented): the
                # probe may be that evaluation once.
                # (and every tick of the GARDEN_VERIF_INTERRUPT_AT schedule not yet reached may hit a probe once)
                n_sources = len(ints) + sum(1 for r in reqs if r["kind"] == "interrupt")
                for attempt in range(2 + n_sources):
                    send(json.dumps({"method": "run", "input": "1 + 1", "id": 424242}))
                    got = get_response()
                    out["probe_ok"] = bool(got) and kind_of(got[0])[0] == "evaluate" and \
                        got[0]["kind"]["evaluate"]["value"].get("Ok") == "2" and got[0].get("id") == 424242
                    if out["probe_ok"] or not got or kind_of(got[0])[0] != "interrupted":
                        break
            except (BrokenPipeError, OSError):
                out["probe_ok"] = False
        # nothing more may arrive
        o = read_obj(0.2)
        if o is not None:
            out["extra"] += 1
        out["alive"] = p.poll() is None
    finally:
        try:
            p.kill()
        except OSError:
            pass
        try:
            _, se = p.communicate(timeout=5)
            out["stderr"] = se.decode("utf-8", "replace")[-600:]
        except Exception:
            out["stderr"] = ""
    return out
