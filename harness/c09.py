"""C09 — The JSON session answers every request and never dies.

Proof: GardenVerif.Props.C09 over the session model M6 (Model/Session.lean on top of the evaluator
model M4): no panic site of json_session.rs / commands.rs / env.rs is reachable, every request gets
exactly one response, the session invariant is preserved, by induction over request histories.
Evaluator panics (`eval`) are a separate outcome (C02's domain); the two command-induced ways to
reach one (`:skip` / `:replace` breaking the value-stack discipline) are known findings with
machine-checked witnesses.

Tie: (T) the command vocabulary is Tables.replCommands (regenerated from `Command::from_string`);
(C) request histories through `garden reftest-json-session` vs the Lean driver op `session_run`:
per request the response kind, echoed id, frame name, value / error kind, printed output; model
panic <=> real process death; a sample of histories (with `interrupt` requests) through the real framed
`garden json` process as well.
Direct oracle on the implementation alone: #responses (notifications excluded) = #requests, in order
(every echoed id is the id of the request at that position), exit status 0, no panic; framed: the
process is alive at the end and the final probe `1 + 1` answers 2.
"""
import collections
from . import common
from . import session_client as SC

LEAN_MODULES = ["GardenVerif.Props.C09"]

SEEDS = [
    # (requests, interrupts): the defects of DESIGN §8 and their neighbours
    (["1 + 1", ":skip", "2"], []),
    (["nosuch1 + nosuch2", ":skip", ":skip", "1"], []),
    (["if 1 { 2 } else { 3 }", ":replace True", "1"], []),
    (["match 1 { Some(x) => x }", ":resume", ":resume", "1"], []),
    ([":replace 5", ":fvalues", ":type continue", "1"], []),
    (["if True { nosuch }", ":abort", ":resume", ":skip", "1"], []),
    (["fun f(a) { let la = a + 1  la + nosuchz }", "f(1)", ":replace 7", ":skip", ":resume", ":locals", ":stack", ":abort", "1 + 1"], []),
    (["test t_bad { let tl = 1  nosuch_t }", ":test t_bad", ":test t_bad", ":stack", ":skip", ":skip", ":stack"], []),
    (["1 + 2", ":resume", ":resume"], [2]),
    (["let i = 0  while i < 5 { i += 1 }  i", ":resume", ":stack", ":resume"], [7, 15]),
    (["nosuch1 + 1", "fun nosuch1() { 1 }", ":resume", ":replace 3", ":resume"], []),
    # replay of the recorded finding C09/replace-value-discipline (known_findings.json), in every run
    (["for x in [1, 2] { nosuchf }", ":replace nosuch3", ":replace nosuch4",
      "fun nosuchf() {} fun nosuch3() {} fun nosuch4() {}", ":resume"], []),
]


def dependency_histories():
    """Histories where a command removes or changes the state a PENDING continuation depends on, then lets the
    continuation run: (what is pending) x (what the command changes) x (how evaluation is continued).
    Seeded change C09-1 (bound-variable check of `x = rhs` hoisted before the right-hand side) only died on
    `let x = 1`, `x = 1 / 0`, `:forget_local x`, `:skip`; random histories never line these up."""
    pendings = [
        (["let x = 1"], "x = 1 / 0"),
        (["let x = 1"], "x += 1 / 0"),
        (["let x = 1"], "x = nosuchr"),
        (["let x = 1"], "let y = x + nosuchr"),
        (["let x = [1]"], "x.append(1 / 0)"),
        (["fun f(a) { a }"], "f(1 / 0)"),
        (["fun f(a) { a }", "let x = 1"], "x = f(nosuchr)"),
        (["fun g(p) { let l = 1  l = p / 0  l }"], "g(1)"),
        (["fun g(p) { let l = 1  l += nosuchr  l }"], "g(1)"),
        (["fun f(a) { a }", "fun g(p) { f(p / 0) }"], "g(1)"),
    ]
    changes = [[":forget_local x"], [":forget_local l"], [":forget f"], ["fun f(a, b) { a }"],
               [":forget_local x", ":forget_local l", ":forget f"], []]
    conts = [[":skip"], [":replace 1"], [":resume"], [":replace 1", ":skip"]]
    out = []
    for setup, failing in pendings:
        for ch in changes:
            for co in conts:
                out.append((setup + [failing] + ch + co + [":stack", "1 + 1"], []))
    return out


def eval_up_to_histories():
    """`eval_up_to` with a buffer that differs from what the session has loaded (parameters added, removed,
    renamed; another function), the cursor on every identifier of the buffer, after the function was or was
    not called. Seeded change C09-2 indexed the saved call arguments by the NEW parameter list and died on
    `fun f(a) { a }`, `f(1)`, eval_up_to(`fun f(a, b) { a }`, cursor on b)."""
    import re as _re
    loaded = [("fun f(a) { a }", "f(1)"), ("fun f(a, b) { a + b }", "f(1, 2)"), ("fun f() { 1 }", "f()"),
              ("method m(this: Int, k: Int): Int { this + k }", "3.m(4)")]
    buffers = ["fun f(a, b) { a }", "fun f(a, b, c) { c }", "fun f() { 1 }", "fun f(b) { b }", "fun g(z) { z }",
               "method m(this: Int, k: Int, j: Int): Int { this + j }", "method m(this: Int): Int { this }",
               "method m(this: String, k: Int): Int { k }"]
    out = []
    for d, call in loaded:
        for buf in buffers:
            offs = [m.start() for m in _re.finditer(r"[A-Za-z_]\w*", buf)] + [len(buf) - 1]
            for off in offs:
                for called in (True, False):
                    reqs = [dict(kind="run", input=d)] + ([dict(kind="run", input=call)] if called else [])
                    reqs.append(dict(kind="other", obj={"method": "eval_up_to", "path": None, "src": buf, "offset": off}))
                    reqs.append(dict(kind="run", input="1 + 2"))
                    out.append(reqs)
    return out


def seed_history(s):
    reqs, ints = s
    return [dict(kind="run", input=x, id=i + 1) for i, x in enumerate(reqs)], ints


def attribute_death(reqs, k, panic, cmds):
    """Key for a process death while handling request k."""
    site = "%s:%s" % (panic["file"], panic["line"]) if panic else "unknown"
    since = []
    for r in reqs[:k + 1]:
        if r["kind"] != "run":
            continue
        name, _ = SC.harness_classify(r["input"], cmds)
        if name == ":abort":
            since = []
        since.append(name)
    if panic and panic["file"].endswith("eval.rs"):
        if ":skip" in since:
            return "C09/skip-value-discipline", site
        if ":replace" in since:
            return "C09/replace-value-discipline", site
    return "C09/session-dies/" + site, site


def judge(ctx, reqs, ints, real, cmds, via):
    """Direct oracle on one real run. Returns (#responses counted, died_at or None)."""
    resp = SC.split_responses(real["objs"])
    n = len(reqs)
    died_at = None
    if real["panic"] or real["rc"] != 0 or len(resp) < n:
        died_at = min(len(resp), n - 1)
        key, site = attribute_death(reqs, died_at, real["panic"], cmds)
        if not real["panic"] and real["rc"] == 0:
            key = "C09/missing-response"   # the process lived, a request was not answered
        ctx.fail(key, "%d responses for %d requests; first unanswered request about %d (%s): %s" % (
            len(resp), n, died_at, site, (real["panic"] or {}).get("msg", real["stderr"][-200:])),
                 requests=[SC.req_json(r) for r in reqs], interrupts=list(ints), via=via,
                 replay="printf '%s\\n' <requests> > h.jsonl; GARDEN_VERIF_INTERRUPT_AT=%s garden reftest-json-session h.jsonl" % ("%s", ",".join(map(str, ints))))
    elif len(resp) > n:
        ctx.fail("C09/extra-response", "%d responses for %d requests" % (len(resp), n),
                 requests=[SC.req_json(r) for r in reqs], interrupts=list(ints), via=via)
    # in order: an echoed id is the id of the request at that position
    for i, (o, _) in enumerate(resp[:n]):
        rid = o.get("id")
        if rid is not None and reqs[i].get("id") != rid:
            ctx.fail("C09/response-out-of-order", "response %d carries id %r, request has %r" % (i, rid, reqs[i].get("id")),
                     requests=[SC.req_json(r) for r in reqs], interrupts=list(ints), via=via)
            break
    return resp, died_at


def run(ctx):
    cmds = SC.commands()
    rng = ctx.rng
    ctx.cov["commands_in_table"] = len(cmds)
    n_hist = ctx.scale(160, 2500)
    max_len = ctx.scale(8, 12)
    histories = [seed_history(s) for s in SEEDS]
    dep = dependency_histories()
    if ctx.tier == "quick":
        dep = rng.sample(dep, 80)
    # a function redefined while a call to it is pending: the implementation calls the OLD function value it
    # already evaluated; the model refers to functions by name (documented model limit) -> oracle only
    nomodel = set(len(histories) + i for i, d in enumerate(dep) if any(x.startswith("fun f(a, b)") for x in d[0][1:]))
    histories += [seed_history(s) for s in dep]
    n_hist += len(dep)
    eut = eval_up_to_histories()
    if ctx.tier == "quick":
        eut = rng.sample(eut, 90)
    for reqs in eut:
        for i, r in enumerate(reqs):
            r["id"] = i + 1
        histories.append((reqs, []))
    n_hist += len(eut)
    while len(histories) < n_hist:
        reqs, ints = SC.gen_history(rng, rng.randrange(3, max_len + 1), cmds)
        histories.append((reqs[:max_len], ints))
    ctx.rule = ("G-hist: request histories (length <= %d) from a state machine idle / errored at toplevel / "
                "errored inside a call / interrupted (GARDEN_VERIF_INTERRUPT_AT ticks); evals that succeed, fail "
                "at toplevel, fail inside nested calls/loops/blocks, definitions, tests, every REPL command of "
                "Tables.replCommands with and without argument (except :quit), unknown commands, parse errors, "
                "malformed JSON, unknown methods, load / eval_up_to. Non-trivial: the history issues a command "
                "while something is pending (previous response was an error or came from a non-toplevel frame)."
                % max_len)
    ctx.assumptions += [
        "the model follows one namespace, functions without type hints, the built-ins of M4; histories that leave "
        "this fragment (:namespace x, :trace, load, eval_up_to, :forget of a built-in) are compared up to that "
        "request and judged by the direct oracle in full",
        "`interrupt` requests are only sent through the framed `garden json` runner (in reftest mode the reader "
        "thread handles them concurrently with the eval thread)",
        "evaluation inside a request is bounded by fuel in the model; non-termination of user code is out of scope",
        "the model refers to functions by name: a history that REDEFINES a function while a call to it is pending "
        "(the implementation then calls the old function value it already evaluated) is judged by the direct "
        "oracle only (dependency stream)",
    ]

    # ---- real runs
    reals = common.pmap(lambda h: SC.run_reftest(ctx, h[0], h[1]), histories)
    # ---- model runs
    mlines = SC.model_request(ctx, histories, cfg="patched")
    mresps = ctx.model_batch(mlines, timeout=900)

    pair_cov = collections.Counter()
    n_cmp = n_resp = n_unsup = n_died = 0
    kinds = collections.Counter()
    for hidx, ((reqs, ints), real, mr) in enumerate(zip(histories, reals, mresps)):
        if real["timeout"]:
            # user code that does not terminate is out of scope (and a debug build on a loaded machine is slow)
            ctx.cov["timeouts_skipped"] = ctx.cov.get("timeouts_skipped", 0) + 1
            continue
        resp, died_at = judge(ctx, reqs, ints, real, cmds, "reftest-json-session")
        n_resp += len(resp)
        # state coverage: (command, state before it)
        state = "idle"
        pending_cmd = False
        for i, r in enumerate(reqs):
            if r["kind"] == "run":
                name, _ = SC.harness_classify(r["input"], cmds)
                if name.startswith(":"):
                    pair_cov[(name, state)] += 1
                    if state != "idle":
                        pending_cmd = True
            if i < len(resp):
                kk, v = SC.kind_of(resp[i][0])
                fr = (v or {}).get("stack_frame_name") if isinstance(v, dict) else None
                iserr = kk == "interrupted" or (kk == "evaluate" and "Err" in v["value"] and fr is not None)
                if kk == "interrupted" and fr is not None:
                    state = "interrupted"
                elif iserr:
                    state = "err-top" if SC.frame_tag(fr) == "toplevel" else "err-call"
                elif fr is not None and SC.frame_tag(fr) != "toplevel":
                    state = "in-call"
                elif kk == "run_command" and v.get("message") == "Aborted":
                    state = "idle"
                elif kk == "evaluate" and "Ok" in v["value"] and SC.frame_tag(fr) == "toplevel":
                    state = "idle"
        ctx.case(tuple(SC.req_json(r) for r in reqs) + tuple(ints), pending_cmd and died_at is None)
        # ---- correspondence
        if hidx in nomodel:
            continue
        pm = SC.parse_model(mr)
        if pm is None:
            ctx.disagree("session_run", [SC.req_json(r) for r in reqs], mr, "driver error")
            continue
        mlines_, outcome, detail, _ = pm
        kinds[outcome] += 1
        if outcome == "unsupported" or outcome == "fuel" or outcome == "exit":
            n_unsup += 1
        real_lines = [SC.canon_real(reqs[i], o, pr, cmds) for i, (o, pr) in enumerate(resp[:len(reqs)])]
        upto = len(mlines_)
        for i in range(min(upto, len(real_lines))):
            n_cmp += 1
            if mlines_[i] != real_lines[i]:
                ctx.disagree("session_run response %d" % i, dict(requests=[SC.req_json(r) for r in reqs], interrupts=ints),
                             mlines_[i], real_lines[i])
                break
        else:
            if outcome.startswith("panic"):
                n_died += 1
                if died_at is None or died_at != upto:
                    ctx.disagree("session_run death", dict(requests=[SC.req_json(r) for r in reqs], interrupts=ints),
                                 "model panics at request %d: %s" % (upto, detail), "implementation: died_at=%r" % (died_at,))
            elif outcome == "ok":
                if died_at is not None or len(real_lines) != upto:
                    ctx.disagree("session_run liveness", dict(requests=[SC.req_json(r) for r in reqs], interrupts=ints),
                                 "model answers all %d requests" % upto,
                                 "implementation: %d responses, died_at=%r %s" % (len(real_lines), died_at, real["panic"]))
                    if died_at is not None:
                        # the process really died on this history and the model (which reproduces the deaths of
                        # the known :skip/:replace findings) says it should not: a concrete failing input, not
                        # one of the recorded findings
                        ctx.fail("C09/death-not-predicted-by-model",
                                 "the session died at request %d (%s); the model, which reproduces the recorded "
                                 ":skip/:replace deaths, answers every request of this history" % (died_at, real["panic"]),
                                 requests=[SC.req_json(r) for r in reqs], interrupts=ints, via="reftest-json-session")
            elif died_at is not None and died_at < upto:
                ctx.disagree("session_run death", dict(requests=[SC.req_json(r) for r in reqs], interrupts=ints),
                             "model alive up to request %d" % upto, "implementation died at %d" % died_at)
        if len(ctx.samples) < 6:
            ctx.sample(dict(requests=[SC.req_json(r) for r in reqs], interrupts=ints, responses=real_lines[:4]))

    states = ["idle", "err-top", "err-call", "in-call", "interrupted"]
    names = [c[0] for c in cmds if c[0] != ":quit"]
    core = [":skip", ":replace", ":resume", ":abort", ":test", ":type", ":forget", ":forget_local", ":locals", ":stack"]
    missing = [(c, s) for c in core for s in states[:3] if pair_cov[(c, s)] == 0]
    ctx.cov["histories"] = len(histories)
    ctx.cov["responses_counted"] = n_resp
    ctx.cov["responses_compared_with_model"] = n_cmp
    ctx.cov["model_outcomes"] = dict(kinds)
    ctx.cov["histories_leaving_fragment"] = n_unsup
    ctx.cov["model_predicted_deaths_confirmed"] = n_died
    ctx.cov["commands_issued"] = len(set(c for c, _ in pair_cov))
    ctx.cov["command_x_state_pairs"] = len(pair_cov)
    ctx.cov["core_command_x_state_missing"] = missing
    ctx.cov["commands_never_issued"] = [c for c in names if not any(pair_cov[(c, s)] for s in states)]
    ctx.log("reftest: %d histories, %d responses, %d compared; model outcomes %s" % (len(histories), n_resp, n_cmp, dict(kinds)))

    # ---- the real framed `garden json` process
    n_framed = ctx.scale(16, 200)
    framed = []
    for k in range(n_framed):
        reqs, ints = SC.gen_history(rng, rng.randrange(3, max_len + 1), cmds, with_unmodelled=0)
        reqs = [r for r in reqs[:max_len] if not (r["kind"] == "run" and SC.harness_classify(r["input"], cmds)[0] in SC.UNMODELLED)]
        # sprinkle interrupt requests: they are answered by the reader thread at once
        for _ in range(rng.randrange(0, 3)):
            reqs.insert(rng.randrange(0, len(reqs) + 1), dict(kind="interrupt"))
        framed.append((reqs, ints))
    fr_res = common.pmap(lambda h: SC.run_framed(h[0], h[1]), framed, workers=8)
    fm = ctx.model_batch(SC.model_request(ctx, framed, cfg="patched"), timeout=900)
    n_fr_cmp = 0
    for (reqs, ints), out, mr in zip(framed, fr_res, fm):
        rj = [SC.req_json(r) for r in reqs]
        got = out["responses"]
        missing_at = next((i for i, g in enumerate(got) if g is None), None)
        if not out["ready"]:
            ctx.fail("C09/framed-no-ready", "no `ready` message", requests=rj, stderr=out.get("stderr"))
            continue
        if missing_at is not None or not out["alive"] or out["probe_ok"] is not True:
            import re as _re
            m = SC.PANIC_RE.search(out.get("stderr") or "")
            panic = dict(file=m.group(1), line=int(m.group(2)), msg=m.group(3)) if m else None
            key, site = attribute_death(reqs, missing_at if missing_at is not None else len(reqs) - 1, panic, cmds)
            ctx.fail(key, "framed `garden json`: no response to request %r / alive=%s / probe=%s (%s)" % (
                missing_at, out["alive"], out["probe_ok"], site), requests=rj, interrupts=ints, via="garden json",
                stderr=out.get("stderr"))
        if out["extra"]:
            ctx.fail("C09/extra-response", "framed session sent an unsolicited response", requests=rj, interrupts=ints)
        for i, g in enumerate(got):
            if g is not None and g[0].get("id") is not None and g[0].get("id") != reqs[i].get("id"):
                ctx.fail("C09/response-out-of-order", "framed: response %d carries id %r" % (i, g[0].get("id")), requests=rj)
        ctx.case(("framed",) + tuple(rj) + tuple(ints), any(r["kind"] == "interrupt" for r in reqs))
        pm = SC.parse_model(mr)
        if pm is None:
            ctx.disagree("session_run (framed)", rj, mr, "driver error")
            continue
        ml, outcome, detail, _ = pm
        for i in range(min(len(ml), len(got))):
            if got[i] is None:
                break
            rl = SC.canon_real(reqs[i], got[i][0], got[i][1], cmds)
            n_fr_cmp += 1
            if rl != ml[i]:
                ctx.disagree("session_run (framed) response %d" % i, dict(requests=rj, interrupts=ints), ml[i], rl)
                break
    ctx.cov["framed_sessions"] = len(framed)
    ctx.cov["framed_responses_compared"] = n_fr_cmp
    ctx.cov["framed_alive_and_probe_ok"] = sum(1 for o in fr_res if o["alive"] and o["probe_ok"])
    ctx.log("framed: %d sessions, %d alive with probe ok, %d responses compared" % (
        len(framed), ctx.cov["framed_alive_and_probe_ok"], n_fr_cmp))
