import GardenVerif.Driver.Sexp
import GardenVerif.Model.IntOps
import GardenVerif.Model.ValueEq
/-!
Driver ops for M3:

* `arith <op> <val> <val>` — `eval_int_binop` / `eval_float_binop` / `eval_assign_update`
  (`op` one of `+ - * / % ** & | < > <= >= +. -. *. /. += -=`; `val` one of `i:<decimal>`,
  `f:<16 hex digits of the IEEE bits>`, `b:true|false`, `o:<tag>`), on the model of the tree
  the check builds; `arith_pinned …` the same on the model of the unpatched tree.
  Response: `OK i:<n>` | `OK f:<bits>` (`f:nan` for any NaN) | `OK b:<bool>` | `OK exc:<kind>`
  | `PANIC <hex of site>`.
* `valeq <lit> <lit>` — `OK <a == b> <a != b>` on the values the two literals evaluate to;
  `valeq_pinned` the same with the pinned tree's `eq`. Literals:
  `(int i:5)`, `(float f:<bits>)`, `(str s:<hex>)`, `(list L…)`, `(tuple L…)`,
  `(dict (kv s:<hex> L)…)`, `(variant Name nparams idx hint|- [L])`,
  `(struct Name nparams (field name hint|- L)…)`.
-/

namespace DriverArith
open IntOps

def hexDigits (n : Nat) (width : Nat) : String :=
  let rec go (w : Nat) (n : Nat) (acc : List Char) : List Char :=
    match w with
    | 0 => acc
    | w + 1 => go w (n / 16) (Hex.digit (n % 16) :: acc)
  String.ofList (go width n [])

def parseHexNat (s : String) : Option Nat :=
  s.toList.foldlM (fun acc c => (Hex.val c).map (fun d => acc * 16 + d)) 0

/-- Lean's IEEE double as the float carrier of the model. -/
def leanFloat : FloatImpl Float :=
  { add := (· + ·), sub := (· - ·), mul := (· * ·), div := (· / ·), isZero := fun f => f == 0.0 }

def parseInt64 (s : String) : Option Int64 :=
  match s.toInt? with
  | some n => if fits n then some (Int64.ofInt n) else none
  | none => none

def parseVal (s : String) : Option (AVal Float) :=
  if s.startsWith "i:" then (parseInt64 (s.drop 2).toString).map .int
  else if s.startsWith "f:" then
    let h := (s.drop 2).toString
    if h.length != 16 then none else (parseHexNat h).map fun n => .float (Float.ofBits (UInt64.ofNat n))
  else if s == "b:true" then some (.bool true)
  else if s == "b:false" then some (.bool false)
  else if s.startsWith "o:" then some (.other (s.drop 2).toString)
  else none

def errName : ErrKind → String
  | .typeError e side sug =>
      s!"type-{e}-{match side with | .lhs => "lhs" | .rhs => "rhs"}{if sug then "-suggest" else ""}"
  | .divZero => "div-zero"
  | .divOverflow => "div-overflow"
  | .remZero => "rem-zero"
  | .negExponent => "neg-exponent"
  | .expTooLarge => "exp-too-large"
  | .powOverflow => "pow-overflow"

def showRes : Res (AVal Float) → String
  | .ok (.int i) => s!"OK i:{i.toInt}"
  | .ok (.float f) => if f.isNaN then "OK f:nan" else s!"OK f:{hexDigits f.toBits.toNat 16}"
  | .ok (.bool b) => s!"OK b:{b}"
  | .ok (.other t) => s!"OK o:{t}"
  | .exception k => s!"OK exc:{errName k}"
  | .panic site => s!"PANIC {Hex.encode site}"

def intOpOf : String → Option IntOp
  | "+" => some .add | "-" => some .sub | "*" => some .mul | "/" => some .div
  | "%" => some .mod | "**" => some .pow | "&" => some .band | "|" => some .bor
  | "<" => some .lt | ">" => some .gt | "<=" => some .le | ">=" => some .ge
  | _ => none

def floatOpOf : String → Option FloatOp
  | "+." => some .add | "-." => some .sub | "*." => some .mul | "/." => some .div
  | _ => none

def updOpOf : String → Option UpdOp
  | "+=" => some .add | "-=" => some .sub
  | _ => none

/-- `intBinop` with the pinned tree's arithmetic arms. -/
def intBinopPinned (op : IntOp) (l r : AVal Float) : Res (AVal Float) :=
  match l, r with
  | .int a, .int b => intArithPinned op a b
  | _, _ => intBinop op l r

def arith (pinned : Bool) (op : String) (l r : AVal Float) : Option (Res (AVal Float)) :=
  match intOpOf op, floatOpOf op, updOpOf op with
  | some o, _, _ => some (if pinned then intBinopPinned o l r else intBinop o l r)
  | _, some o, _ => some (floatBinop leanFloat o l r)
  | _, _, some o => some (if pinned then assignUpdatePinned o l r else assignUpdate o l r)
  | _, _, _ => none

/-! literal values -/

def natOf (s : String) : Option Nat := s.toNat?

def hintOf (s : String) : Option (Option Nat) :=
  if s == "-" then some none else (natOf s).map some

def strAtom (s : String) : Option String :=
  if s.startsWith "s:" then Hex.decode (s.drop 2).toString else none

mutual
def toLit : Sexp → Option Lit
  | .list [.atom "int", .atom i] =>
      if i.startsWith "i:" then (parseInt64 (i.drop 2).toString).map .int else none
  | .list [.atom "float", .atom f] =>
      if f.startsWith "f:" && f.length == 18 then
        (parseHexNat (f.drop 2).toString).map fun n => .float (UInt64.ofNat n)
      else none
  | .list [.atom "str", .atom s] => (strAtom s).map .str
  | .list (.atom "list" :: items) => (toLits items).map .list
  | .list (.atom "tuple" :: items) => (toLits items).map .tuple
  | .list (.atom "dict" :: kvs) => (toKvs kvs).map .dict
  | .list [.atom "variant", .atom name, .atom np, .atom idx, .atom hint] =>
      match natOf np, natOf idx, hintOf hint with
      | some np, some idx, some h => some (.variant name np idx h none)
      | _, _, _ => none
  | .list [.atom "variant", .atom name, .atom np, .atom idx, .atom hint, p] =>
      match natOf np, natOf idx, hintOf hint, toLit p with
      | some np, some idx, some h, some p => some (.variant name np idx h (some p))
      | _, _, _, _ => none
  | .list (.atom "struct" :: .atom name :: .atom np :: fields) =>
      match natOf np, toSFields fields with
      | some np, some fs => some (.struct name np fs)
      | _, _ => none
  | _ => none
def toLits : List Sexp → Option (List Lit)
  | [] => some []
  | s :: rest => match toLit s, toLits rest with
    | some t, some ts => some (t :: ts)
    | _, _ => none
def toKvs : List Sexp → Option (List (String × Lit))
  | [] => some []
  | .list [.atom "kv", .atom k, v] :: rest =>
    match strAtom k, toLit v, toKvs rest with
    | some k, some v, some r => some ((k, v) :: r)
    | _, _, _ => none
  | _ :: _ => none
def toSFields : List Sexp → Option (List (String × Option Nat × Lit))
  | [] => some []
  | .list [.atom "field", .atom k, .atom h, v] :: rest =>
    match hintOf h, toLit v, toSFields rest with
    | some h, some v, some r => some ((k, h, v) :: r)
    | _, _, _ => none
  | _ :: _ => none
end

def handle (op : String) (rest : String) : Option String :=
  if op == "arith" || op == "arith_pinned" then
    match rest.splitOn " " with
    | [o, l, r] =>
      match parseVal l, parseVal r with
      | some l, some r =>
        match arith (op == "arith_pinned") o l r with
        | some res => some (showRes res)
        | none => some "ERR operator"
      | _, _ => some "ERR value"
    | _ => some "ERR arity"
  else if op == "valeq" || op == "valeq_pinned" then
    match Sexp.parseAll rest with
    | some [a, b] =>
      match toLit a, toLit b with
      | some a, some b =>
        let va := (Lit.eval a).1
        let vb := (Lit.eval b).1
        if op == "valeq" then some s!"OK {valueEq va vb} {valueNe va vb}"
        else some s!"OK {valueEqPinned va vb} {!valueEqPinned va vb}"
      | _, _ => some "ERR literal"
    | _ => some "ERR parse"
  else none

end DriverArith
