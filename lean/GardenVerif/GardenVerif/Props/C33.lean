import GardenVerif.Lemmas.Parse
/-!
C33 — Printing a syntax tree and parsing it gives the same tree.

`Print.printExpr` / `Print.printItems` give the canonical source text of every tree of the model
(all expression and statement forms and all definitions; used by the correspondence/oracle run on
generated trees of every node kind). The machine-checked round trip below is PARTIAL: it covers the
sub-grammar `ParseLemmas.WF` = integer literals, variables, calls with any number of arguments,
parenthesised expressions and binary-operator chains over all 21 operators, nested to any depth.

Full statement (not proved here):
  `∀ t : Item list, WellFormedTree t → parseItems fuel (lexOf 0 (printItems t)) = ok t, no diagnostics`
where `WellFormedTree` excludes exactly what the grammar cannot express (see harness/tree_gen.py,
which generates under these rules, and the report): a binary operator whose right child is an
unparenthesised operator chain or whose left child ends in an open-ended form (`let`, assignment,
`return e`, …); receivers/callees that are not closed forms; a callee that is a dot access
(`a.b(…)` is a method call); a dot access immediately followed in a block by an expression starting
with `(` (the method-call parenthesis need not touch, even across lines); names that are empty,
keywords, `Dict`, or the placeholder names; integer literals outside i64; lambdas with type
parameters; a top-level expression starting with `fun`; duplicate parameter / destructuring names.
Missing for the full statement: the statement forms (let/assign/if/while/for/match/try/return/
break/continue/assert), list/tuple/dict/struct literals, lambdas, strings/floats, method calls /
dot / `::` access, blocks and definitions — same proof pattern (`ReachAll`), not done in the time box.

Negative integer literals: printed as the single token `-n`; the printer never glues an operator
to a literal (operators have a space on both sides), so `a - 1` and `a -1` (= `a` then literal `-1`)
are never confused. `IntTok (toString i) i` (the decimal text of `i` is read back as `i`) is a
hypothesis of `WF.int`, discharged by `decide` for concrete literals.
-/

namespace C33
open Parse Print ParseLemmas

/-- **Round trip (partial: operator/call/parenthesis fragment).** For every well-formed tree `e` of
the fragment, in every context (`pre` before; `rest` after, not continuing the expression), for every
fuel above a bound depending only on `e`: parsing the lexed canonical text of `e` returns `e`,
consumes exactly its tokens and emits no diagnostic. -/
theorem parse_print_partial {e : Expr} (h : WF false e) :
    ∃ n, ∀ (fuel ln : Nat) (first : Bool) (pre rest : List Tok) (d : List DiagKind),
      n ≤ fuel → Follow rest → ChainStop rest →
      ∃ ln', parseExpression (pre ++ lexOf ln (printExpr first e) ++ rest) false fuel ⟨pre.length, d⟩ =
        .ok ⟨e, ⟨ln', pre.length + (lexOf ln (printExpr first e)).length⟩⟩
            ⟨pre.length + (lexOf ln (printExpr first e)).length, d⟩ :=
  parse_print_fragment h

/-- The same for a whole text: index 0, nothing before or after, no diagnostics at all. -/
theorem parse_print_whole_partial {e : Expr} (h : WF false e) :
    ∃ n, ∀ fuel, n ≤ fuel →
      ∃ ln', parseExpression (lexOf 0 (printExpr true e)) false fuel ⟨0, []⟩ =
        .ok ⟨e, ⟨ln', (lexOf 0 (printExpr true e)).length⟩⟩ ⟨(lexOf 0 (printExpr true e)).length, []⟩ := by
  obtain ⟨n, hn⟩ := parse_print_partial h
  refine ⟨n, fun fuel hf => ?_⟩
  have := hn fuel 0 true [] [] [] hf (by intro t h; simp at h) (by intro t h; simp at h)
  simpa using this

/-- A tree of the fragment with every node kind: `f(1, (g() + x) * 2) - -3`. -/
example : WF false
    (.binop (.call (.var "f") [.intLit 1, .binop (.paren (.binop (.call (.var "g") []) "+" (.var "x"))) "*" (.intLit 2)])
      "-" (.intLit (-3))) := by
  have i1 : IntTok (toString (1 : Int)) 1 := ⟨by decide, by decide, by decide, by decide, by decide⟩
  have i2 : IntTok (toString (2 : Int)) 2 := ⟨by decide, by decide, by decide, by decide, by decide⟩
  have i3 : IntTok (toString (-3 : Int)) (-3) := ⟨by decide, by decide, by decide, by decide, by decide⟩
  have vf : ValidName "f" := ⟨by decide, by decide, by decide, by decide⟩
  have vg : ValidName "g" := ⟨by decide, by decide, by decide, by decide⟩
  have vx : ValidName "x" := ⟨by decide, by decide, by decide, by decide⟩
  refine .binop (.closed (.call (.var vf) ?_)) (by decide) (.int i3)
  intro a ha
  simp at ha
  rcases ha with rfl | rfl
  · exact .closed (.int i1)
  · refine .binop (.closed (.paren (.binop (.closed (.call (.var vg) ?_)) (by decide) (.var vx)))) (by decide) (.int i2)
    intro a ha; simp at ha

end C33
