import GardenVerif.Lemmas.Format
/-!
C17 — Formatting never changes a program's meaning.  (V) certified validator (DESIGN §3, §7 C17).

What is proved (for ALL texts / edit lists, over Model/Format.lean):

* `gap_rewrite_same_tokens` — a text given as a segmentation gap₀ tok₁ gap₁ … tokₙ gapₙ whose gaps
  are replaced by whitespace with the same number of newlines and the same emptiness has the same
  token/gap view, hence is related by `sameTokens`. It is stated over segmentations: that the
  REAL lexer segments `render a` into `a`'s pieces is not proved (Model/Lex.lean is a separate
  module); on every judged input the views are built from the real lexer's output instead.
* `phase_legal_spans` (= `phases_total` for phase 4) — if the span edits, in the order
  `apply_span_edits` applies them, are pairwise disjoint, in range and cover gap bytes only
  (`spansInGaps`, evaluated on the real edit lists), `applySpanEdits` does not panic and the token
  and comment bytes (`content`) are unchanged.
* `phase_legal_indent` — if every line edit only removes gap bytes (`editsInGaps`: the edited
  line does not start inside a token, a stripped `\r` / dropped final `\n` is a gap byte),
  `applyIndentationEdits` leaves `content` unchanged. (The model has no panic site: the Rust has
  none on this path.)

PARTIAL with respect to DESIGN's `phase_legal : EditsInGaps src edits → LegalGapRewrite src (phase
src edits)`: the two phase theorems establish the "never touches token or comment bytes" half of
`LegalGapRewrite`; that the phases also preserve gap emptiness / newline presence *where the
parser reads them* is not proved for the phase models — it is decided per input by evaluating
`sameTokens` on the real token lists of (input, output). `sameTokens_same_parse` (DESIGN) needs the
parser model M2 and is replaced per input by the comparison of the real parser's trees.
-/
namespace C17
open Fmt

/-- Legal gap rewrites do not change the view (tokens, comments, attachment, adjacency, line
relations), so the validator's relation holds between them. -/
theorem gap_rewrite_same_tokens (a b : Segd) (h : legalGapRewrite a b = true) :
    sameTokens a.view b.view = true := by
  rw [view_eq_of_legal a b h]
  exact sameTokens_refl _

/-- `foo(1)⏎` with the final newline replaced by blanks-and-newline, `( 1` not allowed: -/
example : legalGapRewrite
    ⟨[⟨[], .tok, [102, 111, 111]⟩, ⟨[], .tok, [40]⟩, ⟨[32], .tok, [49]⟩, ⟨[], .tok, [41]⟩], [10]⟩
    ⟨[⟨[], .tok, [102, 111, 111]⟩, ⟨[], .tok, [40]⟩, ⟨[32, 32], .tok, [49]⟩, ⟨[], .tok, [41]⟩], [32, 10, 10]⟩ = true := by
  decide
/-- … but `foo (1)` is not a legal rewrite of `foo(1)` (a call would become a tuple). -/
example : legalGapRewrite
    ⟨[⟨[], .tok, [102, 111, 111]⟩, ⟨[], .tok, [40]⟩], []⟩
    ⟨[⟨[], .tok, [102, 111, 111]⟩, ⟨[32], .tok, [40]⟩], []⟩ = false := by
  decide

/-- the relation itself rejects call → tuple (`foo(` vs `foo (`) and `return x` → `return⏎x` -/
example : sameTokens
    ⟨[⟨[102, 111, 111], false, false, []⟩, ⟨[40], true, true, []⟩], []⟩
    ⟨[⟨[102, 111, 111], false, false, []⟩, ⟨[40], false, true, []⟩], []⟩ = false := by decide
example : sameTokens
    ⟨[⟨[114, 101, 116, 117, 114, 110], false, false, []⟩, ⟨[120], false, true, []⟩], []⟩
    ⟨[⟨[114, 101, 116, 117, 114, 110], false, false, []⟩, ⟨[120], false, false, []⟩], []⟩ = false := by decide
/-- … and accepts `if(x)` → `if (x,)` (blank after a keyword, optional comma before `)`) -/
example : sameTokens
    ⟨[⟨[105, 102], false, false, []⟩, ⟨[40], true, true, []⟩, ⟨[120], true, true, []⟩, ⟨[41], true, true, []⟩], []⟩
    ⟨[⟨[105, 102], false, false, []⟩, ⟨[40], false, true, []⟩, ⟨[120], true, true, []⟩, ⟨[44], true, true, []⟩,
      ⟨[41], false, false, []⟩], []⟩ = true := by decide

/-- Phase 4 under `spansInGaps`: total, and token/comment bytes unchanged. -/
theorem phase_legal_spans (t : MText) (es : List SpanEdit)
    (h : spansInGaps t t.length (sortDesc es) = true) :
    ∃ r, applySpanEdits t es = .ok r ∧ content r = content t := by
  unfold applySpanEdits
  split
  · exact ⟨t, rfl, rfl⟩
  · exact applySorted_content t _ t t.length h (Nat.le_refl _) rfl

/-- `a {b}` → `a { b }`: two insertions, applied from the right -/
example : spansInGaps (markSpans [97, 32, 123, 98, 125] [(0, 1), (2, 3), (3, 4), (4, 5)]) 5
    [⟨4, 4, plain [32]⟩, ⟨3, 3, plain [32]⟩] = true := by decide

/-- Phase 5 under `editsInGaps`: token/comment bytes unchanged. -/
theorem phase_legal_indent (src : MText) (edits : List (Nat × Nat))
    (h : editsInGaps src edits = true) :
    content (applyIndentationEdits src edits) = content src := by
  unfold editsInGaps at h
  unfold applyIndentationEdits
  have := indentGo_content edits (rawLines src).length (rawLines src) 0 h
  rw [rawLines_flatten] at this
  simp only
  split
  · rw [content_append, content_NL, this]; simp
  · exact this

/-- `{⏎x⏎}` with line 1 re-indented to 2: in gaps; the same edit on `"⏎x"` (line 1 starts inside
the string token) is not. -/
example : editsInGaps (markSpans [123, 10, 120, 10, 125] [(0, 1), (2, 3), (4, 5)]) [(1, 2)] = true := by decide
example : editsInGaps (markSpans [34, 10, 32, 120, 34] [(0, 5)]) [(1, 2)] = false := by decide

end C17
