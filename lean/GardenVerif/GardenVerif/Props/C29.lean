import GardenVerif.Lemmas.LspPos
/-!
# C29 — LSP positions and edits map exactly onto the document

Model: M9 (`Model/LspPos.lean`), a transcription of `offset_to_lsp_position`,
`garden_pos_to_lsp_range`, `line_char_to_offset`, `whole_document_range` of `src/lsp.rs`, and the
LSP specification's definition of applying a `TextEdit` (`applyEdit`, lines end at `\n`, `\r\n`
or `\r`, columns are UTF-16 code units).

All theorems quantify over every document (`List Char`, any Unicode scalar values) and every
offset. The only size hypothesis is `byteLen src < 2^32`, which is what makes the Rust's
`as u32` casts lossless (LSP positions are `u32`).

* `offset_roundtrip` — first sentence of the property.
* `whole_range_covers` — `whole_document_range` converts back to `0 .. src.len()` for every
  document, **with no hypothesis about `'\r'`**: in the implementation's own line model (only
  `'\n'` ends a line; `str::lines()` keeps a final bare `'\r'`) the range is always exact.
* `apply_edit_spec`, `apply_whole_replace` — second sentence: an edit whose range the server
  computed from byte offsets, applied as the *specification* defines, replaces exactly those
  bytes. This needs `NoBareCR` (every `'\r'` is followed by `'\n'`), because the specification
  also ends a line at a bare `'\r'` and the implementation does not;
  `apply_whole_replace_needs_noBareCR` shows on concrete witnesses (`"a\rb"`, `"a\r"`) that the
  hypothesis cannot be dropped. (Not proved: that *every* document with a bare CR fails, i.e.
  that `NoBareCR` is also necessary document by document; the exhaustive run observes it.)
-/

namespace C29
open LspPos

/-- **Round trip.** For every document and every character-boundary offset `o`, converting
`o` to an LSP position (on its line `lineOf src o`) does not panic, and converting that position
back yields `o`. -/
theorem offset_roundtrip (src : List Char) (o : Nat) (hb : IsCharBoundary src o)
    (hsz : byteLen src < 4294967296) :
    ∃ p, offsetToLspPosition src o (lineOf src o) = some p ∧
      lineCharToOffset src (lineOf src o) p.character = o ∧
      lineCharToOffset src p.line p.character = o := by
  obtain ⟨pre, post, rfl, rfl⟩ := (isCharBoundary_iff src o).mp hb
  rw [lineOf_prefix, offsetToLspPosition_prefix]
  refine ⟨_, rfl, ?_⟩
  have h1 : utf16Count (lastLine pre) < 4294967296 := by
    have := utf16Count_le_byteLen (lastLine pre)
    have := lastLine_byteLen_le pre
    rw [byteLen_append] at hsz; omega
  have h2 : countNl pre < 4294967296 := by
    have := countNl_le_byteLen pre
    rw [byteLen_append] at hsz; omega
  simp only [asU32_of_lt h1, asU32_of_lt h2, lineCharToOffset_prefix, and_self]

example : IsCharBoundary "é€\n😀x".toList 10 ∧ lineOf "é€\n😀x".toList 10 = 1 ∧
    offsetToLspPosition "é€\n😀x".toList 10 1 = some ⟨1, 2⟩ ∧
    lineCharToOffset "é€\n😀x".toList 1 2 = 10 := by decide

/-- The conversion panics exactly on offsets strictly inside the document that are not
character boundaries (the slice `src[..offset]`); offsets past the end are clamped. -/
theorem offsetToLspPosition_isSome_iff (src : List Char) (o line : Nat) :
    (offsetToLspPosition src o line).isSome ↔ (IsCharBoundary src o ∨ byteLen src ≤ o) := by
  unfold offsetToLspPosition IsCharBoundary isCharBoundary
  by_cases h : byteLen src ≤ o
  · have hm : min o (byteLen src) = byteLen src := by omega
    have := prefixAt_byteLen src []
    simp only [List.append_nil] at this
    simp [hm, this, h]
  · have hm : min o (byteLen src) = o := by omega
    rw [hm]
    cases hp : prefixAt src o with
    | none => simp [h, hp]
    | some pre => simp [hp]


example : offsetToLspPosition "a😀".toList 2 0 = none ∧
    offsetToLspPosition "a😀".toList 99 0 = some ⟨0, 3⟩ := by decide

/-- **Injectivity.** Two character-boundary offsets with the same LSP position are equal. -/
theorem position_injective (src : List Char) (o₁ o₂ : Nat)
    (h₁ : IsCharBoundary src o₁) (h₂ : IsCharBoundary src o₂) (hsz : byteLen src < 4294967296)
    (heq : offsetToLspPosition src o₁ (lineOf src o₁) = offsetToLspPosition src o₂ (lineOf src o₂)) :
    o₁ = o₂ := by
  obtain ⟨p₁, hp₁, _, hr₁⟩ := offset_roundtrip src o₁ h₁ hsz
  obtain ⟨p₂, hp₂, _, hr₂⟩ := offset_roundtrip src o₂ h₂ hsz
  rw [hp₁, hp₂] at heq
  injection heq with heq
  subst heq
  rw [← hr₁, ← hr₂]

/-- **The whole-document range covers the document**, for every document (bare CR, CRLF,
trailing CR included): its start converts to offset 0 and its end to `src.len()`. -/
theorem whole_range_covers (src : List Char) (hsz : byteLen src < 4294967296) :
    lineCharToOffset src (wholeDocumentRange src).start.line
      (wholeDocumentRange src).start.character = 0 ∧
    lineCharToOffset src (wholeDocumentRange src).stop.line
      (wholeDocumentRange src).stop.character = byteLen src := by
  rw [wholeDocumentRange_eq]
  refine ⟨lineCharToOffset_zero src, ?_⟩
  have h1 : utf16Count (lastLine src) < 4294967296 := by
    have := utf16Count_le_byteLen (lastLine src)
    have := lastLine_byteLen_le src
    omega
  have h2 : countNl src < 4294967296 := by
    have := countNl_le_byteLen src; omega
  simp only [asU32_of_lt h1, asU32_of_lt h2]
  have := lineCharToOffset_prefix src []
  simpa using this

example : wholeDocumentRange "é\r\n😀\rz\r".toList = ⟨⟨0, 0⟩, ⟨1, 5⟩⟩ ∧
    lineCharToOffset "é\r\n😀\rz\r".toList 1 5 = byteLen "é\r\n😀\rz\r".toList := by decide

/-- **Edits computed from byte offsets mean what the specification says.** Let the document
be `a ++ b ++ c` with no bare CR, and let the server build the range of `b` with
`garden_pos_to_lsp_range` from the byte offsets of `b` and the line numbers of its ends
(neither end between the `\r` and `\n` of a CRLF). Applying `TextEdit { range, newText: t }`
as the LSP specification defines yields `a ++ t ++ c`. -/
theorem apply_edit_spec (a b c t : List Char) (hcr : NoBareCR (a ++ b ++ c))
    (ha : a.getLast? ≠ some '\r') (hab : (a ++ b).getLast? ≠ some '\r')
    (hsz : byteLen (a ++ b ++ c) < 4294967296) :
    ∃ r, gardenPosToLspRange (a ++ b ++ c) (byteLen a) (byteLen (a ++ b))
        (countNl a) (countNl (a ++ b)) = some r ∧
      applyEdit (a ++ b ++ c) r t = a ++ t ++ c := by
  have hsz' := hsz
  rw [byteLen_append, byteLen_append] at hsz'
  have small : ∀ l : List Char, byteLen l < 4294967296 →
      asU32 (countNl l) = countNl l ∧ asU32 (utf16Count (lastLine l)) = utf16Count (lastLine l) := by
    intro l hl
    have := utf16Count_le_byteLen (lastLine l)
    have := lastLine_byteLen_le l
    have := countNl_le_byteLen l
    exact ⟨asU32_of_lt (by omega), asU32_of_lt (by omega)⟩
  have e1 : offsetToLspPosition (a ++ b ++ c) (byteLen a) (countNl a) =
      some ⟨countNl a, utf16Count (lastLine a)⟩ := by
    rw [List.append_assoc, offsetToLspPosition_prefix, (small a (by omega)).1, (small a (by omega)).2]
  have e2 : offsetToLspPosition (a ++ b ++ c) (byteLen (a ++ b)) (countNl (a ++ b)) =
      some ⟨countNl (a ++ b), utf16Count (lastLine (a ++ b))⟩ := by
    have hs := small (a ++ b) (by rw [byteLen_append]; omega)
    rw [offsetToLspPosition_prefix, hs.1, hs.2]
  refine ⟨⟨⟨countNl a, utf16Count (lastLine a)⟩, ⟨countNl (a ++ b), utf16Count (lastLine (a ++ b))⟩⟩,
    by simp only [gardenPosToLspRange, e1, e2], ?_⟩
  unfold applyEdit specIndex
  simp only
  have s1 : specSeek (a ++ b ++ c) (countNl a) (utf16Count (lastLine a)) = b ++ c := by
    rw [List.append_assoc]
    exact specSeek_prefix a (b ++ c) (by rw [← List.append_assoc]; exact hcr) ha
  have s2 : specSeek (a ++ b ++ c) (countNl (a ++ b)) (utf16Count (lastLine (a ++ b))) = c :=
    specSeek_prefix (a ++ b) c hcr hab
  rw [s1, s2]
  have : (a ++ b ++ c).length - (b ++ c).length = a.length := by simp
  rw [this, List.append_assoc a b c, List.take_left']
  rfl

example : NoBareCR ("let é = \"😀\"\r\n".toList ++ "foo".toList ++ " + 1\n".toList) ∧
    gardenPosToLspRange "let é = \"😀\"\r\nfoo + 1\n".toList 17 20 1 1 = some ⟨⟨1, 0⟩, ⟨1, 3⟩⟩ ∧
    applyEdit "let é = \"😀\"\r\nfoo + 1\n".toList ⟨⟨1, 0⟩, ⟨1, 3⟩⟩ "bar".toList =
      "let é = \"😀\"\r\nbar + 1\n".toList := by decide

/-- **Whole-document replacement** (formatting and the refactoring code actions): in a document
without bare CR, the edit `{ range: whole_document_range(src), newText: t }` applied as the
specification defines yields exactly `t`. -/
theorem apply_whole_replace (src t : List Char) (hcr : NoBareCR src)
    (hsz : byteLen src < 4294967296) :
    applyEdit src (wholeDocumentRange src) t = t := by
  rw [wholeDocumentRange_eq]
  have h1 : utf16Count (lastLine src) < 4294967296 := by
    have := utf16Count_le_byteLen (lastLine src)
    have := lastLine_byteLen_le src
    omega
  have h2 : countNl src < 4294967296 := by
    have := countNl_le_byteLen src; omega
  unfold applyEdit specIndex
  simp only [asU32_of_lt h1, asU32_of_lt h2]
  have s2 := specSeek_prefix src [] (by rw [List.append_nil]; exact hcr) (noBareCR_getLast? src hcr)
  simp only [List.append_nil] at s2
  have s1 : specSeek src 0 0 = src := by
    cases src <;> simp [specSeek, specSkipLines, specWalk]
  rw [s1, s2]
  simp

example : NoBareCR "é\r\n😀z".toList ∧
    applyEdit "é\r\n😀z".toList (wholeDocumentRange "é\r\n😀z".toList) "new\n".toList = "new\n".toList := by
  decide

/-- The `NoBareCR` hypothesis cannot be dropped: for the document `"a\rb"` the server's
whole-document range is `0:0-0:3`; the specification ends line 0 after `a`, clamps column 3 to
the line length 1, and the edit leaves `"\rb"` behind. The same happens for a trailing `\r`. -/
theorem apply_whole_replace_needs_noBareCR :
    ¬ NoBareCR "a\rb".toList ∧
    applyEdit "a\rb".toList (wholeDocumentRange "a\rb".toList) "X".toList = "X\rb".toList ∧
    ¬ NoBareCR "a\r".toList ∧
    applyEdit "a\r".toList (wholeDocumentRange "a\r".toList) "X".toList = "X\r".toList := by
  decide

end C29
