import GardenVerif.Driver.Sexp
import GardenVerif.Driver.Machine
import GardenVerif.Model.TestRunner
/-! Driver op for the test-runner model:
`testrun_model <hexfilter|-> <ticklimit|-> <stacklimit|-> <fuel> <trace|notrace> <items sexpr…>`
where the items are the `(fun …) (test …) …` forms of the `astx` / `testrun` hook ops of
`garden verif` (src/verif_machine.rs, src/verif_runner.rs). Answers in the format of the
`testrun` hook op. -/

namespace DriverTestRunner
open Machine TestRunner DriverMachine

mutual
/-- `DriverMachine.exprOf` with `(assert id used inner)` mapped to `TestRunner.mkAssert`. -/
partial def exprOfX : Sexp → Option Expr
  | .list (.atom kind :: .atom ids :: .atom us :: rest) => do
    let id ← natOf ids
    let u := us == "1"
    match kind, rest with
    | "int", [.atom v] => (v.toInt?).map fun i => .int id u (Int64.ofInt i)
    | "str", [.atom a] => (strOf a).map (.str id u)
    | "var", [.atom n] => some (.var id u n)
    | "binop", [.atom op, l, r] => do some (.binop id u (← binopOf op) (← exprOfX l) (← exprOfX r))
    | "let", [d, .atom "nohint", e] => do some (.letE id u (← destOf d) (← exprOfX e))
    | "let", [_, _, _] => some (.unsup id u "let with type hint")
    | "assign", [.atom n, e] => do some (.assign id u n (← exprOfX e))
    | "update", [.atom k, .atom n, e] => do some (.update id u (k == "Add") n (← exprOfX e))
    | "if", [c, t, .atom "noelse"] => do some (.ifE id u (← exprOfX c) (← blockOfX t) none)
    | "if", [c, t, e] => do some (.ifE id u (← exprOfX c) (← blockOfX t) (some (← blockOfX e)))
    | "while", [c, b] => do some (.whileE id u (← exprOfX c) (← blockOfX b))
    | "for", [d, e, b] => do some (.forE id u (← destOf d) (← exprOfX e) (← blockOfX b))
    | "match", scrut :: cases => do
        some (.matchE id u (← exprOfX scrut) (← cases.mapM caseOfX))
    | "return", [.atom "none"] => some (.ret id u none)
    | "return", [e] => do some (.ret id u (some (← exprOfX e)))
    | "break", [] => some (.brk id u)
    | "continue", [] => some (.cont id u)
    | "list", items => do some (.list id u (← items.mapM exprOfX))
    | "tuple", items => do some (.tuple id u (← items.mapM exprOfX))
    | "call", recv :: args => do some (.call id u (← exprOfX recv) (← args.mapM exprOfX))
    | "lambda", [.list (.atom "params" :: ps), .atom "nohint", b] => do
        let names ← ps.mapM fun (x : Sexp) => match x with
          | .list [.atom "p", .atom n, .atom "nohint"] => some n
          | _ => none
        some (.lambda id u names (← blockOfX b))
    | "lambda", _ => some (.unsup id u "lambda with type hints")
    | "paren", [e] => do some (.paren id u (← exprOfX e))
    | "invalid", [] => some (.invalid id u)
    | "unsup", [.atom w] => some (.unsup id u w)
    | "mcall", _ => some (.unsup id u "method call")
    | "assert", [e] => do some (mkAssert id u (← exprOfX e))
    | _, _ => none
  | _ => none
partial def blockOfX : Sexp → Option (List Expr)
  | .list (.atom "block" :: es) => es.mapM exprOfX
  | _ => none
partial def caseOfX : Sexp → Option Case
  | .list [.atom "case", .atom v, .atom "nodest", b] => do some (.mk v none (← blockOfX b))
  | .list [.atom "case", .atom v, d, b] => do some (.mk v (some (← destOf d)) (← blockOfX b))
  | _ => none
end

/-- A toplevel item, in file order. -/
inductive Item where
  | test (t : TestDef)
  | expr (e : Expr)
  | block (es : List Expr)
  | other

structure ParsedX where
  prog : Program
  items : List Item
  unsupported : Option String

def tests (p : ParsedX) : List TestDef :=
  p.items.filterMap fun | .test t => some t | _ => none

def programOfX (items : List Sexp) : Option ParsedX := do
  let mut funs : List FunDef := []
  let mut enums : List EnumDef := []
  let mut its : List Item := []
  let mut unsup : Option String := none
  for it in items do
    match it with
    | .list [.atom "fun", .atom name, .list (.atom "params" :: ps), rh, b] =>
      let names := ps.filterMap fun (x : Sexp) => match x with
        | .list [.atom "p", .atom n, _] => some n
        | _ => none
      let hinted := ps.any (fun (x : Sexp) => match x with
        | .list [.atom "p", _, .atom "nohint"] => false
        | _ => true) || (match rh with | .atom "nohint" => false | _ => true)
      if hinted then unsup := some "function with type hints"
      funs := funs ++ [{ name := name, params := names, body := ← blockOfX b }]
      its := its ++ [.other]
    | .list (.atom "enum" :: .atom name :: vs) =>
      let variants := vs.filterMap fun (x : Sexp) => match x with
        | .list [.atom "variant", .atom v, .atom p] => some (v, p == "payload")
        | _ => none
      enums := enums ++ [{ name := name, variants := variants }]
      its := its ++ [.other]
    | .list [.atom "expr", e] => its := its ++ [.expr (← exprOfX e)]
    | .list [.atom "blockitem", b] => its := its ++ [.block (← blockOfX b)]
    | .list [.atom "test", .atom name, b] => its := its ++ [.test { name := name, body := ← blockOfX b }]
    | .list [.atom "unsupitem", .atom w] => unsup := some w
    | _ => none
  some { prog := { funs := funs, enums := enums, toplevel := [] }, items := its, unsupported := unsup }

def verdictShort : Verdict → String
  | .pass => "(pass)"
  | .failed msg => s!"(assertion {Hex.encode msg})"
  | .errored e => s!"(err {e.toString})"
  | .tickLimit => "(ticklimit)"
  | .stackLimit => "(stacklimit)"
  | .interrupted => "(interrupted)"

def verdictsShort (vs : List (String × Verdict)) : String :=
  String.join (vs.map fun (n, v) => s!" (t {n} {verdictShort v})")

/-- The loop of `eval` again, collecting the per-tick trace lines (the verdicts reported come
from the model's `runTests`; this loop only adds the trace). -/
partial def traceEval (fuel : Nat) (s : State) (acc : Array String) : Option State × Array String :=
  if fuel == 0 then (none, acc) else
  let acc := match traceLine s with | some l => acc.push l | none => acc
  match tstep s with
  | .cont s' => traceEval (fuel - 1) s' acc
  | .done s' _ => (some s', acc)
  | .error s' _ => (some s', acc)
  | .panic _ => (none, acc)
  | .unsupported _ => (none, acc)

def traceTests (fuel : Nat) : State → List TestDef → Array String → Array String
  | _, [], acc => acc
  | s, t :: ts, acc =>
    match traceEval fuel (pushTestFrame s t) acc with
    | (some s', acc) => traceTests fuel (popToToplevel s') ts acc
    | (none, acc) => acc

def endState (s : State) : String :=
  match s.frames with
  | f :: _ => s!"(end {s.ticks} {s.frames.length} {f.exprs.length} {f.values.length} {f.blocks.length})"
  | [] => "(end none)"

def parseItems (sexpParts : List String) : Except String ParsedX :=
  match Sexp.parseAll (" ".intercalate sexpParts) with
  | some items =>
    match programOfX items with
    | none => .error "ERR bad-items"
    | some parsed => .ok parsed
  | none => .error "ERR bad-sexp"

def handle (op : String) (rest : String) : Option String :=
  if op != "testrun_model" then none else
  match rest.splitOn " " with
  | filt :: tl :: sl :: fuel :: wantT :: sexpParts =>
    match parseItems sexpParts with
    | .error e => some e
    | .ok parsed =>
      match parsed.unsupported with
      | some w => some s!"OK (testrun (unsupported {Hex.encode w}))"
      | none =>
        let filter := if filt == "-" then "" else (Hex.decode filt).getD ""
        let fuelN := fuel.toNat?.getD 100000
        let s0 := baseState parsed.prog (optNat tl) (optNat sl)
        let sel := selected filter (tests parsed)
        let outcome := runTests fuelN s0 sel
        let trace := if wantT == "notrace" then #[] else traceTests fuelN s0 sel #[]
        let tr := Hex.encode ("\n".intercalate trace.toList)
        match outcome with
        | .finished vs s =>
          some s!"OK (testrun (tests{verdictsShort vs}) (exit {(exitCode outcome).getD 99}) {endState s} (out {Hex.encode s.out}) (summary {Hex.encode (summaryLine vs)}) (trace {tr}))"
        | .crashed vs site => some s!"OK (testrun (tests{verdictsShort vs}) (panic {Hex.encode site}) (trace {tr}))"
        | .unknown vs why => some s!"OK (testrun (tests{verdictsShort vs}) (unknown {Hex.encode why}) (trace {tr}))"
  | _ => some "ERR args"

end DriverTestRunner
