import GardenVerif.Lemmas.BigStep
/-!
# C05 — Core-language programs behave as the reference semantics says

Reference semantics: `BigStep.eval` (Model/BigStep.lean, M5), an environment-passing definitional
interpreter that shares no evaluation code with the machine model M4 (`Machine.step`), which is
compared tick-by-tick with the real evaluator (C06/C08) — and both are compared with
`garden run` on every generated program (harness/c05.py, three-way differential).

TARGET (DESIGN §7 C05), kept visible:

    theorem machine_refines_bigstep (p : Program)
        (hwf : wfProgram p = true) (hex : exitsProgram p = true) (hlv : levelProgram p ≤ 2)
        (fuel : Nat) :
        match BigStep.runProgram p fuel with
        | (out, .val v) => ∃ n s, runN n (Machine.init p [] none none) = .done s v ∧ s.out = out
        | (out, .err e) => ∃ n s, runN n (Machine.init p [] none none) = .error s e ∧ s.out = out
        | _ => True          -- out of fuel / outside the fragment: nothing claimed

`runN n` = `n` iterations of `Machine.step`; `Machine.init p [] none none` = the state `garden run`
starts from (no interrupts, no tick / stack limit). The fragment predicates are decidable and are
evaluated by the driver on the REAL parser's tree of every generated program (harness/c05.py):
`wfProgram` (the parser's `value_is_used` flags), `exitsProgram` (break / continue in statement
position of a loop body), `levelProgram` (0: expressions, blocks, `let`, assignment, `+=`, `if`,
`match`, list / tuple literals, calls of built-ins and enum constructors; 1: + `while`, `for`,
`break`, `continue`; 2: + named functions, closures, `return`).

The simulation lemma (Lemmas/BigStep.lean) is stated for an arbitrary frame context — callers
`cs`, pending entries `K`, values `V`, any non-empty scopes — with one machine lemma per node
kind, and proved by induction on the big-step fuel (`Holds`, `Concl`, `sim_succ_*`).
-/
set_option linter.unusedSimpArgs false
namespace C05
open Machine BigStep BigStepLemmas

theorem level_toplevel (p : Program) (L : Nat) (h : levelProgram p ≤ L) : lvB p.toplevel ≤ L := by
  unfold levelProgram at h; omega

theorem wf_toplevel (p : Program) (h : wfProgram p = true) : wfAll p.toplevel = true := by
  unfold wfProgram at h; simp only [Bool.and_eq_true] at h; exact h.1

theorem exits_toplevel (p : Program) (h : exitsProgram p = true) : exB false false p.toplevel = true := by
  unfold exitsProgram at h; simp only [Bool.and_eq_true] at h; exact h.1

/-- **Stage (a)**: expressions, blocks, `let` (symbol and destructuring), assignment, `+=`,
binary operators, list and tuple literals (items right-to-left), `if` / `else` and `match` with
block scoping, calls of built-ins (`println`, `print`, `string_repr`) and enum constructors
(receiver first, arguments right-to-left), any nesting, any number of toplevel expressions.
Whenever the reference interpreter, with any fuel, ends with a value or an error, the machine
started as `garden run` starts it reaches `done` with the same value, resp. `error` with the same
error kind, and the same output.

The reference interpreter here is `evalWith (applyBuiltin p)`: `BigStep.eval` with the one
difference that calling a closure or a named function answers `unsupported` (nothing claimed);
programs of level 0 contain neither function definitions nor function literals. -/
theorem machine_refines_bigstep_stage_a (p : Program)
    (hwf : wfProgram p = true) (hex : exitsProgram p = true) (hlv : levelProgram p ≤ 0) (fuel : Nat) :
    match runProgramWith (evalWith (applyBuiltin p) p fuel) p with
    | (out, .val v) => ∃ n s, runN n (Machine.init p [] none none) = .done s v ∧ s.out = out
    | (out, .err e) => ∃ n s, runN n (Machine.init p [] none none) = .error s e ∧ s.out = out
    | _ => True :=
  refines_of_IH (sim0 (applyBuiltin p) p (apHolds_builtin p) fuel)
    (level_toplevel p 0 hlv) (wf_toplevel p hwf) (exits_toplevel p hex)

/-- **Stage (b)** = stage (a) + `while`, `for` (symbol and tuple destinations), `break`, `continue`
through any nesting of `if` / `match` blocks and loops, under `exitsProgram` (exits in statement
position of a loop body). Same statement, programs of level ≤ 1. -/
theorem machine_refines_bigstep_stage_b (p : Program)
    (hwf : wfProgram p = true) (hex : exitsProgram p = true) (hlv : levelProgram p ≤ 1) (fuel : Nat) :
    match runProgramWith (evalWith (applyBuiltin p) p fuel) p with
    | (out, .val v) => ∃ n s, runN n (Machine.init p [] none none) = .done s v ∧ s.out = out
    | (out, .err e) => ∃ n s, runN n (Machine.init p [] none none) = .error s e ∧ s.out = out
    | _ => True :=
  refines_of_IH (sim1 (applyBuiltin p) p (apHolds_builtin p) fuel).1
    (level_toplevel p 1 hlv) (wf_toplevel p hwf) (exits_toplevel p hex)

/-- **Stage (c)** = stages (a), (b) + named functions (recursion included), function literals
(closures capturing the scopes of their definition by value), calls of both (new frame, arguments
right-to-left, arity errors, the value handed back iff the call's value is used) and `return`
from any depth of blocks and loops. Programs of level ≤ 2 — the whole core fragment.

The reference interpreter here is `evalWith (applyChecked p)`: `BigStep.eval` with the fragment
check made dynamic at closure calls (a closure whose body is outside the fragment answers
`unsupported`; every function literal of a program satisfying the three predicates is inside). -/
theorem machine_refines_bigstep_stage_c (p : Program)
    (hwf : wfProgram p = true) (hex : exitsProgram p = true) (hlv : levelProgram p ≤ 2) (fuel : Nat) :
    match runProgramWith (evalWith (applyChecked p) p fuel) p with
    | (out, .val v) => ∃ n s, runN n (Machine.init p [] none none) = .done s v ∧ s.out = out
    | (out, .err e) => ∃ n s, runN n (Machine.init p [] none none) = .error s e ∧ s.out = out
    | _ => True :=
  refines_of_IH (sim2 p (funs_ok p hwf hex hlv) fuel).1
    (level_toplevel p 2 hlv) (wf_toplevel p hwf) (exits_toplevel p hex)

/-- Non-vacuity: a level-0 program with a `let`, an `if`/`else` block, a `match`, a built-in call
and a tuple satisfies the three fragment predicates (flags as the parser sets them). -/
def exampleA : Program :=
  { funs := [], enums := [],
    toplevel := [
      .letE 3 true (.sym "x") (.binop 2 true .add (.int 0 true 1) (.int 1 true 2)),
      .ifE 9 true (.binop 6 true .lt (.var 4 true "x") (.int 5 true 5))
        [.assign 8 false "x" (.int 7 true 7)] none,
      .call 14 true (.var 10 true "println")
        [.call 13 true (.var 11 true "string_repr") [.tuple 16 true [.var 12 true "x", .var 15 true "None"]]],
      .matchE 20 true (.call 19 true (.var 17 true "Some") [.var 18 true "x"])
        [.mk "Some" (some (.sym "y")) [.var 21 true "y"], .mk "_" none [.int 22 true 0]]] }

example : wfProgram exampleA = true ∧ exitsProgram exampleA = true ∧ levelProgram exampleA ≤ 0 := by
  refine ⟨?_, ?_, ?_⟩ <;>
    simp [exampleA, wfProgram, exitsProgram, levelProgram, wfAll, wfE, wfB, wfCases, exB, exE, exAll, exCases,
      lvB, lvE, lvCases, Expr.used]

/-- Non-vacuity for stage (b): `let i = 0  while True { i += 1  if i > 2 { break }  for x in [i] { continue } }  i`
(a loop with a `break` inside an `if` block followed by another loop, and a `continue`). -/
def exampleB : Program :=
  { funs := [], enums := [],
    toplevel := [
      .letE 1 true (.sym "i") (.int 0 true 0),
      .whileE 20 true (.var 2 true "True")
        [.update 4 false true "i" (.int 3 true 1),
         .ifE 9 false (.binop 7 true .gt (.var 5 true "i") (.int 6 true 2)) [.brk 8 false] none,
         .forE 14 false (.sym "x") (.list 11 true [.var 10 true "i"]) [.cont 12 false]],
      .var 21 true "i"] }

example : wfProgram exampleB = true ∧ exitsProgram exampleB = true ∧ levelProgram exampleB ≤ 1 := by
  refine ⟨?_, ?_, ?_⟩ <;>
    simp [exampleB, wfProgram, exitsProgram, levelProgram, wfAll, wfE, wfB, wfCases, exB, exE, exAll, exCases,
      lvB, lvE, lvCases, Expr.used]

/-- Non-vacuity for stage (c):
`fun f(n) { while True { if n > 2 { return n }  n += 1 }  0 }   let k = 10   let g = fun(x) { x + k }   g(f(1))`. -/
def exampleC : Program :=
  { funs := [{ name := "f", params := ["n"], body :=
      [.whileE 10 false (.var 1 true "True")
         [.ifE 6 false (.binop 4 true .gt (.var 2 true "n") (.int 3 true 2)) [.ret 5 false (some (.var 30 true "n"))] none,
          .update 8 false true "n" (.int 7 true 1)],
       .int 11 true 0] }],
    enums := [],
    toplevel := [
      .letE 13 true (.sym "k") (.int 12 true 10),
      .letE 19 true (.sym "g") (.lambda 18 true ["x"] [.binop 17 true .add (.var 15 true "x") (.var 16 true "k")]),
      .call 25 true (.var 20 true "g") [.call 24 true (.var 21 true "f") [.int 22 true 1]]] }

example : wfProgram exampleC = true ∧ exitsProgram exampleC = true ∧ levelProgram exampleC ≤ 2 := by
  refine ⟨?_, ?_, ?_⟩ <;>
    simp [exampleC, wfProgram, exitsProgram, levelProgram, wfAll, wfE, wfB, wfCases, exB, exE, exAll, exCases,
      lvB, lvE, lvCases, Expr.used]

end C05
