import GardenVerif.Model.BigStep
/-! Helper lemmas for C05: the machine model M4 refines the big-step reference interpreter M5.

* `Q` = a machine state of an uninterrupted, unlimited run (`garden run`); `runN` iterates
  `Machine.step`; `MS` = "the call stack gets from here to there by machine steps" (dispatch in
  the top frame, call, frame return), sound w.r.t. `Machine.step` (`MS_sound`).
* `Concl` / `Holds` = the simulation statement for one expression in an arbitrary frame context
  (callers `cs`, pending entries `K`, values `V`, any non-empty scopes) with clauses for value,
  error, `break`, `continue`, `return`.
* One machine lemma per node kind and state (`d_*`, `*_PW`, `*_PD`, `*_E`, `evalCall_builtin1`,
  `matchCases_select`, …); `sim_rtl` (operands right-to-left), `sim_seq` (block statements),
  `leave_block` (block owners `if` / `match`), `while_step` / `for_loop` (loops and exits),
  `sim_fun_body` / `apHolds_checked` (frames, closures, named functions).
* `sim_succ_a/b/c`, `sim2`: the simulation by induction on the big-step fuel, for the reference
  interpreter with the fragment check made dynamic at closure calls (`applyChecked`).
* `vok`, `Agree`, `agree`, `runProgram_checked_eq`: on programs of the fragment that interpreter is
  `BigStep.eval` (every closure value carries a body of the fragment).
* `refines_of_IH`: from the simulation to runs of `Machine.step` from `Machine.init`.

This file is assembled from parts developed separately (one section per part). -/
set_option linter.unusedVariables false
set_option linter.unusedSimpArgs false
namespace BigStepLemmas
open Machine BigStep

/-- Machine state of an uninterrupted run without limits (what `Machine.init p [] none none`
starts and every step keeps). -/
def Q (p : Program) (fs : List Frame) (t : Nat) (out : String) : State :=
  { prog := p, frames := fs, ticks := t, out := out, interrupted := false, tickLimit := none,
    stackLimit := none, interruptAt := [], stopAt := none }

/-- `n` iterations of the loop in `eval`. -/
def runN : Nat → State → StepResult
  | 0, s => .cont s
  | n + 1, s => match step s with
    | .cont s' => runN n s'
    | r => r

theorem runN_add (a b : Nat) (s s' : State) (h : runN a s = .cont s') : runN (a + b) s = runN b s' := by
  induction a generalizing s with
  | zero => simp [runN] at h; subst h; simp
  | succ n ih =>
    have : n + 1 + b = (n + b) + 1 := by omega
    rw [this]
    simp only [runN] at h ⊢
    cases hs : step s <;> simp [hs] at h ⊢
    · exact ih _ h

theorem runN_step_cont (s s' s'' : State) (n : Nat) (h : step s = .cont s') (h2 : runN n s' = .cont s'') :
    runN (n + 1) s = .cont s'' := by
  simp [runN, h, h2]

theorem runN_last (s s' : State) (n : Nat) (r : StepResult) (h : runN n s = .cont s') (hr : step s' = r)
    (hnc : ∀ x, r ≠ .cont x) : runN (n + 1) s = r := by
  rw [runN_add n 1 _ _ h]
  cases r <;> simp_all [runN]

/-- A frame with the given pending entries, values and scopes; the rest from `b`. -/
def F (b : Frame) (K : List (St × Expr)) (V : List Value) (σ : List Block) : Frame :=
  { exprs := K, values := V, blocks := σ, nextBlock := [], callerUses := b.callerUses, kind := b.kind,
    callerId := b.callerId }

/-- The call stack evolves by machine steps (dispatch in the top frame, call, frame return). -/
inductive MS (p : Program) : List Frame → String → List Frame → String → Prop
  | refl (fs : List Frame) (out : String) : MS p fs out fs out
  | ok {f : Frame} {cs : List Frame} {st : St} {e : Expr} {rest : List (St × Expr)} {f' : Frame}
      {T : List Frame} {out out' : String} :
      f.exprs = (st, e) :: rest → dispatch p { f with exprs := rest } st e = .ok f' →
      MS p (f' :: cs) out T out' → MS p (f :: cs) out T out'
  | okOut {f : Frame} {cs : List Frame} {st : St} {e : Expr} {rest : List (St × Expr)} {f' : Frame}
      {T : List Frame} {o out out' : String} :
      f.exprs = (st, e) :: rest → dispatch p { f with exprs := rest } st e = .okOut f' o →
      MS p (f' :: cs) (out ++ o) T out' → MS p (f :: cs) out T out'
  | call {f : Frame} {cs : List Frame} {st : St} {e : Expr} {rest : List (St × Expr)} {f' callee : Frame}
      {T : List Frame} {out out' : String} :
      f.exprs = (st, e) :: rest → dispatch p { f with exprs := rest } st e = .newFrame f' callee →
      MS p (callee :: f' :: cs) out T out' → MS p (f :: cs) out T out'
  | ret {f caller : Frame} {cs : List Frame} {rv : Value} {vs : List Value}
      {T : List Frame} {out out' : String} :
      f.exprs = [] → f.values = rv :: vs →
      MS p ((if f.callerUses then caller.pushV rv else caller) :: cs) out T out' →
      MS p (f :: caller :: cs) out T out'

theorem MS.trans {p : Program} {A B C : List Frame} {o1 o2 o3 : String}
    (a : MS p A o1 B o2) (b : MS p B o2 C o3) : MS p A o1 C o3 := by
  induction a with
  | refl => exact b
  | ok he hd _ ih => exact MS.ok he hd (ih b)
  | okOut he hd _ ih => exact MS.okOut he hd (ih b)
  | call he hd _ ih => exact MS.call he hd (ih b)
  | ret he hv _ ih => exact MS.ret he hv (ih b)

/-- One `ok` step from an `F`-frame. -/
theorem MS.step1 {p : Program} {b : Frame} {cs : List Frame} {st : St} {e : Expr} {K : List (St × Expr)}
    {V : List Value} {σ : List Block} {f' : Frame} {T : List Frame} {out out' : String}
    (hd : dispatch p (F b K V σ) st e = .ok f') (h : MS p (f' :: cs) out T out') :
    MS p (F b ((st, e) :: K) V σ :: cs) out T out' :=
  MS.ok (f := F b ((st, e) :: K) V σ) (rest := K) rfl hd h

theorem MS.one {p : Program} {b : Frame} {cs : List Frame} {st : St} {e : Expr} {K : List (St × Expr)}
    {V : List Value} {σ : List Block} {f' : Frame} {out : String}
    (hd : dispatch p (F b K V σ) st e = .ok f') :
    MS p (F b ((st, e) :: K) V σ :: cs) out (f' :: cs) out :=
  MS.step1 hd (MS.refl _ _)

/-- The step at which `eval` returns `Err(e)`. -/
def MErr (p : Program) (f : Frame) (er : Err) : Prop :=
  ∃ st ex rest f' st' vals, f.exprs = (st, ex) :: rest ∧
    dispatch p { f with exprs := rest } st ex = .err f' st' vals er

theorem MErr.mk1 {p : Program} {b : Frame} {st : St} {e : Expr} {K : List (St × Expr)}
    {V : List Value} {σ : List Block} {er : Err}
    (h : ∃ f' st' vals, dispatch p (F b K V σ) st e = .err f' st' vals er) :
    MErr p (F b ((st, e) :: K) V σ) er := by
  obtain ⟨f', st', vals, h⟩ := h
  exact ⟨st, e, K, f', st', vals, rfl, h⟩

theorem step_ok (p : Program) (f f' : Frame) (cs : List Frame) (t : Nat) (out : String) (st : St) (e : Expr)
    (rest : List (St × Expr)) (he : f.exprs = (st, e) :: rest)
    (hd : dispatch p { f with exprs := rest } st e = .ok f') :
    step (Q p (f :: cs) t out) = .cont (Q p (f' :: cs) (t + 1) out) := by
  simp [step, Q, he, limitReached, limitExceeded, hd, stopCheck, setTop]

theorem step_okOut (p : Program) (f f' : Frame) (cs : List Frame) (t : Nat) (out o : String) (st : St) (e : Expr)
    (rest : List (St × Expr)) (he : f.exprs = (st, e) :: rest)
    (hd : dispatch p { f with exprs := rest } st e = .okOut f' o) :
    step (Q p (f :: cs) t out) = .cont (Q p (f' :: cs) (t + 1) (out ++ o)) := by
  simp [step, Q, he, limitReached, limitExceeded, hd, stopCheck, setTop]

theorem step_call (p : Program) (f f' callee : Frame) (cs : List Frame) (t : Nat) (out : String) (st : St) (e : Expr)
    (rest : List (St × Expr)) (he : f.exprs = (st, e) :: rest)
    (hd : dispatch p { f with exprs := rest } st e = .newFrame f' callee) :
    step (Q p (f :: cs) t out) = .cont (Q p (callee :: f' :: cs) (t + 1) out) := by
  simp [step, Q, he, limitReached, limitExceeded, hd, stopCheck, setTop]

theorem step_ret (p : Program) (f caller : Frame) (cs : List Frame) (t : Nat) (out : String) (rv : Value)
    (vs : List Value) (he : f.exprs = []) (hv : f.values = rv :: vs) :
    step (Q p (f :: caller :: cs) t out) =
      .cont (Q p ((if f.callerUses then caller.pushV rv else caller) :: cs) t out) := by
  simp only [step, Q, he, hv]
  cases hc : f.callerId <;> simp

theorem step_err (p : Program) (f : Frame) (cs : List Frame) (t : Nat) (out : String) (er : Err)
    (h : MErr p f er) : ∃ s', step (Q p (f :: cs) t out) = .error s' er ∧ s'.out = out := by
  obtain ⟨st, ex, rest, f', st', vals, he, hd⟩ := h
  refine ⟨setTop { (Q p (f :: cs) t out) with ticks := t + 1 } (restore f' st' ex vals), ?_, ?_⟩
  · simp [step, Q, he, limitReached, limitExceeded, hd]
  · simp [setTop, Q]

theorem step_done (p : Program) (f : Frame) (v : Value) (vs : List Value) (t : Nat) (out : String)
    (he : f.exprs = []) (hv : f.values = v :: vs) :
    step (Q p [f] t out) = .done (setTop (Q p [f] t out) { f with values := vs }) v := by
  simp [step, Q, he, hv]

/-- `MS` is sound for the machine: the same stacks are reached by iterating `Machine.step`. -/
theorem MS_sound {p : Program} {A B : List Frame} {out out' : String} (h : MS p A out B out') :
    ∀ (t : Nat), ∃ n t', runN n (Q p A t out) = .cont (Q p B t' out') := by
  induction h with
  | refl => intro t; exact ⟨0, t, rfl⟩
  | ok he hd _ ih =>
    intro t
    obtain ⟨n, t', hn⟩ := ih (t + 1)
    exact ⟨n + 1, t', runN_step_cont _ _ _ _ (step_ok _ _ _ _ t _ _ _ _ he hd) hn⟩
  | okOut he hd _ ih =>
    intro t
    obtain ⟨n, t', hn⟩ := ih (t + 1)
    exact ⟨n + 1, t', runN_step_cont _ _ _ _ (step_okOut _ _ _ _ t _ _ _ _ _ he hd) hn⟩
  | call he hd _ ih =>
    intro t
    obtain ⟨n, t', hn⟩ := ih (t + 1)
    exact ⟨n + 1, t', runN_step_cont _ _ _ _ (step_call _ _ _ _ _ t _ _ _ _ he hd) hn⟩
  | ret he hv _ ih =>
    intro t
    obtain ⟨n, t', hn⟩ := ih t
    exact ⟨n + 1, t', runN_step_cont _ _ _ _ (step_ret _ _ _ _ t _ _ _ he hv) hn⟩

theorem finish_done (p : Program) (s0 : State) (b : Frame) (n t : Nat) (v : Value) (V' : List Value)
    (σ' : List Block) (out' : String)
    (hn : runN n s0 = .cont (Q p [F b [] (v :: V') σ'] t out')) :
    ∃ m s, runN m s0 = .done s v ∧ s.out = out' := by
  have hd := step_done p (F b [] (v :: V') σ') v V' t out' rfl rfl
  exact ⟨n + 1, _, runN_last _ _ n _ hn hd (by intro x; simp), by simp [setTop, Q]⟩

/-- Push `v` iff `c`. -/
def pushIf (c : Bool) (v : Value) (V : List Value) : List Value := if c then v :: V else V

theorem F_pushVIf (b : Frame) (K : List (St × Expr)) (V : List Value) (σ : List Block) (c : Bool) (v : Value) :
    (F b K V σ).pushVIf c v = F b K (pushIf c v V) σ := by
  cases c <;> rfl

/-- The simulation conclusion for a big-step result `r`, for a machine that started at stack `A`
with output `out` and whose continuation is: pending entries `K`, values `V` (a value is pushed
iff `used`), `n` scopes, callers `cs`.
* value: the machine reaches that continuation with the value pushed and the scopes `r.scopes`;
* error: the machine reaches (in some frame, possibly of a callee) a step that returns the same error;
* `break` / `continue` (only where `bk` / `ck` allow): the machine reaches the frame that
  dispatching a `break` / `continue` with that continuation produces (whatever it is);
* `return v`: the machine reaches the finished frame (no pending entries, `v` on top). -/
def Concl (p : Program) (bk ck : Bool) (A : List Frame) (b : Frame) (cs : List Frame)
    (K : List (St × Expr)) (V : List Value) (n : Nat) (out : String) (used : Bool) (r : Res) : Prop :=
  match r.outcome with
  | .val v => r.scopes.length = n ∧ MS p A out (F b K (pushIf used v V) r.scopes :: cs) r.out
  | .err er => ∃ T g, MS p A out (g :: T) r.out ∧ MErr p g er
  | .brk => bk = true ∧ r.scopes.length = n ∧
      ∀ G, dispatch p (F b K V r.scopes) .N (.brk 0 false) = .ok G → MS p A out (G :: cs) r.out
  | .cont => ck = true ∧ r.scopes.length = n ∧
      ∀ G, dispatch p (F b K V r.scopes) .N (.cont 0 false) = .ok G → MS p A out (G :: cs) r.out
  | .ret v => ∃ V' B', MS p A out (F b [] (v :: V') B' :: cs) r.out
  | _ => True

/-- Move the start of a conclusion back along machine steps. -/
theorem Concl.prepend {p : Program} {bk ck : Bool} {A0 A : List Frame} {b : Frame} {cs : List Frame}
    {K : List (St × Expr)} {V : List Value} {n : Nat} {out0 out : String} {used : Bool} {r : Res}
    (h0 : MS p A0 out0 A out) (h : Concl p bk ck A b cs K V n out used r) :
    Concl p bk ck A0 b cs K V n out0 used r := by
  unfold Concl at h ⊢
  cases hr : r.outcome <;> simp only [hr] at h ⊢
  · exact ⟨h.1, h0.trans h.2⟩
  · exact ⟨h.1, h.2.1, fun G hG => h0.trans (h.2.2 G hG)⟩
  · exact ⟨h.1, h.2.1, fun G hG => h0.trans (h.2.2 G hG)⟩
  · obtain ⟨V', B', h1⟩ := h; exact ⟨V', B', h0.trans h1⟩
  · obtain ⟨T, g, h1, h2⟩ := h; exact ⟨T, g, h0.trans h1, h2⟩

/-- A sub-expression in operand position (no exits allowed) that did not produce a value:
the enclosing expression ends the same way, whatever its own continuation. -/
theorem Concl.operand_nonval {p : Program} {bk ck : Bool} {A : List Frame} {b : Frame} {cs : List Frame}
    {K K' : List (St × Expr)} {V V' : List Value} {n n' : Nat} {out : String} {used used' : Bool} {r : Res}
    (h : Concl p false false A b cs K' V' n' out used' r) (hnv : ∀ v, r.outcome ≠ .val v) :
    Concl p bk ck A b cs K V n out used r := by
  unfold Concl at h ⊢
  cases hr : r.outcome <;> simp only [hr] at h ⊢
  · exact absurd hr (hnv _)
  · exact absurd h.1 (by simp)
  · exact absurd h.1 (by simp)
  · exact h
  · exact h

/-- The simulation statement for ONE expression `e` whose big-step evaluation in scopes `σ` with
output log `out` gave `r`. -/
def Holds (p : Program) (bk ck : Bool) (e : Expr) (σ : List Block) (out : String) (r : Res) : Prop :=
  ∀ (b : Frame) (cs : List Frame) (K : List (St × Expr)) (V : List Value),
    Concl p bk ck (F b ((St.N, e) :: K) V σ :: cs) b cs K V σ.length out e.used r

-- ------------------------------------------------------------------ scope ADT facts

theorem addNew_length (bs : List Block) (n : String) (v : Value) : (addNew bs n v).length = bs.length := by
  unfold addNew; split
  · rfl
  · cases bs <;> simp

theorem declareAll_length (kvs : List (String × Value)) (bs : List Block) :
    (declareAll bs kvs).length = bs.length := by
  unfold declareAll
  induction kvs generalizing bs with
  | nil => rfl
  | cons x xs ih => simp [List.foldl, ih, addNew_length]

theorem setExisting_length : ∀ (bs bs' : List Block) (n : String) (v : Value),
    setExisting bs n v = some bs' → bs'.length = bs.length
  | [], bs', n, v, h => by simp [setExisting] at h
  | b :: rest, bs', n, v, h => by
      unfold setExisting at h
      split at h
      · cases h; simp
      · simp at h
        obtain ⟨r, hr, h2⟩ := h
        subst h2
        simp [setExisting_length rest r n v hr]

theorem find_any (b : Block) (n : String) :
    (b.find? (fun kv => kv.1 == n)).isSome = b.any (fun kv => kv.1 == n) := by
  induction b with
  | nil => rfl
  | cons x xs ih =>
    simp only [List.find?, List.any]
    cases h : (x.1 == n) <;> simp [h, ih]

/-- Assignment fails exactly when no scope has the variable. -/
theorem setExisting_isSome : ∀ (bs : List Block) (n : String) (v : Value),
    (setExisting bs n v).isSome = (lookupBlocks bs n).isSome
  | [], n, v => rfl
  | b :: rest, n, v => by
      unfold setExisting lookupBlocks
      have hfa := find_any b n
      cases ha : b.any (fun kv => kv.1 == n)
      · rw [ha] at hfa
        cases hf : b.find? (fun kv => kv.1 == n) with
        | some x => simp [hf] at hfa
        | none =>
          simp [ha]
          have := setExisting_isSome rest n v
          cases h1 : setExisting rest n v <;> cases h2 : lookupBlocks rest n <;> simp [h1, h2] at this ⊢
      · rw [ha] at hfa
        cases hf : b.find? (fun kv => kv.1 == n) with
        | none => simp [hf] at hfa
        | some x => simp [ha]

-- ------------------------------------------------------------------ machine steps, one lemma per node kind

theorem d_int (p : Program) (b : Frame) (K : List (St × Expr)) (V : List Value) (σ : List Block) (id : Nat) (u : Bool)
    (v : Int64) : dispatch p (F b K V σ) .N (.int id u v) = .ok (F b K (pushIf u (.int v) V) σ) := by
  simp [dispatch, F_pushVIf, Expr.used]

theorem d_str (p : Program) (b : Frame) (K : List (St × Expr)) (V : List Value) (σ : List Block) (id : Nat) (u : Bool)
    (t : String) : dispatch p (F b K V σ) .N (.str id u t) = .ok (F b K (pushIf u (.str t) V) σ) := by
  simp [dispatch, F_pushVIf, Expr.used]

theorem d_var (p : Program) (b : Frame) (K : List (St × Expr)) (V : List Value) (σ : List Block) (id : Nat) (u : Bool)
    (name : String) :
    match lookupVar p σ name with
    | some v => dispatch p (F b K V σ) .N (.var id u name) = .ok (F b K (pushIf u v V) σ)
    | none => ∃ f' st' vals, dispatch p (F b K V σ) .N (.var id u name) = .err f' st' vals (.noSuchVar name) := by
  have hg : getVar p (F b K V σ) name = lookupVar p σ name := by
    simp only [getVar, lookupVar, F]; cases lookupBlocks σ name <;> rfl
  cases h : lookupVar p σ name <;> simp [dispatch, hg, h, F_pushVIf, Expr.used]

theorem d_paren (p : Program) (b : Frame) (K : List (St × Expr)) (V : List Value) (σ : List Block) (id : Nat) (u : Bool)
    (e : Expr) : dispatch p (F b K V σ) .N (.paren id u e) = .ok (F b ((.N, e) :: K) V σ) := by
  simp [dispatch, Frame.pushE, F]

/-- `N` step of a node with one operand (`let`, assignment, `+=`). -/
theorem d_unary_N (p : Program) (b : Frame) (K : List (St × Expr)) (V : List Value) (σ : List Block) (e inner : Expr)
    (h : (∃ id u d, e = .letE id u d inner) ∨ (∃ id u n, e = .assign id u n inner) ∨
         (∃ id u a n, e = .update id u a n inner)) :
    dispatch p (F b K V σ) .N e = .ok (F b ((.N, inner) :: (.E, e) :: K) V σ) := by
  rcases h with ⟨id, u, d, rfl⟩ | ⟨id, u, n, rfl⟩ | ⟨id, u, a, n, rfl⟩ <;> simp [dispatch, Frame.pushE, F]

theorem d_binop_N (p : Program) (b : Frame) (K : List (St × Expr)) (V : List Value) (σ : List Block) (id : Nat) (u : Bool)
    (op : BinOp) (l r : Expr) :
    dispatch p (F b K V σ) .N (.binop id u op l r) =
      .ok (F b ((.N, l) :: (.N, r) :: (.E, .binop id u op l r) :: K) V σ) := by
  simp [dispatch, Frame.pushE, F]

/-- The `E` step of a binary operator does what `BigStep.binop` says. -/
theorem binop_E (p : Program) (b : Frame) (K : List (St × Expr)) (V : List Value) (σ : List Block)
    (id : Nat) (u : Bool) (op : BinOp) (l r : Expr) (lv rv : Value) :
    match BigStep.binop op lv rv with
    | .val v => dispatch p (F b K (rv :: lv :: V) σ) .E (.binop id u op l r) = .ok (F b K (pushIf u v V) σ)
    | .err er => ∃ f' st' vals, dispatch p (F b K (rv :: lv :: V) σ) .E (.binop id u op l r) = .err f' st' vals er
    | _ => True := by
  cases op <;> simp only [BigStep.binop, dispatch, Expr.used] <;>
    (try (repeat' split)) <;> simp_all [F_pushVIf, F, Frame.pushVIf, Frame.pushV, pushIf] <;>
    (try (cases u <;> simp_all))

theorem let_E (p : Program) (b : Frame) (K : List (St × Expr)) (V : List Value) (σ : List Block)
    (id : Nat) (u : Bool) (dest : Dest) (inner : Expr) (v : Value) :
    match destructure dest v (.typeError "Tuple") with
    | .ok binds => dispatch p (F b K (v :: V) σ) .E (.letE id u dest inner) =
        .ok (F b K (pushIf u vUnit V) (declareAll σ binds))
    | .error er => ∃ f' st' vals, dispatch p (F b K (v :: V) σ) .E (.letE id u dest inner) = .err f' st' vals er := by
  cases dest with
  | sym n => simp [destructure, dispatch, declareAll, F, Frame.pushVIf, Frame.pushV, pushIf, Expr.used]; cases u <;> rfl
  | destr names =>
    cases v <;> simp [destructure, dispatch, F]
    case tuple items =>
      by_cases hl : items.length = names.length
      · simp [hl, declareAll, Frame.pushVIf, Frame.pushV, pushIf, Expr.used]; cases u <;> rfl
      · simp [hl]

theorem assign_E (p : Program) (b : Frame) (K : List (St × Expr)) (V : List Value) (σ : List Block)
    (id : Nat) (u : Bool) (name : String) (inner : Expr) (v : Value) :
    match setExisting σ name v with
    | some σ' => dispatch p (F b K (v :: V) σ) .E (.assign id u name inner) = .ok (F b K (pushIf u vUnit V) σ')
    | none => ∃ f' st' vals, dispatch p (F b K (v :: V) σ) .E (.assign id u name inner) =
        .err f' st' vals (.notBound name) := by
  have hs := setExisting_isSome σ name v
  cases h : setExisting σ name v with
  | none =>
    have : (lookupBlocks σ name).isNone = true := by
      rw [h] at hs; cases h2 : lookupBlocks σ name <;> simp [h2] at hs ⊢
    simp [dispatch, F, this]
  | some σ' =>
    have : (lookupBlocks σ name).isNone = false := by
      rw [h] at hs; cases h2 : lookupBlocks σ name <;> simp [h2] at hs ⊢
    simp [dispatch, F, this, h, Frame.pushVIf, Frame.pushV, pushIf, Expr.used]; cases u <;> rfl

theorem findVariant_shape : ∀ (enums : List EnumDef) (name : String) (v : Value), findVariant enums name = some v →
    (∃ t i, v = .enumC t i) ∨ (∃ t i, v = .enumV t i none)
  | [], name, v, h => by simp [findVariant] at h
  | e :: es, name, v, h => by
      have ih := findVariant_shape es name v
      unfold findVariant at h ih
      simp only [List.findSome?_cons] at h
      split at h
      · rename_i b hb
        cases h
        split at hb
        · simp at hb
        · split at hb
          · simp at hb; exact Or.inl ⟨_, _, hb.symm⟩
          · simp at hb; exact Or.inr ⟨_, _, hb.symm⟩
          · simp at hb
      · exact ih h

theorem nsLookup_not_int (p : Program) (name : String) (c : Int64) : nsLookup p name ≠ some (.int c) := by
  unfold nsLookup
  split
  · simp
  · split
    · rename_i v hv
      rcases findVariant_shape _ _ _ hv with ⟨t, i, rfl⟩ | ⟨t, i, rfl⟩ <;> simp
    · split <;> simp

theorem update_E (p : Program) (b : Frame) (K : List (St × Expr)) (V : List Value) (σ : List Block)
    (id : Nat) (u isAdd : Bool) (name : String) (inner : Expr) (dv : Value) :
    match lookupVar p σ name with
    | none => ∃ f' st' vals, dispatch p (F b K (dv :: V) σ) .E (.update id u isAdd name inner) =
        .err f' st' vals (.notBound name)
    | some (.int cur) =>
      match dv with
      | .int d =>
        match setExisting σ name (.int (if isAdd then cur + d else cur - d)) with
        | some σ' => dispatch p (F b K (dv :: V) σ) .E (.update id u isAdd name inner) =
            .ok (F b K (pushIf u vUnit V) σ')
        | none => False
      | _ => ∃ f' st' vals, dispatch p (F b K (dv :: V) σ) .E (.update id u isAdd name inner) =
          .err f' st' vals (.typeError "Int")
    | some _ => ∃ f' st' vals, dispatch p (F b K (dv :: V) σ) .E (.update id u isAdd name inner) =
        .err f' st' vals (.typeError "Int") := by
  have hg : getVar p (F b K (dv :: V) σ) name = lookupVar p σ name := by
    simp only [getVar, lookupVar, F]; cases lookupBlocks σ name <;> rfl
  have hg' := hg
  simp only [F] at hg'
  cases h : lookupVar p σ name with
  | none => simp [dispatch, F, hg', h]
  | some cv =>
    cases cv <;> simp only [] <;> (try (simp [dispatch, F, hg', h]; done))
    case int cur =>
      cases dv <;> simp only [] <;> (try (simp [dispatch, F, hg', h]; done))
      case int d =>
        have hl : lookupBlocks σ name = some (.int cur) := by
          unfold lookupVar at h
          cases hb : lookupBlocks σ name with
          | some x => simp [hb] at h; rw [h]
          | none => simp [hb] at h; exact absurd h (nsLookup_not_int p name cur)
        have hs := setExisting_isSome σ name (.int (if isAdd then cur + d else cur - d))
        rw [hl] at hs
        cases hse : setExisting σ name (.int (if isAdd then cur + d else cur - d)) with
        | none => simp [hse] at hs
        | some σ' =>
          simp only []
          simp [dispatch, F, hg', h, hse, Frame.pushVIf, Frame.pushV, pushIf, Expr.used]
          cases u <;> rfl

theorem foldl_pushE (items : List Expr) (b : Frame) (K : List (St × Expr)) (V : List Value) (σ : List Block) :
    items.foldl (fun f x => f.pushE .N x) (F b K V σ) =
      F b (items.reverse.map (fun e => (St.N, e)) ++ K) V σ := by
  induction items generalizing K with
  | nil => rfl
  | cons x xs ih =>
    simp only [List.foldl]
    have : (F b K V σ).pushE .N x = F b ((.N, x) :: K) V σ := rfl
    rw [this, ih]
    simp

theorem popN_append (vs V : List Value) : popN vs.length (vs ++ V) = some (vs, V) := by
  induction vs with
  | nil => rfl
  | cons v vs ih => simp [popN, ih]

theorem d_list_N (p : Program) (b : Frame) (K : List (St × Expr)) (V : List Value) (σ : List Block) (id : Nat) (u : Bool)
    (items : List Expr) :
    dispatch p (F b K V σ) .N (.list id u items) =
      .ok (F b (items.reverse.map (fun e => (St.N, e)) ++ (.E, .list id u items) :: K) V σ) := by
  have : (F b K V σ).pushE .E (.list id u items) = F b ((.E, .list id u items) :: K) V σ := rfl
  simp [dispatch, this, foldl_pushE]

theorem d_tuple_N (p : Program) (b : Frame) (K : List (St × Expr)) (V : List Value) (σ : List Block) (id : Nat) (u : Bool)
    (items : List Expr) :
    dispatch p (F b K V σ) .N (.tuple id u items) =
      .ok (F b (items.reverse.map (fun e => (St.N, e)) ++ (.E, .tuple id u items) :: K) V σ) := by
  have : (F b K V σ).pushE .E (.tuple id u items) = F b ((.E, .tuple id u items) :: K) V σ := rfl
  simp [dispatch, this, foldl_pushE]

theorem list_E (p : Program) (b : Frame) (K : List (St × Expr)) (V : List Value) (σ : List Block) (id : Nat) (u : Bool)
    (items : List Expr) (vs : List Value) (hl : vs.length = items.length) :
    dispatch p (F b K (vs ++ V) σ) .E (.list id u items) = .ok (F b K (pushIf u (.list vs) V) σ) := by
  have := popN_append vs V
  rw [hl] at this
  simp [dispatch, F, this, Frame.pushVIf, Frame.pushV, pushIf, Expr.used]; cases u <;> rfl

theorem tuple_E (p : Program) (b : Frame) (K : List (St × Expr)) (V : List Value) (σ : List Block) (id : Nat) (u : Bool)
    (items : List Expr) (vs : List Value) (hl : vs.length = items.length) :
    dispatch p (F b K (vs ++ V) σ) .E (.tuple id u items) = .ok (F b K (pushIf u (.tuple vs) V) σ) := by
  have := popN_append vs V
  rw [hl] at this
  simp [dispatch, F, this, Frame.pushVIf, Frame.pushV, pushIf, Expr.used]; cases u <;> rfl

-- ------------------------------------------------------------------ break / continue through pending entries

theorem brk_skipN (K : List (St × Expr)) (V : List Value) (B : List Block) (x : Expr) :
    evalBreakLoop ((St.N, x) :: K) V B = evalBreakLoop K V B := by
  cases x <;> simp [evalBreakLoop, ownsBlock]

theorem cont_skipN (K : List (St × Expr)) (V : List Value) (B : List Block) (x : Expr) :
    evalContinueLoop ((St.N, x) :: K) V B = evalContinueLoop K V B := by
  cases x <;> simp [evalContinueLoop, ownsBlock, Expr.isLoop]

theorem d_brk_eq (p : Program) (b : Frame) (K K' : List (St × Expr)) (V V' : List Value) (B B' : List Block)
    (h : evalBreakLoop K V B = evalBreakLoop K' V' B') :
    dispatch p (F b K V B) .N (.brk 0 false) = dispatch p (F b K' V' B') .N (.brk 0 false) := by
  simp only [dispatch, F, h]

theorem d_cont_eq (p : Program) (b : Frame) (K K' : List (St × Expr)) (V V' : List Value) (B B' : List Block)
    (h : evalContinueLoop K V B = evalContinueLoop K' V' B') :
    dispatch p (F b K V B) .N (.cont 0 false) = dispatch p (F b K' V' B') .N (.cont 0 false) := by
  simp only [dispatch, F, h]

theorem brk_skipNs (K : List (St × Expr)) (V : List Value) (B : List Block) (xs : List Expr) :
    evalBreakLoop (xs.map (fun e => (St.N, e)) ++ K) V B = evalBreakLoop K V B := by
  induction xs with
  | nil => rfl
  | cons x xs ih => simp only [List.map, List.cons_append, brk_skipN, ih]

theorem cont_skipNs (K : List (St × Expr)) (V : List Value) (B : List Block) (xs : List Expr) :
    evalContinueLoop (xs.map (fun e => (St.N, e)) ++ K) V B = evalContinueLoop K V B := by
  induction xs with
  | nil => rfl
  | cons x xs ih => simp only [List.map, List.cons_append, cont_skipN, ih]

/-- Is `e` an `if` or a `match` (a node whose `E` continuation owns the block it entered)? -/
def isBlockOwner : Expr → Bool
  | .ifE .. => true
  | .matchE .. => true
  | _ => false

theorem brk_skipOwner (K : List (St × Expr)) (V : List Value) (x y : Block) (B : List Block) (e : Expr)
    (h : isBlockOwner e = true) :
    evalBreakLoop ((St.E, e) :: K) V (x :: y :: B) = evalBreakLoop K V (y :: B) := by
  cases e <;> simp [isBlockOwner] at h <;> simp [evalBreakLoop, ownsBlock, popBlocks1]

theorem cont_skipOwner (K : List (St × Expr)) (V : List Value) (x y : Block) (B : List Block) (e : Expr)
    (h : isBlockOwner e = true) :
    evalContinueLoop ((St.E, e) :: K) V (x :: y :: B) = evalContinueLoop K V (y :: B) := by
  cases e <;> simp [isBlockOwner] at h <;> simp [evalContinueLoop, ownsBlock, popBlocks1, Expr.isLoop]

/-- A statement that did not produce a value: the statements after it (not started) are skipped
by `break` / `continue`, and are irrelevant for errors and `return`. -/
theorem Concl.skipNs {p : Program} {bk ck : Bool} {A : List Frame} {b : Frame} {cs : List Frame}
    {K : List (St × Expr)} {xs : List Expr} {V : List Value} {n : Nat} {out : String} {used used' : Bool} {r : Res}
    (h : Concl p bk ck A b cs (xs.map (fun e => (St.N, e)) ++ K) V n out used r) (hnv : ∀ v, r.outcome ≠ .val v) :
    Concl p bk ck A b cs K V n out used' r := by
  unfold Concl at h ⊢
  cases hr : r.outcome <;> simp only [hr] at h ⊢
  · exact absurd hr (hnv _)
  · refine ⟨h.1, h.2.1, fun G hG => h.2.2 G ?_⟩
    rw [d_brk_eq p b _ K V V r.scopes r.scopes (brk_skipNs K V r.scopes xs)]; exact hG
  · refine ⟨h.1, h.2.1, fun G hG => h.2.2 G ?_⟩
    rw [d_cont_eq p b _ K V V r.scopes r.scopes (cont_skipNs K V r.scopes xs)]; exact hG
  · exact h
  · exact h

/-- The induction hypothesis: the evaluator `ev` is simulated on every expression of stage `L`
(with the parser's use flags and exits in statement position), in any non-empty scopes. -/
def IH (p : Program) (L : Nat) (ev : Ev) : Prop :=
  ∀ (bk ck : Bool) (e : Expr) (σ : List Block) (out : String), σ ≠ [] → lvE e ≤ L → wfE e = true →
    exE bk ck e = true → Holds p bk ck e σ out (ev σ out e)

theorem ne_nil_of_len {α : Type} {a b : List α} (h : a.length = b.length) (hb : b ≠ []) : a ≠ [] := by
  intro ha; subst ha; cases b <;> simp_all


-- ==================================================================== (BS2.lean)

/-- Conclusion for operands evaluated right-to-left: all values on the stack, first operand on top. -/
def ConclL (p : Program) (A : List Frame) (b : Frame) (cs : List Frame) (K : List (St × Expr)) (V : List Value)
    (n : Nat) (out : String) (len : Nat) (r : ResL) : Prop :=
  match r.result with
  | .ok vs => vs.length = len ∧ r.scopes.length = n ∧ MS p A out (F b K (vs ++ V) r.scopes :: cs) r.out
  | .error o => (∀ v, o ≠ .val v) ∧ Concl p false false A b cs K V n out false ⟨r.scopes, r.out, o⟩

theorem lvB_cons (e : Expr) (rest : List Expr) (L : Nat) (h : lvB (e :: rest) ≤ L) : lvE e ≤ L ∧ lvB rest ≤ L := by
  simp only [lvB] at h; omega

theorem sim_rtl {p : Program} {L : Nat} {ev : Ev} (ih : IH p L ev) :
    ∀ (items : List Expr) (σ : List Block) (out : String), σ ≠ [] → lvB items ≤ L → wfAll items = true →
      exAll items = true → ∀ (b : Frame) (cs : List Frame) (K : List (St × Expr)) (V : List Value),
      ConclL p (F b (items.reverse.map (fun e => (St.N, e)) ++ K) V σ :: cs) b cs K V σ.length out items.length
        (evalRtl ev items σ out)
  | [], σ, out, hσ, hl, hw, hx, b, cs, K, V => by
      simp only [evalRtl, ConclL, List.reverse_nil, List.map_nil, List.nil_append, List.length_nil]
      exact ⟨trivial, trivial, MS.refl _ _⟩
  | e :: rest, σ, out, hσ, hl, hw, hx, b, cs, K, V => by
      have hl2 := lvB_cons e rest L hl
      simp only [wfAll, exAll, Bool.and_eq_true] at hw hx
      have h1 := sim_rtl ih rest σ out hσ hl2.2 hw.2 hx.2 b cs ((St.N, e) :: K) V
      have hA : (e :: rest).reverse.map (fun e => (St.N, e)) ++ K =
          rest.reverse.map (fun e => (St.N, e)) ++ ((St.N, e) :: K) := by simp
      rw [hA]
      simp only [evalRtl]
      generalize evalRtl ev rest σ out = r at h1 ⊢
      obtain ⟨s1, o1, res⟩ := r
      cases res with
      | error o =>
        simp only [ConclL] at h1 ⊢
        exact ⟨h1.1, h1.2.operand_nonval h1.1⟩
      | ok vs =>
        simp only [ConclL] at h1
        obtain ⟨hlen, hsc, hms⟩ := h1
        have h2 := ih false false e s1 o1 (ne_nil_of_len hsc hσ) hl2.1 hw.1.2 hx.1 b cs K (vs ++ V)
        simp only []
        generalize ev s1 o1 e = r1 at h2 ⊢
        obtain ⟨s2, o2, oc⟩ := r1
        have h3 := Concl.prepend hms h2
        cases oc
        case val v =>
          simp only [ConclL, Concl, hw.1.1, pushIf] at h3 ⊢
          exact ⟨by simp [hlen], by omega, by simpa using h3.2⟩
        all_goals (
          simp only [ConclL]
          exact ⟨by intro v; simp, h3.operand_nonval (by intro v; simp)⟩)

/-- Statements of a block whose value is used iff `u`. -/
theorem sim_seq {p : Program} {L : Nat} {ev : Ev} (ih : IH p L ev) (u bk ck : Bool) :
    ∀ (body : List Expr) (last : Value) (σ : List Block) (out : String), σ ≠ [] → lvB body ≤ L →
      wfB u body = true → exB bk ck body = true →
      ∀ (b : Frame) (cs : List Frame) (K : List (St × Expr)) (V : List Value),
      Concl p bk ck (F b (body.map (fun e => (St.N, e)) ++ K) V σ :: cs) b cs K V σ.length out
        (u && !body.isEmpty) (evalSeq ev last body σ out)
  | [], last, σ, out, hσ, hl, hw, hx, b, cs, K, V => by
      simp only [evalSeq, Concl, List.map_nil, List.nil_append, List.isEmpty_nil, Bool.not_true, Bool.and_false, pushIf]
      exact ⟨trivial, MS.refl _ _⟩
  | e :: rest, last, σ, out, hσ, hl, hw, hx, b, cs, K, V => by
      have hl2 := lvB_cons e rest L hl
      simp only [wfB, exB, Bool.and_eq_true, beq_iff_eq] at hw hx
      have h1 := ih bk ck e σ out hσ hl2.1 hw.1.2 hx.1 b cs (rest.map (fun e => (St.N, e)) ++ K) V
      simp only [evalSeq, List.map_cons, List.cons_append]
      generalize ev σ out e = r1 at h1 ⊢
      obtain ⟨s1, o1, oc⟩ := r1
      cases oc
      case val v =>
        simp only []
        have h1' := h1
        simp only [Concl] at h1'
        have h2 := sim_seq ih u bk ck rest v s1 o1 (ne_nil_of_len h1'.1 hσ) hl2.2 hw.2 hx.2 b cs K
          (pushIf e.used v V)
        have h3 := Concl.prepend h1'.2 h2
        cases rest with
        | nil =>
          simp only [evalSeq, Concl, List.isEmpty_nil, Bool.not_true, Bool.and_false, pushIf,
            List.isEmpty_cons, Bool.not_false, Bool.and_true] at h3 ⊢
          rw [hw.1.1] at h3
          simp only [List.isEmpty_nil, Bool.and_true] at h3
          exact ⟨by omega, h3.2⟩
        | cons x xs =>
          rw [hw.1.1] at h3
          simp only [List.isEmpty_cons, Bool.and_false, pushIf, Bool.false_eq_true, if_false, Bool.not_false,
            Bool.and_true] at h3 ⊢
          unfold Concl at h3 ⊢
          cases hr : (evalSeq ev v (x :: xs) s1 o1).outcome <;> simp only [hr] at h3 ⊢
          · exact ⟨by omega, h3.2⟩
          · exact ⟨h3.1, by omega, h3.2.2⟩
          · exact ⟨h3.1, by omega, h3.2.2⟩
          · exact h3
          · exact h3
      all_goals (
        simp only []
        exact h1.skipNs (by intro v; simp))

-- ------------------------------------------------------------------ blocks, if, match

theorem F_values0 (b : Frame) (K : List (St × Expr)) (V : List Value) (σ : List Block) : (F b K V σ).values = V := rfl

theorem evalBlock_F (b : Frame) (K : List (St × Expr)) (V : List Value) (σ : List Block) (bs : Block)
    (used : Bool) (body : List Expr) :
    evalBlock { F b K V σ with nextBlock := bs } used body =
      F b (body.map (fun e => (St.N, e)) ++ K) (pushIf (used && body.isEmpty) vUnit V)
        (declareAll ([] :: σ) bs) := by
  unfold evalBlock
  simp only [F, declareAll, pushIf]
  split <;> simp_all [Frame.pushV]

theorem evalBlock_F0 (b : Frame) (K : List (St × Expr)) (V : List Value) (σ : List Block)
    (used : Bool) (body : List Expr) :
    evalBlock (F b K V σ) used body =
      F b (body.map (fun e => (St.N, e)) ++ K) (pushIf (used && body.isEmpty) vUnit V) ([] :: σ) :=
  evalBlock_F b K V σ [] used body

theorem d_if_N (p : Program) (b : Frame) (K : List (St × Expr)) (V : List Value) (σ : List Block) (id : Nat) (u : Bool)
    (c : Expr) (t : List Expr) (els : Option (List Expr)) :
    dispatch p (F b K V σ) .N (.ifE id u c t els) = .ok (F b ((.N, c) :: (.PW, .ifE id u c t els) :: K) V σ) := by
  simp [dispatch, Frame.pushE, F]

theorem if_PW (p : Program) (b : Frame) (K : List (St × Expr)) (V : List Value) (σ : List Block) (id : Nat) (u : Bool)
    (c : Expr) (t : List Expr) (els : Option (List Expr)) (cv : Value) :
    match cv.asBool with
    | none => ∃ f' st' vals, dispatch p (F b K (cv :: V) σ) .PW (.ifE id u c t els) = .err f' st' vals (.typeError "Bool")
    | some true => dispatch p (F b K (cv :: V) σ) .PW (.ifE id u c t els) =
        .ok (F b (t.map (fun e => (St.N, e)) ++ (.E, .ifE id u c t els) :: K)
          (pushIf ((u && els.isSome) && t.isEmpty) vUnit V) ([] :: σ))
    | some false =>
      match els with
      | some eb => dispatch p (F b K (cv :: V) σ) .PW (.ifE id u c t els) =
          .ok (F b (eb.map (fun e => (St.N, e)) ++ (.E, .ifE id u c t (some eb)) :: K)
            (pushIf ((u && true) && eb.isEmpty) vUnit V) ([] :: σ))
      | none => dispatch p (F b K (cv :: V) σ) .PW (.ifE id u c t els) =
          .ok (F b ((.E, .ifE id u c t none) :: K) V ([] :: σ)) := by
  have hF : ∀ V', ({ F b K (cv :: V) σ with values := V' } : Frame) = F b K V' σ := fun _ => rfl
  have hP : ∀ V' els', (F b K V' σ).pushE .E (.ifE id u c t els') = F b ((.E, .ifE id u c t els') :: K) V' σ :=
    fun _ _ => rfl
  cases h : cv.asBool with
  | none => simp only [dispatch, F_values0, hF, h]; exact ⟨_, _, _, rfl⟩
  | some bv =>
    cases bv
    · cases els with
      | none => simp only [dispatch, F_values0, hF, h, hP]; rfl
      | some eb =>
        simp only [dispatch, Expr.used, F_values0, hF, h, hP, evalBlock_F0]
        simp
    · simp only [dispatch, Expr.used, F_values0, hF, h, hP, evalBlock_F0]
      simp

theorem popBlock_F (b : Frame) (K : List (St × Expr)) (V : List Value) (x y : Block) (B : List Block) :
    popBlock (F b K V (x :: y :: B)) = some (F b K V (y :: B)) := rfl

theorem if_E (p : Program) (b : Frame) (K : List (St × Expr)) (V : List Value) (x y : Block) (B : List Block)
    (id : Nat) (u : Bool) (c : Expr) (t : List Expr) (els : Option (List Expr)) :
    dispatch p (F b K V (x :: y :: B)) .E (.ifE id u c t els) =
      .ok (F b K (pushIf (u && els.isNone) vUnit V) (y :: B)) := by
  simp [dispatch, popBlock_F, F_pushVIf, Expr.used]

theorem match_E (p : Program) (b : Frame) (K : List (St × Expr)) (V : List Value) (x y : Block) (B : List Block)
    (id : Nat) (u : Bool) (sc : Expr) (cases : List Case) :
    dispatch p (F b K V (x :: y :: B)) .E (.matchE id u sc cases) = .ok (F b K V (y :: B)) := by
  simp [dispatch, popBlock_F]

theorem two_of_len {α : Type} (l : List α) (n : Nat) (h : l.length = n + 1) (hn : 1 ≤ n) :
    ∃ x y B, l = x :: y :: B ∧ (y :: B).length = n := by
  match l, h with
  | x :: y :: B, h => exact ⟨x, y, B, rfl, by simp at h ⊢; omega⟩
  | [x], h => simp at h; omega

/-- Leaving the block entered by an `if` / `match` whose `E` continuation is pending. -/
theorem leave_block {p : Program} {bk ck : Bool} {A : List Frame} {b : Frame} {cs : List Frame}
    {K : List (St × Expr)} {V : List Value} {n : Nat} {out : String} {used used' : Bool} {e : Expr}
    (ho : isBlockOwner e = true) (hn : 1 ≤ n) {rs : Res}
    (h : Concl p bk ck A b cs ((St.E, e) :: K) V (n + 1) out used rs) :
    match rs.outcome with
    | .val v => ∃ x y B, rs.scopes = x :: y :: B ∧ (y :: B).length = n ∧
        MS p A out (F b ((St.E, e) :: K) (pushIf used v V) (x :: y :: B) :: cs) rs.out
    | _ => Concl p bk ck A b cs K V n out used' ⟨rs.scopes.drop 1, rs.out, rs.outcome⟩ := by
  unfold Concl at h
  cases hr : rs.outcome <;> simp only [hr] at h ⊢
  · obtain ⟨x, y, B, hs, hl⟩ := two_of_len _ _ h.1 hn
    exact ⟨x, y, B, hs, hl, hs ▸ h.2⟩
  · obtain ⟨x, y, B, hs, hl⟩ := two_of_len _ _ h.2.1 hn
    simp only [Concl, hs, List.drop_succ_cons, List.drop_zero]
    refine ⟨h.1, hl, fun G hG => h.2.2 G ?_⟩
    rw [hs, d_brk_eq p b _ K V V _ _ (brk_skipOwner K V x y B e ho)]; exact hG
  · obtain ⟨x, y, B, hs, hl⟩ := two_of_len _ _ h.2.1 hn
    simp only [Concl, hs, List.drop_succ_cons, List.drop_zero]
    refine ⟨h.1, hl, fun G hG => h.2.2 G ?_⟩
    rw [hs, d_cont_eq p b _ K V V _ _ (cont_skipOwner K V x y B e ho)]; exact hG
  · simpa [Concl] using h
  · simpa [Concl] using h
  · simp [Concl]
  · simp [Concl]

theorem d_match_N (p : Program) (b : Frame) (K : List (St × Expr)) (V : List Value) (σ : List Block) (id : Nat) (u : Bool)
    (sc : Expr) (cases : List Case) :
    dispatch p (F b K V σ) .N (.matchE id u sc cases) =
      .ok (F b ((.N, sc) :: (.PW, .matchE id u sc cases) :: K) V σ) := by
  simp [dispatch, Frame.pushE, F]

theorem foldl_addNew_filter (kvs : List (String × Value)) (σ : List Block) :
    (kvs.filter (fun kv => kv.1 != "_")).foldl (fun bs kv => addNew bs kv.1 kv.2) σ =
      kvs.foldl (fun bs kv => addNew bs kv.1 kv.2) σ := by
  induction kvs generalizing σ with
  | nil => rfl
  | cons kv rest ih =>
    by_cases h : kv.1 = "_"
    · have h1 : (kv.1 != "_") = false := by simp [h]
      have h2 : addNew σ kv.1 kv.2 = σ := by simp [addNew, h]
      simp only [List.filter_cons, h1, List.foldl_cons, h2, Bool.false_eq_true, if_false]; exact ih σ
    · have h1 : (kv.1 != "_") = true := by simp [h]
      simp only [List.filter_cons, h1, if_true, List.foldl_cons]; exact ih _

/-- `bindPayload` (machine) against `destructure` (reference): same scopes after declaring. -/
theorem bindPayload_spec (pl : Value) (d : Dest) (σ : List Block) :
    match destructure d pl (.typeError "tuple-payload") with
    | .ok binds => ∃ bs, bindPayload (some pl) (some d) = some (.ok bs) ∧
        bs.foldl (fun s kv => addNew s kv.1 kv.2) σ = declareAll σ binds
    | .error er => bindPayload (some pl) (some d) = some (.error er) := by
  cases d with
  | sym n =>
    simp only [destructure, bindPayload, declareAll]
    by_cases hn : n = "_"
    · simp [hn, addNew]
    · simp [hn]
  | destr names =>
    cases pl <;> simp only [destructure, bindPayload]
    case tuple items =>
      by_cases hl : items.length = names.length
      · simp [hl, declareAll, foldl_addNew_filter]
      · simp [hl]

theorem getVar_F (p : Program) (b : Frame) (K : List (St × Expr)) (V : List Value) (σ : List Block) (bs : Block)
    (name : String) : getVar p { F b K V σ with nextBlock := bs } name = lookupVar p σ name := by
  simp only [getVar, lookupVar, F]; cases lookupBlocks σ name <;> rfl

/-- `matchCases` (machine) takes the case `selectCase` (reference) takes. -/
theorem matchCases_select (p : Program) (b : Frame) (K : List (St × Expr)) (V : List Value) (σ : List Block)
    (used : Bool) (ty : String) (idx : Nat) (payload : Option Value) :
    ∀ (cases : List Case),
    match selectCase p σ ty idx payload cases with
    | .take binds body => (∃ vn d, Case.mk vn d body ∈ cases) ∧
        matchCases p (F b K V σ) used ty idx payload cases =
          .ok (F b (body.map (fun e => (St.N, e)) ++ K) (pushIf (used && body.isEmpty) vUnit V)
            (declareAll ([] :: σ) binds))
    | .fail er => matchCases p (F b K V σ) used ty idx payload cases = .error er
  | [] => by simp [selectCase, matchCases]
  | .mk variant dest body :: rest => by
      have ihr := matchCases_select p b K V σ used ty idx payload rest
      have hrec : ∀ (P : CaseSel → Prop), (match selectCase p σ ty idx payload rest with
          | .take binds body => (∃ vn d, Case.mk vn d body ∈ rest) ∧
              matchCases p (F b K V σ) used ty idx payload rest =
                .ok (F b (body.map (fun e => (St.N, e)) ++ K) (pushIf (used && body.isEmpty) vUnit V)
                  (declareAll ([] :: σ) binds))
          | .fail er => matchCases p (F b K V σ) used ty idx payload rest = .error er) →
          (match selectCase p σ ty idx payload rest with
          | .take binds body' => (∃ vn d, Case.mk vn d body' ∈ Case.mk variant dest body :: rest) ∧
              matchCases p (F b K V σ) used ty idx payload rest =
                .ok (F b (body'.map (fun e => (St.N, e)) ++ K) (pushIf (used && body'.isEmpty) vUnit V)
                  (declareAll ([] :: σ) binds))
          | .fail er => matchCases p (F b K V σ) used ty idx payload rest = .error er) := by
        intro _ h
        cases hs : selectCase p σ ty idx payload rest <;> simp only [hs] at h ⊢
        · obtain ⟨⟨vn, d, hm⟩, h2⟩ := h
          exact ⟨⟨vn, d, List.mem_cons_of_mem _ hm⟩, h2⟩
        · exact h
      have ihr' := hrec (fun _ => True) ihr
      have hg := getVar_F p b K V σ [] variant
      have hF : ({ F b K V σ with nextBlock := [] } : Frame) = F b K V σ := rfl
      rw [hF] at hg
      unfold selectCase matchCases
      by_cases hv : (variant == "_") = true
      · simp only [hv, if_true]
        exact ⟨⟨variant, dest, List.mem_cons_self⟩, by rw [evalBlock_F0]; rfl⟩
      · simp only [hv, if_false, Bool.false_eq_true, hg]
        cases hl : lookupVar p σ variant with
        | none => simp
        | some pv =>
          cases pv <;> simp only [patKey]
          case enumV pty pidx ppl =>
            by_cases hm : (ty == pty && idx == pidx) = true
            · simp only [hm, if_true]
              cases payload with
              | none =>
                cases dest with
                | none =>
                  simp only [bindPayload]
                  exact ⟨⟨variant, none, List.mem_cons_self⟩, by rw [evalBlock_F]⟩
                | some d => simp only [bindPayload]; exact ihr'
              | some pl =>
                cases dest with
                | none => simp only [bindPayload]; exact ihr'
                | some d =>
                  have hb := bindPayload_spec pl d ([] :: σ)
                  cases hd : destructure d pl (.typeError "tuple-payload") with
                  | ok binds =>
                    simp only [hd] at hb ⊢
                    obtain ⟨bs, hb1, hb2⟩ := hb
                    simp only [hb1]
                    refine ⟨⟨variant, some d, List.mem_cons_self⟩, ?_⟩
                    rw [evalBlock_F]
                    simp only [declareAll] at hb2 ⊢
                    rw [hb2]
                  | error er =>
                    simp only [hd] at hb ⊢
                    simp only [hb]
            · simp only [hm, if_false, Bool.false_eq_true]; exact ihr'
          case enumC pty pidx =>
            by_cases hm : (ty == pty && idx == pidx) = true
            · simp only [hm, if_true]
              cases payload with
              | none =>
                cases dest with
                | none =>
                  simp only [bindPayload]
                  exact ⟨⟨variant, none, List.mem_cons_self⟩, by rw [evalBlock_F]⟩
                | some d => simp only [bindPayload]; exact ihr'
              | some pl =>
                cases dest with
                | none => simp only [bindPayload]; exact ihr'
                | some d =>
                  have hb := bindPayload_spec pl d ([] :: σ)
                  cases hd : destructure d pl (.typeError "tuple-payload") with
                  | ok binds =>
                    simp only [hd] at hb ⊢
                    obtain ⟨bs, hb1, hb2⟩ := hb
                    simp only [hb1]
                    refine ⟨⟨variant, some d, List.mem_cons_self⟩, ?_⟩
                    rw [evalBlock_F]
                    simp only [declareAll] at hb2 ⊢
                    rw [hb2]
                  | error er =>
                    simp only [hd] at hb ⊢
                    simp only [hb]
            · simp only [hm, if_false, Bool.false_eq_true]; exact ihr'

-- ------------------------------------------------------------------ calls

theorem d_call_N (p : Program) (b : Frame) (K : List (St × Expr)) (V : List Value) (σ : List Block) (id : Nat) (u : Bool)
    (recv : Expr) (args : List Expr) :
    dispatch p (F b K V σ) .N (.call id u recv args) =
      .ok (F b ((.N, recv) :: (.PN, .call id u recv args) :: K) V σ) := by
  simp [dispatch, Frame.pushE, F]

theorem call_PN (p : Program) (b : Frame) (K : List (St × Expr)) (V : List Value) (σ : List Block) (id : Nat) (u : Bool)
    (recv : Expr) (args : List Expr) :
    dispatch p (F b K V σ) .PN (.call id u recv args) =
      .ok (F b (args.reverse.map (fun e => (St.N, e)) ++ (.E, .call id u recv args) :: K) V σ) := by
  have : (F b K V σ).pushE .E (.call id u recv args) = F b ((.E, .call id u recv args) :: K) V σ := rfl
  simp [dispatch, this, foldl_pushE]

/-- What applying a function value must do on the machine side: the `E` step of the call node
(receiver and arguments on the value stack, first argument on top). -/
def ApHolds (p : Program) (ap : Ap) (ev : Ev) : Prop :=
  ∀ (σ : List Block) (out : String) (fv : Value) (vs : List Value) (id : Nat) (u : Bool) (recv : Expr)
    (args : List Expr) (b : Frame) (cs : List Frame) (K : List (St × Expr)) (V : List Value),
    σ ≠ [] → vs.length = args.length →
    Concl p false false (F b ((St.E, .call id u recv args) :: K) (vs ++ fv :: V) σ :: cs) b cs K V σ.length out u
      (ap ev σ out fv vs)

theorem call_E_eq (p : Program) (b : Frame) (K : List (St × Expr)) (V : List Value) (σ : List Block) (id : Nat) (u : Bool)
    (recv : Expr) (args : List Expr) (fv : Value) (vs : List Value) (hl : vs.length = args.length) :
    dispatch p (F b K (vs ++ fv :: V) σ) .E (.call id u recv args) =
      evalCall p (F b K (vs ++ fv :: V) σ) id u vs.length := by
  simp [dispatch, Expr.id, Expr.used, hl]

theorem Concl_val1 {p : Program} {bk ck : Bool} {b : Frame} {cs : List Frame} {st : St} {e : Expr}
    {K : List (St × Expr)} {V V0 : List Value} {σ : List Block} {out : String} {used : Bool} {v : Value}
    (hd : dispatch p (F b K V0 σ) st e = .ok (F b K (pushIf used v V) σ)) :
    Concl p bk ck (F b ((st, e) :: K) V0 σ :: cs) b cs K V σ.length out used ⟨σ, out, .val v⟩ := by
  simp only [Concl]; exact ⟨trivial, MS.one hd⟩

theorem Concl_err1 {p : Program} {bk ck : Bool} {b : Frame} {cs : List Frame} {st : St} {e : Expr}
    {K : List (St × Expr)} {V V0 : List Value} {σ : List Block} {n : Nat} {out : String} {used : Bool} {er : Err}
    (hd : ∃ f' st' vals, dispatch p (F b K V0 σ) st e = .err f' st' vals er) :
    Concl p bk ck (F b ((st, e) :: K) V0 σ :: cs) b cs K V n out used ⟨σ, out, .err er⟩ := by
  simp only [Concl]; exact ⟨_, _, MS.refl _ _, MErr.mk1 hd⟩

theorem F_values (b : Frame) (K : List (St × Expr)) (V : List Value) (σ : List Block) : (F b K V σ).values = V := rfl
theorem F_exprs (b : Frame) (K : List (St × Expr)) (V : List Value) (σ : List Block) : (F b K V σ).exprs = K := rfl
theorem F_blocks (b : Frame) (K : List (St × Expr)) (V : List Value) (σ : List Block) : (F b K V σ).blocks = σ := rfl

/-- A built-in applied to one argument, as an if-chain (reference side). -/
theorem apply_builtin1 (ev : Ev) (p : Program) (σ : List Block) (out : String) (name : String) (a : Value) :
    BigStep.apply ev p σ out (.builtin name) [a] =
      if name = "println" then
        (match a with | .str t => ⟨σ, out ++ (t ++ "\n"), .val vUnit⟩ | _ => ⟨σ, out, .err (.typeError "String")⟩)
      else if name = "print" then
        (match a with | .str t => ⟨σ, out ++ t, .val vUnit⟩ | _ => ⟨σ, out, .err (.typeError "String")⟩)
      else if name = "string_repr" then ⟨σ, out, .val (.str (display p a))⟩
      else ⟨σ, out, .unsupported ("builtin " ++ name)⟩ := by
  by_cases h1 : name = "println"
  · subst h1; cases a <;> simp [BigStep.apply]
  · by_cases h2 : name = "print"
    · subst h2; cases a <;> simp [BigStep.apply]
    · by_cases h3 : name = "string_repr"
      · subst h3; simp [BigStep.apply]
      · simp only [BigStep.apply, h1, h2, h3, if_false]
        simp only [List.length_singleton, bne_self_eq_false, Bool.false_eq_true, if_false]
        split <;> simp_all

/-- The same on the machine side. -/
theorem evalCall_builtin1 (p : Program) (b : Frame) (K : List (St × Expr)) (V : List Value) (σ : List Block)
    (id : Nat) (u : Bool) (name : String) (a : Value) :
    evalCall p (F b K (a :: .builtin name :: V) σ) id u 1 =
      if name = "println" then
        (match a with
          | .str t => .okOut (F b K (pushIf u vUnit V) σ) (t ++ "\n")
          | _ => .err (F b K V σ) .E [.builtin name, a] (.typeError "String"))
      else if name = "print" then
        (match a with
          | .str t => .okOut (F b K (pushIf u vUnit V) σ) t
          | _ => .err (F b K V σ) .E [.builtin name, a] (.typeError "String"))
      else if name = "string_repr" then .ok (F b K (pushIf u (.str (display p a)) V) σ)
      else .unsupported ("builtin " ++ name) := by
  have hF : ∀ V', ({ F b K (a :: .builtin name :: V) σ with values := V' } : Frame) = F b K V' σ := fun _ => rfl
  by_cases h1 : name = "println"
  · subst h1; cases a <;> simp [evalCall, popN, hF, F_pushVIf, F_values]
  · by_cases h2 : name = "print"
    · subst h2; cases a <;> simp [evalCall, popN, hF, F_pushVIf, F_values]
    · by_cases h3 : name = "string_repr"
      · subst h3; simp [evalCall, popN, hF, F_pushVIf, F_values]
      · simp only [evalCall, popN, hF, h1, h2, h3, if_false, Option.map, F_values]
        simp only [List.length_singleton, bne_self_eq_false, Bool.false_eq_true, if_false]
        split <;> simp_all

theorem apHolds_builtin (p : Program) (ev : Ev) : ApHolds p (applyBuiltin p) ev := by
  intro σ out fv vs id u recv args b cs K V hσ hl
  have hE := call_E_eq p b K V σ id u recv args fv vs hl
  have hp : popN vs.length (vs ++ fv :: V) = some (vs, fv :: V) := popN_append vs (fv :: V)
  have hFv : ∀ V', ({ F b K (vs ++ fv :: V) σ with values := V' } : Frame) = F b K V' σ := fun _ => rfl
  cases fv
  case closure => simp [applyBuiltin, Concl]
  case fn => simp [applyBuiltin, Concl]
  case builtin name =>
    simp only [applyBuiltin]
    by_cases h1 : vs.length = 1
    · cases vs with
      | nil => simp at h1
      | cons a rest =>
        cases rest with
        | cons a2 r2 => simp at h1
        | nil =>
          simp only [List.length_singleton, List.singleton_append] at hE
          rw [evalCall_builtin1] at hE
          rw [apply_builtin1]
          by_cases n1 : name = "println"
          · simp only [n1, if_true] at hE ⊢
            cases a <;> simp only [] at hE ⊢
            case str t =>
              simp only [Concl]
              exact ⟨trivial, MS.okOut (f := F b ((St.E, .call id u recv args) :: K) _ σ) rfl hE (MS.refl _ _)⟩
            all_goals exact Concl_err1 ⟨_, _, _, hE⟩
          · by_cases n2 : name = "print"
            · subst n2
              simp (config := { decide := true }) only [if_true, if_false, ite_true, ite_false] at hE ⊢
              cases a <;> simp only [] at hE ⊢
              case str t =>
                simp only [Concl]
                exact ⟨trivial, MS.okOut (f := F b ((St.E, .call id u recv args) :: K) _ σ) rfl hE (MS.refl _ _)⟩
              all_goals exact Concl_err1 ⟨_, _, _, hE⟩
            · by_cases n3 : name = "string_repr"
              · subst n3
                simp (config := { decide := true }) only [if_true, if_false, ite_true, ite_false] at hE ⊢
                exact Concl_val1 hE
              · simp only [n1, n2, n3, if_false]
                simp [Concl]
    · have hne : (vs.length != 1) = true := by simp [h1]
      simp only [BigStep.apply, hne, if_true]
      refine Concl_err1 ?_
      rw [hE]
      simp only [evalCall, hp, hFv, hne, if_true, F_values]
      exact ⟨_, _, _, rfl⟩
  case enumC ty idx =>
    simp only [applyBuiltin, BigStep.apply]
    cases vs with
    | nil =>
      simp only []
      refine Concl_err1 ?_
      rw [hE]; simp only [evalCall, hp, hFv, F_values]
      exact ⟨_, _, _, rfl⟩
    | cons a rest =>
      cases rest with
      | nil =>
        simp only []
        refine Concl_val1 ?_
        rw [hE]; simp only [evalCall, hp, hFv, F_values, F_pushVIf]; rfl
      | cons a2 r2 =>
        simp only []
        refine Concl_err1 ?_
        rw [hE]
        simp only [evalCall, hp, hFv, F_values]
        exact ⟨_, _, _, rfl⟩
  all_goals (
    simp only [applyBuiltin, BigStep.apply]
    refine Concl_err1 ?_
    rw [hE]
    simp only [evalCall, hp, hFv, F_values]
    exact ⟨_, _, _, rfl⟩)


-- ==================================================================== (BS3.lean)

/-- An operand conclusion (no exits allowed) is a conclusion for any exit flags. -/
theorem Concl.weaken {p : Program} {bk ck : Bool} {A : List Frame} {b : Frame} {cs : List Frame}
    {K : List (St × Expr)} {V : List Value} {n : Nat} {out : String} {used : Bool} {r : Res}
    (h : Concl p false false A b cs K V n out used r) : Concl p bk ck A b cs K V n out used r := by
  unfold Concl at h ⊢
  cases hr : r.outcome <;> simp only [hr] at h ⊢
  · exact h
  · exact absurd h.1 (by simp)
  · exact absurd h.1 (by simp)
  · exact h
  · exact h

theorem binop_shape (op : BinOp) (lv rv : Value) :
    (∃ v, BigStep.binop op lv rv = .val v) ∨ (∃ e, BigStep.binop op lv rv = .err e) ∨
    (∃ w, BigStep.binop op lv rv = .unsupported w) := by
  cases op <;> simp only [BigStep.binop] <;> (repeat' split) <;> simp

theorem pushIf_block (u : Bool) (body : List Expr) (ev : Ev) (σ : List Block) (out : String) (v : Value)
    (V : List Value) (s2 : List Block) (o2 : String)
    (h : evalSeq ev vUnit body σ out = ⟨s2, o2, .val v⟩) :
    pushIf (u && !body.isEmpty) v (pushIf (u && body.isEmpty) vUnit V) = pushIf u v V := by
  cases body with
  | nil => simp [evalSeq] at h; simp [pushIf, h.2.2]
  | cons x xs => simp [pushIf]

theorem lv_list (id : Nat) (u : Bool) (items : List Expr) (L : Nat) (h : lvE (.list id u items) ≤ L) : lvB items ≤ L := by
  simp only [lvE] at h; omega

/-- The body of the taken branch of an `if` (block entered, `(E, if)` pending below it). -/
theorem sim_if_branch {p : Program} {L : Nat} {ev : Ev} (ih : IH p L ev) (bk ck : Bool)
    (id : Nat) (u : Bool) (c : Expr) (t : List Expr) (els : Option (List Expr)) (body : List Expr)
    (s1 : List Block) (o1 : String) (hs1 : s1 ≠ []) (hl : lvB body ≤ L)
    (hw : wfB (u && els.isSome) body = true) (hx : exB bk ck body = true)
    (b : Frame) (cs : List Frame) (K : List (St × Expr)) (V : List Value) :
    Concl p bk ck
      (F b (body.map (fun e => (St.N, e)) ++ (.E, .ifE id u c t els) :: K)
        (pushIf ((u && els.isSome) && body.isEmpty) vUnit V) ([] :: s1) :: cs)
      b cs K V s1.length o1 u
      (match (generalizing := false) (runBlock ev [] body s1 o1).outcome, els with
        | .val _, none => ⟨(runBlock ev [] body s1 o1).scopes, (runBlock ev [] body s1 o1).out, .val vUnit⟩
        | _, _ => runBlock ev [] body s1 o1) := by
  have hseq := sim_seq ih (u && els.isSome) bk ck body vUnit ([] :: s1) o1 (by simp) hl hw hx b cs
    ((.E, .ifE id u c t els) :: K) (pushIf ((u && els.isSome) && body.isEmpty) vUnit V)
  have hn : 1 ≤ s1.length := by cases s1 <;> simp_all
  have hlen : ([] :: s1).length = s1.length + 1 := by simp
  rw [hlen] at hseq
  have hlb := leave_block (used' := u) (e := .ifE id u c t els) rfl hn hseq
  simp only [runBlock, declareAll, List.foldl]
  generalize hrs : evalSeq ev vUnit body ([] :: s1) o1 = rs at hlb ⊢
  obtain ⟨s2, o2, oc2⟩ := rs
  cases oc2
  case val v =>
    simp only [] at hlb
    obtain ⟨x, y, B, hs, hlen2, hms⟩ := hlb
    subst hs
    have hpv := pushIf_block (u && els.isSome) body ev ([] :: s1) o1 v V _ _ hrs
    rw [hpv] at hms
    have hE := if_E p b K (pushIf (u && els.isSome) v V) x y B id u c t els
    cases els with
    | none =>
      simp only [Concl, List.drop_succ_cons, List.drop_zero]
      refine ⟨hlen2, hms.trans ?_⟩
      simp only [Option.isSome_none, Bool.and_false, pushIf, Bool.false_eq_true, if_false, Option.isNone_none,
        Bool.and_true] at hE ⊢
      exact MS.one hE
    | some eb =>
      simp only [Concl, List.drop_succ_cons, List.drop_zero]
      refine ⟨hlen2, hms.trans ?_⟩
      simp only [Option.isSome_some, Bool.and_true, Option.isNone_some, Bool.and_false, pushIf,
        Bool.false_eq_true, if_false] at hE ⊢
      exact MS.one hE
  all_goals (
    simp only [] at hlb ⊢
    cases body with
    | nil => simp [evalSeq] at hrs
    | cons x xs =>
      simp only [List.isEmpty_cons, Bool.and_false, pushIf, Bool.false_eq_true, if_false] at hlb ⊢
      cases els <;> exact hlb)

theorem match_PW (p : Program) (b : Frame) (K : List (St × Expr)) (V : List Value) (σ : List Block) (id : Nat) (u : Bool)
    (sc : Expr) (cases : List Case) (sv : Value) :
    match sv with
    | .enumV ty idx payload =>
      match selectCase p σ ty idx payload cases with
      | .take binds body => (∃ vn d, Case.mk vn d body ∈ cases) ∧
          dispatch p (F b K (sv :: V) σ) .PW (.matchE id u sc cases) =
            .ok (F b (body.map (fun e => (St.N, e)) ++ (.E, .matchE id u sc cases) :: K)
              (pushIf (u && body.isEmpty) vUnit V) (declareAll ([] :: σ) binds))
      | .fail er => ∃ f' st' vals,
          dispatch p (F b K (sv :: V) σ) .PW (.matchE id u sc cases) = .err f' st' vals er
    | _ => ∃ f' st' vals, dispatch p (F b K (sv :: V) σ) .PW (.matchE id u sc cases) = .err f' st' vals .notEnum := by
  have hF : ∀ V', ({ F b K (sv :: V) σ with values := V' } : Frame) = F b K V' σ := fun _ => rfl
  have hP : ∀ V', (F b K V' σ).pushE .E (.matchE id u sc cases) = F b ((.E, .matchE id u sc cases) :: K) V' σ :=
    fun _ => rfl
  cases sv <;> simp only [] <;> (try (simp only [dispatch, F_values, hF]; exact ⟨_, _, _, rfl⟩))
  case enumV ty idx payload =>
    have hm := matchCases_select p b ((.E, .matchE id u sc cases) :: K) V σ u ty idx payload cases
    cases hs : selectCase p σ ty idx payload cases <;> simp only [hs] at hm ⊢
    · refine ⟨hm.1, ?_⟩
      simp only [dispatch, F_values, hF, hP, Expr.used, hm.2]
    · simp only [dispatch, F_values, hF, hP, Expr.used, hm]
      exact ⟨_, _, _, rfl⟩

theorem wfCases_mem (u : Bool) : ∀ (cases : List Case) (vn : String) (d : Option Dest) (body : List Expr),
    wfCases u cases = true → Case.mk vn d body ∈ cases → wfB u body = true
  | [], _, _, _, _, hm => by simp at hm
  | .mk vn' d' body' :: rest, vn, d, body, hw, hm => by
      simp only [wfCases, Bool.and_eq_true] at hw
      rcases List.mem_cons.mp hm with h | h
      · cases h; exact hw.1
      · exact wfCases_mem u rest vn d body hw.2 h

theorem exCases_mem (bk ck : Bool) : ∀ (cases : List Case) (vn : String) (d : Option Dest) (body : List Expr),
    exCases bk ck cases = true → Case.mk vn d body ∈ cases → exB bk ck body = true
  | [], _, _, _, _, hm => by simp at hm
  | .mk vn' d' body' :: rest, vn, d, body, hw, hm => by
      simp only [exCases, Bool.and_eq_true] at hw
      rcases List.mem_cons.mp hm with h | h
      · cases h; exact hw.1
      · exact exCases_mem bk ck rest vn d body hw.2 h

theorem lvCases_mem (L : Nat) : ∀ (cases : List Case) (vn : String) (d : Option Dest) (body : List Expr),
    lvCases cases ≤ L → Case.mk vn d body ∈ cases → lvB body ≤ L
  | [], _, _, _, _, hm => by simp at hm
  | .mk vn' d' body' :: rest, vn, d, body, hw, hm => by
      simp only [lvCases] at hw
      rcases List.mem_cons.mp hm with h | h
      · cases h; omega
      · exact lvCases_mem L rest vn d body (by omega) h

/-- The body of the taken case of a `match` (block entered, `(E, match)` pending below it). -/
theorem sim_match_body {p : Program} {L : Nat} {ev : Ev} (ih : IH p L ev) (bk ck : Bool)
    (id : Nat) (u : Bool) (sc : Expr) (cases : List Case) (binds : List (String × Value)) (body : List Expr)
    (s1 : List Block) (o1 : String) (hs1 : s1 ≠ []) (hl : lvB body ≤ L)
    (hw : wfB u body = true) (hx : exB bk ck body = true)
    (b : Frame) (cs : List Frame) (K : List (St × Expr)) (V : List Value) :
    Concl p bk ck
      (F b (body.map (fun e => (St.N, e)) ++ (.E, .matchE id u sc cases) :: K)
        (pushIf (u && body.isEmpty) vUnit V) (declareAll ([] :: s1) binds) :: cs)
      b cs K V s1.length o1 u (runBlock ev binds body s1 o1) := by
  have hdl : (declareAll ([] :: s1) binds).length = s1.length + 1 := by simp [declareAll_length]
  have hne : declareAll ([] :: s1) binds ≠ [] := by
    intro h; rw [h] at hdl; simp at hdl
  have hseq := sim_seq ih u bk ck body vUnit (declareAll ([] :: s1) binds) o1 hne hl hw hx b cs
    ((.E, .matchE id u sc cases) :: K) (pushIf (u && body.isEmpty) vUnit V)
  have hn : 1 ≤ s1.length := by cases s1 <;> simp_all
  rw [hdl] at hseq
  have hlb := leave_block (used' := u) (e := .matchE id u sc cases) rfl hn hseq
  simp only [runBlock]
  generalize hrs : evalSeq ev vUnit body (declareAll ([] :: s1) binds) o1 = rs at hlb ⊢
  obtain ⟨s2, o2, oc2⟩ := rs
  cases oc2
  case val v =>
    simp only [] at hlb
    obtain ⟨x, y, B, hs, hlen2, hms⟩ := hlb
    subst hs
    have hpv := pushIf_block u body ev _ o1 v V _ _ hrs
    rw [hpv] at hms
    simp only [Concl, List.drop_succ_cons, List.drop_zero]
    exact ⟨hlen2, hms.trans (MS.one (match_E p b K (pushIf u v V) x y B id u sc cases))⟩
  all_goals (
    simp only [] at hlb ⊢
    cases body with
    | nil => simp [evalSeq] at hrs
    | cons x xs =>
      simp only [List.isEmpty_cons, Bool.and_false, pushIf, Bool.false_eq_true, if_false] at hlb ⊢
      exact hlb)


-- ==================================================================== (BS4.lean)

theorem max_le3 {a b c L : Nat} (h : max a (max b c) ≤ L) : a ≤ L ∧ b ≤ L ∧ c ≤ L := by omega

/-- One more unit of fuel, stage (a) node kinds. -/
theorem sim_succ_a {ap : Ap} {p : Program} {L n : Nat}
    (hap : ApHolds p ap (evalWith ap p n)) (ih : IH p L (evalWith ap p n))
    (bk ck : Bool) (e : Expr) (σ : List Block) (out : String) (hσ : σ ≠ []) (hl : lvE e ≤ L)
    (hw : wfE e = true) (hx : exE bk ck e = true)
    (hk : e.isLoop = false ∧ (∀ id u, e ≠ .brk id u) ∧ (∀ id u, e ≠ .cont id u) ∧ (∀ id u x, e ≠ .ret id u x) ∧
      (∀ id u ps b, e ≠ .lambda id u ps b)) :
    Holds p bk ck e σ out (evalWith ap p (n + 1) σ out e) := by
  intro b cs K V
  cases e
  case int id u v => simp only [evalWith]; exact Concl_val1 (d_int p b K V σ id u v)
  case str id u t => simp only [evalWith]; exact Concl_val1 (d_str p b K V σ id u t)
  case var id u name =>
    simp only [evalWith]
    have hd := d_var p b K V σ id u name
    cases hlk : lookupVar p σ name <;> simp only [hlk] at hd ⊢
    · exact Concl_err1 hd
    · exact Concl_val1 hd
  case invalid id u =>
    simp only [evalWith]
    exact Concl_err1 ⟨F b K V σ, .N, [], by simp only [dispatch]⟩
  case unsup id u w => simp [evalWith, Concl]
  case paren id u inner =>
    simp only [wfE, Bool.and_eq_true, beq_iff_eq] at hw
    simp only [exE] at hx
    simp only [lvE] at hl
    simp only [evalWith]
    have h := ih false false inner σ out hσ hl hw.2 hx b cs K V
    rw [hw.1] at h
    exact (h.prepend (MS.one (d_paren p b K V σ id u inner))).weaken
  case binop id u op l r =>
    simp only [wfE, Bool.and_eq_true] at hw
    simp only [exE, Bool.and_eq_true] at hx
    simp only [lvE] at hl
    have hl3 := max_le3 hl
    simp only [evalWith]
    have h1 := (ih false false l σ out hσ hl3.2.1 hw.1.2 hx.1 b cs
      ((.N, r) :: (.E, .binop id u op l r) :: K) V).prepend (MS.one (d_binop_N p b K V σ id u op l r))
    generalize evalWith ap p n σ out l = rl at h1 ⊢
    obtain ⟨s1, o1, oc1⟩ := rl
    cases oc1
    case val lv =>
      simp only []
      simp only [Concl, hw.1.1.1, pushIf, if_true] at h1
      have h2 := (ih false false r s1 o1 (ne_nil_of_len h1.1 hσ) hl3.2.2 hw.2 hx.2 b cs
        ((.E, .binop id u op l r) :: K) (lv :: V)).prepend h1.2
      generalize evalWith ap p n s1 o1 r = rr at h2 ⊢
      obtain ⟨s2, o2, oc2⟩ := rr
      cases oc2
      case val rv =>
        simp only []
        simp only [Concl, hw.1.1.2, pushIf, if_true] at h2
        have hE := binop_E p b K V s2 id u op l r lv rv
        rcases binop_shape op lv rv with ⟨v, hb⟩ | ⟨er, hb⟩ | ⟨w, hb⟩ <;> simp only [hb] at hE ⊢ <;> simp only [Concl]
        · exact ⟨by omega, h2.2.trans (MS.one hE)⟩
        · exact ⟨_, _, h2.2, MErr.mk1 hE⟩
      all_goals (simp only []; exact h2.operand_nonval (by intro v; simp))
    all_goals (simp only []; exact h1.operand_nonval (by intro v; simp))
  case letE id u dest inner =>
    simp only [wfE, Bool.and_eq_true] at hw
    simp only [exE] at hx
    simp only [lvE] at hl
    simp only [evalWith]
    have h1 := (ih false false inner σ out hσ hl hw.2 hx b cs ((.E, .letE id u dest inner) :: K) V).prepend
      (MS.one (d_unary_N p b K V σ _ inner (Or.inl ⟨id, u, dest, rfl⟩)))
    generalize evalWith ap p n σ out inner = r1 at h1 ⊢
    obtain ⟨s1, o1, oc1⟩ := r1
    cases oc1
    case val v =>
      simp only []
      simp only [Concl, hw.1, pushIf, if_true] at h1
      have hE := let_E p b K V s1 id u dest inner v
      cases hd : destructure dest v (.typeError "Tuple") <;> simp only [hd] at hE ⊢ <;> simp only [Concl]
      · exact ⟨_, _, h1.2, MErr.mk1 hE⟩
      · exact ⟨by rw [declareAll_length]; exact h1.1, h1.2.trans (MS.one hE)⟩
    all_goals (simp only []; exact h1.operand_nonval (by intro v; simp))
  case assign id u name inner =>
    simp only [wfE, Bool.and_eq_true] at hw
    simp only [exE] at hx
    simp only [lvE] at hl
    simp only [evalWith]
    have h1 := (ih false false inner σ out hσ hl hw.2 hx b cs ((.E, .assign id u name inner) :: K) V).prepend
      (MS.one (d_unary_N p b K V σ _ inner (Or.inr (Or.inl ⟨id, u, name, rfl⟩))))
    generalize evalWith ap p n σ out inner = r1 at h1 ⊢
    obtain ⟨s1, o1, oc1⟩ := r1
    cases oc1
    case val v =>
      simp only []
      simp only [Concl, hw.1, pushIf, if_true] at h1
      have hE := assign_E p b K V s1 id u name inner v
      cases hd : setExisting s1 name v <;> simp only [hd] at hE ⊢ <;> simp only [Concl]
      · exact ⟨_, _, h1.2, MErr.mk1 hE⟩
      · exact ⟨by rw [setExisting_length _ _ _ _ hd]; exact h1.1, h1.2.trans (MS.one hE)⟩
    all_goals (simp only []; exact h1.operand_nonval (by intro v; simp))
  case update id u isAdd name inner =>
    simp only [wfE, Bool.and_eq_true] at hw
    simp only [exE] at hx
    simp only [lvE] at hl
    simp only [evalWith]
    have h1 := (ih false false inner σ out hσ hl hw.2 hx b cs ((.E, .update id u isAdd name inner) :: K) V).prepend
      (MS.one (d_unary_N p b K V σ _ inner (Or.inr (Or.inr ⟨id, u, isAdd, name, rfl⟩))))
    generalize evalWith ap p n σ out inner = r1 at h1 ⊢
    obtain ⟨s1, o1, oc1⟩ := r1
    cases oc1
    case val dv =>
      simp only []
      simp only [Concl, hw.1, pushIf, if_true] at h1
      have hE := update_E p b K V s1 id u isAdd name inner dv
      cases hlk : lookupVar p s1 name with
      | none => simp only [hlk] at hE ⊢; simp only [Concl]; exact ⟨_, _, h1.2, MErr.mk1 hE⟩
      | some cv =>
        cases cv <;> simp only [hlk] at hE ⊢ <;> (try (simp only [Concl]; exact ⟨_, _, h1.2, MErr.mk1 hE⟩))
        case int cur =>
          cases dv <;> simp only [] at hE ⊢ <;> (try (simp only [Concl]; exact ⟨_, _, h1.2, MErr.mk1 hE⟩))
          case int d =>
            cases hse : setExisting s1 name (.int (if isAdd then cur + d else cur - d)) with
            | none => simp only [hse] at hE
            | some σ' =>
              simp only [hse] at hE ⊢
              simp only [Concl]
              exact ⟨by rw [setExisting_length _ _ _ _ hse]; exact h1.1, h1.2.trans (MS.one hE)⟩
    all_goals (simp only []; exact h1.operand_nonval (by intro v; simp))
  case list id u items =>
    simp only [wfE] at hw
    simp only [exE] at hx
    have hl' := lv_list id u items L hl
    simp only [evalWith]
    have h1 := sim_rtl ih items σ out hσ hl' hw hx b cs ((.E, .list id u items) :: K) V
    have h0 : MS p (F b ((.N, .list id u items) :: K) V σ :: cs) out _ out := MS.one (d_list_N p b K V σ id u items)
    generalize evalRtl (evalWith ap p n) items σ out = r1 at h1 ⊢
    obtain ⟨s1, o1, res⟩ := r1
    cases res with
    | ok vs =>
      simp only [ConclL] at h1
      simp only [Concl]
      exact ⟨h1.2.1, h0.trans (h1.2.2.trans (MS.one (list_E p b K V s1 id u items vs h1.1)))⟩
    | error o =>
      simp only [ConclL] at h1
      simp only []
      exact (h1.2.prepend h0).operand_nonval h1.1
  case tuple id u items =>
    simp only [wfE] at hw
    simp only [exE] at hx
    simp only [lvE] at hl
    simp only [evalWith]
    have h1 := sim_rtl ih items σ out hσ hl hw hx b cs ((.E, .tuple id u items) :: K) V
    have h0 : MS p (F b ((.N, .tuple id u items) :: K) V σ :: cs) out _ out := MS.one (d_tuple_N p b K V σ id u items)
    generalize evalRtl (evalWith ap p n) items σ out = r1 at h1 ⊢
    obtain ⟨s1, o1, res⟩ := r1
    cases res with
    | ok vs =>
      simp only [ConclL] at h1
      simp only [Concl]
      exact ⟨h1.2.1, h0.trans (h1.2.2.trans (MS.one (tuple_E p b K V s1 id u items vs h1.1)))⟩
    | error o =>
      simp only [ConclL] at h1
      simp only []
      exact (h1.2.prepend h0).operand_nonval h1.1
  case ifE id u c t els =>
    simp only [evalWith]
    have hcw : c.used = true ∧ wfE c = true ∧ wfB (u && els.isSome) t = true ∧
        (∀ eb, els = some eb → wfB (u && els.isSome) eb = true) := by
      cases els <;> simp only [wfE, Bool.and_eq_true] at hw
      · exact ⟨hw.1.1, hw.1.2, by simpa using hw.2, by intro eb h; cases h⟩
      · exact ⟨hw.1.1.1, hw.1.1.2, by simpa using hw.1.2, by intro eb h; cases h; simpa using hw.2⟩
    have hcx : exE false false c = true ∧ exB bk ck t = true ∧ (∀ eb, els = some eb → exB bk ck eb = true) := by
      cases els <;> simp only [exE, Bool.and_eq_true] at hx
      · exact ⟨hx.1, hx.2, by intro eb h; cases h⟩
      · exact ⟨hx.1.1, hx.1.2, by intro eb h; cases h; exact hx.2⟩
    have hcl : lvE c ≤ L ∧ lvB t ≤ L ∧ (∀ eb, els = some eb → lvB eb ≤ L) := by
      cases els <;> simp only [lvE] at hl
      · exact ⟨by omega, by omega, by intro eb h; cases h⟩
      · exact ⟨by omega, by omega, by intro eb h; cases h; omega⟩
    have h1 := (ih false false c σ out hσ hcl.1 hcw.2.1 hcx.1 b cs ((.PW, .ifE id u c t els) :: K) V).prepend
      (MS.one (d_if_N p b K V σ id u c t els))
    generalize evalWith ap p n σ out c = rc at h1 ⊢
    obtain ⟨s1, o1, oc1⟩ := rc
    cases oc1
    case val cv =>
      simp only []
      simp only [Concl, hcw.1, pushIf, if_true] at h1
      have hs1 := ne_nil_of_len h1.1 hσ
      have hPW := if_PW p b K V s1 id u c t els cv
      cases hb : cv.asBool with
      | none =>
        simp only [hb] at hPW ⊢
        simp only [Concl]; exact ⟨_, _, h1.2, MErr.mk1 hPW⟩
      | some bv =>
        cases bv
        · -- condition false
          cases els with
          | none =>
            simp only [hb] at hPW ⊢
            simp only [Concl]
            match s1, hs1, h1 with
            | y :: B, _, h1 =>
              refine ⟨h1.1, h1.2.trans ((MS.one hPW).trans (MS.one ?_))⟩
              have := if_E p b K V [] y B id u c t none
              simpa [Expr.used] using this
          | some eb =>
            simp only [hb] at hPW ⊢
            have hbr := sim_if_branch ih bk ck id u c t (some eb) eb s1 o1 hs1 (hcl.2.2 eb rfl)
              (hcw.2.2.2 eb rfl) (hcx.2.2 eb rfl) b cs K V
            have h2 := hbr.prepend (h1.2.trans (MS.one hPW))
            rw [← h1.1]
            revert h2
            generalize runBlock (evalWith ap p n) [] eb s1 o1 = rb
            obtain ⟨s2, o2, oc2⟩ := rb
            cases oc2 <;> simp only [] <;> exact fun h => h
        · -- condition true
          simp only [hb] at hPW ⊢
          have hbr := sim_if_branch ih bk ck id u c t els t s1 o1 hs1 hcl.2.1 hcw.2.2.1 hcx.2.1 b cs K V
          have h2 := hbr.prepend (h1.2.trans (MS.one hPW))
          rw [← h1.1]
          exact h2
    all_goals (simp only []; exact h1.operand_nonval (by intro v; simp))
  case matchE id u sc cases =>
    simp only [wfE, Bool.and_eq_true] at hw
    simp only [exE, Bool.and_eq_true] at hx
    simp only [lvE] at hl
    simp only [evalWith]
    have h1 := (ih false false sc σ out hσ (by omega) hw.1.2 hx.1 b cs ((.PW, .matchE id u sc cases) :: K) V).prepend
      (MS.one (d_match_N p b K V σ id u sc cases))
    generalize evalWith ap p n σ out sc = rc at h1 ⊢
    obtain ⟨s1, o1, oc1⟩ := rc
    cases oc1
    case val sv =>
      simp only [Concl, hw.1.1, pushIf, if_true] at h1
      have hs1 := ne_nil_of_len h1.1 hσ
      have hPW := match_PW p b K V s1 id u sc cases sv
      cases sv <;> simp only [] at hPW ⊢ <;> (try (simp only [Concl]; exact ⟨_, _, h1.2, MErr.mk1 hPW⟩))
      case enumV ty idx payload =>
        cases hsel : selectCase p s1 ty idx payload cases with
        | fail er =>
          simp only [hsel] at hPW ⊢
          simp only [Concl]; exact ⟨_, _, h1.2, MErr.mk1 hPW⟩
        | take binds body =>
          simp only [hsel] at hPW ⊢
          obtain ⟨⟨vn, d, hmem⟩, hPW⟩ := hPW
          have hbr := sim_match_body ih bk ck id u sc cases binds body s1 o1 hs1
            (lvCases_mem L cases vn d body (by omega) hmem) (wfCases_mem u cases vn d body hw.2 hmem)
            (exCases_mem bk ck cases vn d body hx.2 hmem) b cs K V
          have h2 := hbr.prepend (h1.2.trans (MS.one hPW))
          rw [← h1.1]
          exact h2
    all_goals (simp only []; exact h1.operand_nonval (by intro v; simp))
  case call id u recv args =>
    simp only [wfE, Bool.and_eq_true] at hw
    simp only [exE, Bool.and_eq_true] at hx
    simp only [lvE] at hl
    simp only [evalWith]
    have h1 := (ih false false recv σ out hσ (by omega) hw.1.2 hx.1 b cs ((.PN, .call id u recv args) :: K) V).prepend
      (MS.one (d_call_N p b K V σ id u recv args))
    generalize evalWith ap p n σ out recv = rr at h1 ⊢
    obtain ⟨s1, o1, oc1⟩ := rr
    cases oc1
    case val fv =>
      simp only []
      simp only [Concl, hw.1.1, pushIf, if_true] at h1
      have hs1 := ne_nil_of_len h1.1 hσ
      have h0 := h1.2.trans (MS.one (call_PN p b K (fv :: V) s1 id u recv args))
      have h2 := sim_rtl ih args s1 o1 hs1 (by omega) hw.2 hx.2 b cs ((.E, .call id u recv args) :: K) (fv :: V)
      generalize evalRtl (evalWith ap p n) args s1 o1 = ra at h2 ⊢
      obtain ⟨s2, o2, res⟩ := ra
      cases res with
      | ok vs =>
        simp only [ConclL] at h2
        simp only []
        have h3 := hap s2 o2 fv vs id u recv args b cs K V (ne_nil_of_len h2.2.1 hs1) h2.1
        have h4 := (h3.prepend (h0.trans h2.2.2)).weaken (bk := bk) (ck := ck)
        unfold Concl at h4 ⊢
        cases hr : (ap (evalWith ap p n) s2 o2 fv vs).outcome <;> simp only [hr] at h4 ⊢
        · exact ⟨by omega, h4.2⟩
        · exact ⟨h4.1, by omega, h4.2.2⟩
        · exact ⟨h4.1, by omega, h4.2.2⟩
        · exact h4
        · exact h4
      | error o =>
        simp only [ConclL] at h2
        simp only []
        exact (h2.2.prepend h0).operand_nonval h2.1
    all_goals (simp only []; exact h1.operand_nonval (by intro v; simp))
  case whileE => simp [Expr.isLoop] at hk
  case forE => simp [Expr.isLoop] at hk
  case brk id u => exact absurd rfl (hk.2.1 id u)
  case cont id u => exact absurd rfl (hk.2.2.1 id u)
  case ret id u x => exact absurd rfl (hk.2.2.2.1 id u x)
  case lambda id u ps body => exact absurd rfl (hk.2.2.2.2 id u ps body)


-- ==================================================================== (BS5.lean)

theorem lv0_kinds (e : Expr) (h : lvE e ≤ 0) :
    e.isLoop = false ∧ (∀ id u, e ≠ .brk id u) ∧ (∀ id u, e ≠ .cont id u) ∧ (∀ id u x, e ≠ .ret id u x) ∧
      (∀ id u ps b, e ≠ .lambda id u ps b) := by
  cases e
  case ret id u x => cases x <;> simp [lvE] at h <;> omega
  all_goals (simp [lvE, Expr.isLoop] at h ⊢ <;> (try omega))

theorem sim0 (ap : Ap) (p : Program) (hap : ∀ ev, ApHolds p ap ev) : ∀ n, IH p 0 (evalWith ap p n)
  | 0 => by
    intro bk ck e σ out hσ hl hw hx b cs K V
    simp [evalWith, Concl]
  | n + 1 => fun bk ck e σ out hσ hl hw hx =>
    sim_succ_a (hap _) (sim0 ap p hap n) bk ck e σ out hσ hl hw hx (lv0_kinds e hl)

/-- Toplevel expressions (all used): the values pile up on the value stack, the last one on top;
`return` at top level finishes the frame. -/
theorem sim_top {p : Program} {L : Nat} {ev : Ev} (ih : IH p L ev) (b : Frame) (cs : List Frame) :
    ∀ (es : List Expr) (last : Value) (σ : List Block) (out : String) (V : List Value),
      σ ≠ [] → lvB es ≤ L → wfAll es = true → exB false false es = true →
      match (evalSeq ev last es σ out).outcome with
      | .val v => ∃ V' B', MS p (F b (es.map (fun e => (St.N, e))) (last :: V) σ :: cs) out
                    (F b [] (v :: V') B' :: cs) (evalSeq ev last es σ out).out
      | .ret v => ∃ V' B', MS p (F b (es.map (fun e => (St.N, e))) (last :: V) σ :: cs) out
                    (F b [] (v :: V') B' :: cs) (evalSeq ev last es σ out).out
      | .err er => ∃ T g, MS p (F b (es.map (fun e => (St.N, e))) (last :: V) σ :: cs) out (g :: T)
                    (evalSeq ev last es σ out).out ∧ MErr p g er
      | .brk => False
      | .cont => False
      | _ => True
  | [], last, σ, out, V, _, _, _, _ => by
      simp only [evalSeq, List.map]
      exact ⟨V, σ, MS.refl _ _⟩
  | e :: rest, last, σ, out, V, hσ, hl, hw, hx => by
      have hl2 := lvB_cons e rest L hl
      simp only [wfAll, exB, Bool.and_eq_true] at hw hx
      have h := ih false false e σ out hσ hl2.1 hw.1.2 hx.1 b cs (rest.map (fun e => (St.N, e))) (last :: V)
      simp only [evalSeq, List.map]
      generalize ev σ out e = r1 at h ⊢
      obtain ⟨s1, o1, oc⟩ := r1
      cases oc
      case val v =>
        simp only [Concl, hw.1.1, pushIf, if_true] at h
        have h2 := sim_top ih b cs rest v s1 o1 (last :: V) (ne_nil_of_len h.1 hσ) hl2.2 hw.2 hx.2
        simp only []
        revert h2
        cases (evalSeq ev v rest s1 o1).outcome <;> simp only [] <;> intro h2
        all_goals first
          | exact h2
          | (obtain ⟨V', B', h3⟩ := h2; exact ⟨V', B', h.2.trans h3⟩)
          | (obtain ⟨T, g, h3, h4⟩ := h2; exact ⟨T, g, h.2.trans h3, h4⟩)
      case brk => simp only [Concl] at h; exact absurd h.1 (by simp)
      case cont => simp only [Concl] at h; exact absurd h.1 (by simp)
      case ret v => simp only [Concl] at h ⊢; exact h
      case err er => simp only [Concl] at h ⊢; exact h
      all_goals trivial

/-- From a program-level run of the reference interpreter to a run of `Machine.step`. -/
theorem refines_of_IH {p : Program} {L : Nat} {ev : Ev} (ih : IH p L ev)
    (hl : lvB p.toplevel ≤ L) (hw : wfAll p.toplevel = true) (hx : exB false false p.toplevel = true) :
    match runProgramWith ev p with
    | (out, .val v) => ∃ n s, runN n (Machine.init p [] none none) = .done s v ∧ s.out = out
    | (out, .err e) => ∃ n s, runN n (Machine.init p [] none none) = .error s e ∧ s.out = out
    | _ => True := by
  have hinit : Machine.init p [] none none =
      Q p [F (initFrame []) (p.toplevel.map (fun e => (St.N, e))) [vUnit] [[]]] 0 "" := rfl
  have h := sim_top ih (initFrame []) [] p.toplevel vUnit [[]] "" [] (by simp) hl hw hx
  rw [hinit]
  simp only [runProgramWith]
  revert h
  cases hr : (evalSeq ev vUnit p.toplevel [[]] "").outcome <;> simp only [] <;> intro h
  case val v =>
    obtain ⟨V', B', h1⟩ := h
    obtain ⟨n, t', hn⟩ := MS_sound h1 0
    exact finish_done p _ _ n _ v V' _ _ hn
  case ret v =>
    obtain ⟨V', B', h1⟩ := h
    obtain ⟨n, t', hn⟩ := MS_sound h1 0
    exact finish_done p _ _ n _ v V' _ _ hn
  case err er =>
    obtain ⟨T, g, h1, h2⟩ := h
    obtain ⟨n, t', hn⟩ := MS_sound h1 0
    obtain ⟨s', hs, ho⟩ := step_err p g T t' _ er h2
    exact ⟨n + 1, s', runN_last _ _ n _ hn hs (by intro x; simp), ho⟩
  all_goals trivial


-- ==================================================================== (BS6.lean)

-- ------------------------------------------------------------------ stage (b): loops and exits

/-- Errors, `return`, `unsupported`, out-of-fuel: the conclusion does not depend on the
continuation, nor on the scopes of the result. -/
theorem Concl.indep {p : Program} {bk ck bk' ck' : Bool} {A : List Frame} {b : Frame} {cs : List Frame}
    {K K' : List (St × Expr)} {V V' : List Value} {n n' : Nat} {out : String} {used used' : Bool} {r r' : Res}
    (h : Concl p bk ck A b cs K V n out used r) (ho : r'.out = r.out) (hc : r'.outcome = r.outcome)
    (hnv : ∀ v, r.outcome ≠ .val v) (hnb : r.outcome ≠ .brk) (hnc : r.outcome ≠ .cont) :
    Concl p bk' ck' A b cs K' V' n' out used' r' := by
  unfold Concl at h ⊢
  rw [hc, ho]
  cases hr : r.outcome <;> simp only [hr] at h ⊢
  · exact absurd hr (hnv _)
  · exact absurd hr hnb
  · exact absurd hr hnc
  · exact h
  · exact h

theorem d_brk_any (p : Program) (f : Frame) (id : Nat) (u : Bool) :
    dispatch p f .N (.brk id u) = dispatch p f .N (.brk 0 false) := by
  simp only [dispatch]

theorem d_cont_any (p : Program) (f : Frame) (id : Nat) (u : Bool) :
    dispatch p f .N (.cont id u) = dispatch p f .N (.cont 0 false) := by
  simp only [dispatch]

theorem sim_brk (p : Program) (bk ck : Bool) (id : Nat) (u : Bool) (σ : List Block) (out : String)
    (hx : exE bk ck (.brk id u) = true) : Holds p bk ck (.brk id u) σ out ⟨σ, out, .brk⟩ := by
  intro b cs K V
  simp only [exE] at hx
  simp only [Concl]
  refine ⟨hx, trivial, fun G hG => MS.one ?_⟩
  rw [d_brk_any]; exact hG

theorem sim_cont (p : Program) (bk ck : Bool) (id : Nat) (u : Bool) (σ : List Block) (out : String)
    (hx : exE bk ck (.cont id u) = true) : Holds p bk ck (.cont id u) σ out ⟨σ, out, .cont⟩ := by
  intro b cs K V
  simp only [exE] at hx
  simp only [Concl]
  refine ⟨hx, trivial, fun G hG => MS.one ?_⟩
  rw [d_cont_any]; exact hG

theorem d_while_N (p : Program) (b : Frame) (K : List (St × Expr)) (V : List Value) (σ : List Block) (id : Nat) (u : Bool)
    (c : Expr) (body : List Expr) :
    dispatch p (F b K V σ) .N (.whileE id u c body) =
      .ok (F b ((.N, c) :: (.PW, .whileE id u c body) :: K) V σ) := by
  simp [dispatch, Frame.pushE, F]

theorem while_PW (p : Program) (b : Frame) (K : List (St × Expr)) (V : List Value) (σ : List Block) (id : Nat) (u : Bool)
    (c : Expr) (body : List Expr) (cv : Value) :
    match cv.asBool with
    | none => ∃ f' st' vals, dispatch p (F b K (cv :: V) σ) .PW (.whileE id u c body) =
        .err f' st' vals (.typeError "Bool")
    | some true => dispatch p (F b K (cv :: V) σ) .PW (.whileE id u c body) =
        .ok (F b (body.map (fun e => (St.N, e)) ++ (.PD, .whileE id u c body) :: K) V ([] :: σ))
    | some false => dispatch p (F b K (cv :: V) σ) .PW (.whileE id u c body) =
        .ok (F b ((.E, .whileE id u c body) :: K) (pushIf u vUnit V) σ) := by
  have hF : ∀ V', ({ F b K (cv :: V) σ with values := V' } : Frame) = F b K V' σ := fun _ => rfl
  have hP : ∀ V' st, (F b K V' σ).pushE st (.whileE id u c body) = F b ((st, .whileE id u c body) :: K) V' σ :=
    fun _ _ => rfl
  cases h : cv.asBool with
  | none => simp only [dispatch, F_values, hF, h]; exact ⟨_, _, _, rfl⟩
  | some bv =>
    cases bv
    · simp only [dispatch, F_values, hF, h, hP, F_pushVIf, Expr.used]
    · simp only [dispatch, F_values, hF, h, hP, evalBlock_F0]
      simp [pushIf]

theorem while_PD (p : Program) (b : Frame) (K : List (St × Expr)) (V : List Value) (x y : Block) (B : List Block)
    (id : Nat) (u : Bool) (c : Expr) (body : List Expr) :
    dispatch p (F b K V (x :: y :: B)) .PD (.whileE id u c body) =
      .ok (F b ((.N, c) :: (.PW, .whileE id u c body) :: K) V (y :: B)) := by
  simp only [dispatch, popBlock_F]; rfl

theorem while_E (p : Program) (b : Frame) (K : List (St × Expr)) (V : List Value) (σ : List Block)
    (id : Nat) (u : Bool) (c : Expr) (body : List Expr) :
    dispatch p (F b K V σ) .E (.whileE id u c body) = .ok (F b K V σ) := by
  simp [dispatch]

theorem while_brk (p : Program) (b : Frame) (K : List (St × Expr)) (V : List Value) (x y : Block) (B : List Block)
    (id : Nat) (u : Bool) (c : Expr) (body : List Expr) :
    dispatch p (F b ((.PD, .whileE id u c body) :: K) V (x :: y :: B)) .N (.brk 0 false) =
      .ok (F b ((.E, .whileE id u c body) :: K) (pushIf u vUnit V) (y :: B)) := by
  simp [dispatch, F_exprs, F_values, F_blocks, evalBreakLoop, popBlocks1, Expr.isLoop, Expr.used, F, Frame.pushVIf,
    Frame.pushV, pushIf]
  cases u <;> rfl

theorem while_cont (p : Program) (b : Frame) (K : List (St × Expr)) (V : List Value) (B : List Block)
    (id : Nat) (u : Bool) (c : Expr) (body : List Expr) :
    dispatch p (F b ((.PD, .whileE id u c body) :: K) V B) .N (.cont 0 false) =
      .ok (F b ((.PD, .whileE id u c body) :: K) V B) := by
  simp [dispatch, F_exprs, F_values, F_blocks, evalContinueLoop, Expr.isLoop, F]

/-- The `while` loop from the state after its `N` step (condition about to be evaluated). -/
def HW (p : Program) (L : Nat) (ev : Ev) : Prop :=
  ∀ (bk ck : Bool) (id : Nat) (u : Bool) (c : Expr) (body : List Expr) (σ : List Block) (out : String),
    σ ≠ [] → lvE (.whileE id u c body) ≤ L → wfE (.whileE id u c body) = true →
    exE bk ck (.whileE id u c body) = true →
    ∀ (b : Frame) (cs : List Frame) (K : List (St × Expr)) (V : List Value),
      Concl p bk ck (F b ((.N, c) :: (.PW, .whileE id u c body) :: K) V σ :: cs) b cs K V σ.length out u
        (ev σ out (.whileE id u c body))

theorem Concl.cast_n {p : Program} {bk ck : Bool} {A : List Frame} {b : Frame} {cs : List Frame}
    {K : List (St × Expr)} {V : List Value} {n n' : Nat} {out : String} {used : Bool} {r : Res}
    (h : Concl p bk ck A b cs K V n out used r) (hn : n = n') : Concl p bk ck A b cs K V n' out used r := hn ▸ h

theorem while_step {ap : Ap} {p : Program} {L n : Nat} (ih : IH p L (evalWith ap p n))
    (hw : HW p L (evalWith ap p n)) : HW p L (evalWith ap p (n + 1)) := by
  intro bk ck id u c body σ out hσ hl hwf hx b cs K V
  have hl0 := hl
  have hwf0 := hwf
  have hx0 := hx
  simp only [lvE] at hl
  simp only [wfE, Bool.and_eq_true] at hwf
  simp only [exE, Bool.and_eq_true] at hx
  simp only [evalWith]
  have h1 := ih false false c σ out hσ (by omega) hwf.1.2 hx.1 b cs ((.PW, .whileE id u c body) :: K) V
  generalize evalWith ap p n σ out c = rc at h1 ⊢
  obtain ⟨s1, o1, oc1⟩ := rc
  cases oc1
  case val cv =>
    simp only []
    simp only [Concl, hwf.1.1, pushIf, if_true] at h1
    have hs1 := ne_nil_of_len h1.1 hσ
    have hn1 : 1 ≤ s1.length := by
      cases s1 with
      | nil => exact absurd rfl hs1
      | cons _ _ => simp
    have hPW := while_PW p b K V s1 id u c body cv
    cases hb : cv.asBool with
    | none =>
      simp only [hb] at hPW ⊢
      simp only [Concl]; exact ⟨_, _, h1.2, MErr.mk1 hPW⟩
    | some bv =>
      cases bv
      · simp only [hb] at hPW ⊢
        simp only [Concl]
        exact ⟨h1.1, h1.2.trans ((MS.one hPW).trans (MS.one (while_E p b K _ s1 id u c body)))⟩
      · simp only [hb] at hPW ⊢
        have hseq := sim_seq ih false true true body vUnit ([] :: s1) o1 (by simp) (by omega) hwf.2 hx.2 b cs
          ((.PD, .whileE id u c body) :: K) V
        have h2 := hseq.prepend (h1.2.trans (MS.one hPW))
        simp only [runBlock, declareAll, List.foldl]
        generalize evalSeq (evalWith ap p n) vUnit body ([] :: s1) o1 = rs at h2 ⊢
        obtain ⟨s2, o2, oc2⟩ := rs
        cases oc2
        case val v =>
          simp only []
          simp only [Concl, Bool.false_and, pushIf, Bool.false_eq_true, if_false] at h2
          obtain ⟨x, y, B, hs, hlen⟩ := two_of_len s2 s1.length (by simpa using h2.1) hn1
          subst hs
          simp only [List.drop_succ_cons, List.drop_zero]
          have h3 := hw bk ck id u c body (y :: B) o2 (by simp) hl0 hwf0 hx0 b cs K V
          exact (h3.prepend (h2.2.trans (MS.one (while_PD p b K V x y B id u c body)))).cast_n (by omega)
        case cont =>
          simp only []
          simp only [Concl] at h2
          obtain ⟨x, y, B, hs, hlen⟩ := two_of_len s2 s1.length (by simpa using h2.2.1) hn1
          subst hs
          simp only [List.drop_succ_cons, List.drop_zero]
          have h3 := hw bk ck id u c body (y :: B) o2 (by simp) hl0 hwf0 hx0 b cs K V
          have hG := h2.2.2 _ (while_cont p b K V (x :: y :: B) id u c body)
          exact (h3.prepend (hG.trans (MS.one (while_PD p b K V x y B id u c body)))).cast_n (by omega)
        case brk =>
          simp only []
          simp only [Concl] at h2 ⊢
          obtain ⟨x, y, B, hs, hlen⟩ := two_of_len s2 s1.length (by simpa using h2.2.1) hn1
          subst hs
          simp only [List.drop_succ_cons, List.drop_zero]
          have hG := h2.2.2 _ (while_brk p b K V x y B id u c body)
          exact ⟨by omega, hG.trans (MS.one (while_E p b K _ (y :: B) id u c body))⟩
        all_goals (
          simp only []
          exact h2.indep rfl rfl (by intro v; simp) (by simp) (by simp))
  all_goals (simp only []; exact h1.operand_nonval (by intro v; simp))

-- ------------------------------------------------------------------ for

theorem i64_succ (i : Int64) (k : Nat) (h : i.toInt = k) (hk : k + 1 < 9223372036854775808) :
    (i + 1).toInt = (k + 1 : Nat) := by
  rw [Int64.toInt_add, h, Int64.toInt_one]
  rw [Int.bmod_eq_of_le] <;> omega

theorem bindDest_spec (dest : Dest) (v : Value) (σ : List Block) :
    match destructure dest v (.typeError "Tuple") with
    | .ok binds => ∃ bs, bindDest dest v = .ok bs ∧
        bs.foldl (fun s kv => addNew s kv.1 kv.2) σ = declareAll σ binds
    | .error er => bindDest dest v = .error er := by
  cases dest with
  | sym n =>
    simp only [destructure, bindDest, declareAll]
    by_cases hn : n = "_"
    · simp [hn, addNew]
    · simp [hn]
  | destr names =>
    cases v <;> simp only [destructure, bindDest]
    case tuple items =>
      by_cases hl : items.length = names.length
      · simp [hl, declareAll, foldl_addNew_filter]
      · simp [hl]

theorem d_for_N (p : Program) (b : Frame) (K : List (St × Expr)) (V : List Value) (σ : List Block) (id : Nat) (u : Bool)
    (dest : Dest) (it : Expr) (body : List Expr) :
    dispatch p (F b K V σ) .N (.forE id u dest it body) =
      .ok (F b ((.N, it) :: (.PW, .forE id u dest it body) :: K) (.int 0 :: V) σ) := by
  simp [dispatch, Frame.pushE, Frame.pushV, F]

theorem for_PW_nonlist (p : Program) (b : Frame) (K : List (St × Expr)) (V : List Value) (σ : List Block) (id : Nat)
    (u : Bool) (dest : Dest) (it : Expr) (body : List Expr) (iv : Value) (idx : Int64)
    (h : ∀ items, iv ≠ .list items) :
    ∃ f' st' vals, dispatch p (F b K (iv :: .int idx :: V) σ) .PW (.forE id u dest it body) =
      .err f' st' vals (.typeError "List") := by
  cases iv <;> simp only [dispatch, F_values] <;> (try exact ⟨_, _, _, rfl⟩)
  case list items => exact absurd rfl (h items)

theorem for_PW_done (p : Program) (b : Frame) (K : List (St × Expr)) (V : List Value) (σ : List Block) (id : Nat)
    (u : Bool) (dest : Dest) (it : Expr) (body : List Expr) (items : List Value) (idx : Int64)
    (h : idx.toInt = (items.length : Nat)) :
    dispatch p (F b K (.list items :: .int idx :: V) σ) .PW (.forE id u dest it body) =
      .ok (F b ((.E, .forE id u dest it body) :: K) (pushIf u vUnit V) ([] :: σ)) := by
  have hc : (idx.toInt.toNat ≥ items.length ∨ idx.toInt < 0) := by left; rw [h]; simp
  simp only [dispatch, F_values, hc, if_true, Expr.used]
  simp [F, Frame.pushE, Frame.pushVIf, Frame.pushV, pushIf]
  cases u <;> rfl

theorem for_PW_item (p : Program) (b : Frame) (K : List (St × Expr)) (V : List Value) (σ : List Block) (id : Nat)
    (u : Bool) (dest : Dest) (it : Expr) (body : List Expr) (items : List Value) (idx : Int64) (k : Nat) (x : Value)
    (h : idx.toInt = (k : Nat)) (hx : items[k]? = some x) :
    match destructure dest x (.typeError "Tuple") with
    | .ok binds => dispatch p (F b K (.list items :: .int idx :: V) σ) .PW (.forE id u dest it body) =
        .ok (F b (body.map (fun e => (St.N, e)) ++ (.PD, .forE id u dest it body) :: K)
          (.list items :: .int (idx + 1) :: V) (declareAll ([] :: σ) binds))
    | .error er => ∃ f' st' vals,
        dispatch p (F b K (.list items :: .int idx :: V) σ) .PW (.forE id u dest it body) = .err f' st' vals er := by
  have hk : k < items.length := by
    rcases Nat.lt_or_ge k items.length with h1 | h1
    · exact h1
    · rw [List.getElem?_eq_none h1] at hx; cases hx
  have hc : ¬ (idx.toInt.toNat ≥ items.length ∨ idx.toInt < 0) := by
    rw [h]; simp; omega
  have hn : idx.toInt.toNat = k := by rw [h]; simp
  have hc' : ¬ (k ≥ items.length ∨ idx.toInt < 0) := by rw [h]; simp; omega
  have hF : ∀ V', ({ F b K (.list items :: .int idx :: V) σ with values := V' } : Frame) = F b K V' σ := fun _ => rfl
  have hb := bindDest_spec dest x ([] :: σ)
  cases hd : destructure dest x (.typeError "Tuple") with
  | error er =>
    simp only [hd] at hb
    simp only [dispatch, F_values, hc, hc', if_false, hn, hx, hb]
    exact ⟨_, _, _, rfl⟩
  | ok binds =>
    simp only [hd] at hb
    obtain ⟨bs, hb1, hb2⟩ := hb
    simp only [dispatch, F_values, hc, hc', if_false, hn, hx, hb1, hF]
    have : ((((F b K V σ).pushE .PD (.forE id u dest it body)).pushV (.int (idx + 1))).pushV (.list items)) =
        F b ((.PD, .forE id u dest it body) :: K) (.list items :: .int (idx + 1) :: V) σ := rfl
    rw [this, evalBlock_F]
    simp only [declareAll] at hb2 ⊢
    rw [hb2]
    simp [pushIf]

theorem for_PD (p : Program) (b : Frame) (K : List (St × Expr)) (V : List Value) (x y : Block) (B : List Block)
    (id : Nat) (u : Bool) (dest : Dest) (it : Expr) (body : List Expr) :
    dispatch p (F b K V (x :: y :: B)) .PD (.forE id u dest it body) =
      .ok (F b ((.PW, .forE id u dest it body) :: K) V (y :: B)) := by
  simp only [dispatch, popBlock_F]; rfl

theorem for_E (p : Program) (b : Frame) (K : List (St × Expr)) (V : List Value) (x y : Block) (B : List Block)
    (id : Nat) (u : Bool) (dest : Dest) (it : Expr) (body : List Expr) :
    dispatch p (F b K V (x :: y :: B)) .E (.forE id u dest it body) = .ok (F b K V (y :: B)) := by
  simp only [dispatch, popBlock_F]

theorem for_brk (p : Program) (b : Frame) (K : List (St × Expr)) (V : List Value) (v1 v2 : Value) (B : List Block)
    (id : Nat) (u : Bool) (dest : Dest) (it : Expr) (body : List Expr) :
    dispatch p (F b ((.PD, .forE id u dest it body) :: K) (v1 :: v2 :: V) B) .N (.brk 0 false) =
      .ok (F b ((.E, .forE id u dest it body) :: K) (pushIf u vUnit V) B) := by
  simp [dispatch, F_exprs, F_values, F_blocks, evalBreakLoop, Expr.isLoop, Expr.used, F, Frame.pushVIf,
    Frame.pushV, pushIf]
  cases u <;> rfl

theorem for_cont (p : Program) (b : Frame) (K : List (St × Expr)) (V : List Value) (B : List Block)
    (id : Nat) (u : Bool) (dest : Dest) (it : Expr) (body : List Expr) :
    dispatch p (F b ((.PD, .forE id u dest it body) :: K) V B) .N (.cont 0 false) =
      .ok (F b ((.PD, .forE id u dest it body) :: K) V B) := by
  simp [dispatch, F_exprs, F_values, F_blocks, evalContinueLoop, Expr.isLoop, F]

/-- The `for` loop from its `PW` state: iterated list and index on the value stack, `xs` still
to be visited. -/
theorem for_loop {p : Program} {L : Nat} {ev : Ev} (ih : IH p L ev) (bk ck : Bool)
    (id : Nat) (u : Bool) (dest : Dest) (it : Expr) (body : List Expr)
    (hl : lvB body ≤ L) (hwb : wfB false body = true) (hxb : exB true true body = true)
    (items : List Value) (hlen : items.length < 9223372036854775808) :
    ∀ (xs pre : List Value) (idx : Int64) (σ : List Block) (out : String),
      items = pre ++ xs → idx.toInt = (pre.length : Nat) → σ ≠ [] →
      ∀ (b : Frame) (cs : List Frame) (K : List (St × Expr)) (V : List Value),
      Concl p bk ck (F b ((.PW, .forE id u dest it body) :: K) (.list items :: .int idx :: V) σ :: cs) b cs K V
        σ.length out u (forLoop ev dest body xs σ out)
  | [], pre, idx, σ, out, hit, hidx, hσ, b, cs, K, V => by
      have hpl : pre.length = items.length := by rw [hit]; simp
      rw [hpl] at hidx
      simp only [forLoop, Concl]
      match σ, hσ with
      | y :: B, _ =>
        exact ⟨trivial, (MS.one (for_PW_done p b K V (y :: B) id u dest it body items idx hidx)).trans
          (MS.one (for_E p b K _ [] y B id u dest it body))⟩
  | x :: xs, pre, idx, σ, out, hit, hidx, hσ, b, cs, K, V => by
      have hx : items[pre.length]? = some x := by rw [hit]; simp
      have hk : pre.length < items.length := by rw [hit]; simp
      have hPW := for_PW_item p b K V σ id u dest it body items idx pre.length x hidx hx
      simp only [forLoop]
      cases hd : destructure dest x (.typeError "Tuple") with
      | error er =>
        simp only [hd] at hPW ⊢
        simp only [Concl]; exact ⟨_, _, MS.refl _ _, MErr.mk1 hPW⟩
      | ok binds =>
        simp only [hd] at hPW ⊢
        have hdl : (declareAll ([] :: σ) binds).length = σ.length + 1 := by simp [declareAll_length]
        have hne : declareAll ([] :: σ) binds ≠ [] := by
          intro h; rw [h] at hdl; simp at hdl
        have hn1 : 1 ≤ σ.length := by
          cases σ with
          | nil => exact absurd rfl hσ
          | cons _ _ => simp
        have hseq := sim_seq ih false true true body vUnit (declareAll ([] :: σ) binds) out hne hl hwb hxb b cs
          ((.PD, .forE id u dest it body) :: K) (.list items :: .int (idx + 1) :: V)
        rw [hdl] at hseq
        have h2 := hseq.prepend (MS.one hPW)
        have hnext : ∀ (y : Block) (B : List Block) (o2 : String), (y :: B).length = σ.length →
            Concl p bk ck (F b ((.PW, .forE id u dest it body) :: K) (.list items :: .int (idx + 1) :: V) (y :: B) :: cs)
              b cs K V σ.length o2 u (forLoop ev dest body xs (y :: B) o2) := by
          intro y B o2 hyl
          have := for_loop ih bk ck id u dest it body hl hwb hxb items hlen xs (pre ++ [x]) (idx + 1) (y :: B) o2
            (by rw [hit]; simp) (by simpa using i64_succ idx pre.length hidx (by omega)) (by simp) b cs K V
          exact this.cast_n hyl
        simp only [runBlock]
        generalize evalSeq ev vUnit body (declareAll ([] :: σ) binds) out = rs at h2 ⊢
        obtain ⟨s2, o2, oc2⟩ := rs
        cases oc2
        case val v =>
          simp only []
          simp only [Concl, Bool.false_and, pushIf, Bool.false_eq_true, if_false] at h2
          obtain ⟨x', y, B, hs, hlen2⟩ := two_of_len s2 σ.length h2.1 hn1
          subst hs
          simp only [List.drop_succ_cons, List.drop_zero]
          exact (hnext y B o2 hlen2).prepend (h2.2.trans (MS.one (for_PD p b K _ x' y B id u dest it body)))
        case cont =>
          simp only []
          simp only [Concl] at h2
          obtain ⟨x', y, B, hs, hlen2⟩ := two_of_len s2 σ.length h2.2.1 hn1
          subst hs
          simp only [List.drop_succ_cons, List.drop_zero]
          have hG := h2.2.2 _ (for_cont p b K _ (x' :: y :: B) id u dest it body)
          exact (hnext y B o2 hlen2).prepend (hG.trans (MS.one (for_PD p b K _ x' y B id u dest it body)))
        case brk =>
          simp only []
          simp only [Concl] at h2 ⊢
          obtain ⟨x', y, B, hs, hlen2⟩ := two_of_len s2 σ.length h2.2.1 hn1
          subst hs
          simp only [List.drop_succ_cons, List.drop_zero]
          have hG := h2.2.2 _ (for_brk p b K V _ _ (x' :: y :: B) id u dest it body)
          exact ⟨hlen2, hG.trans (MS.one (for_E p b K _ x' y B id u dest it body))⟩
        all_goals (
          simp only []
          exact h2.indep rfl rfl (by intro v; simp) (by simp) (by simp))

/-- One more unit of fuel, stage (b) node kinds (`while` through `HW`). -/
theorem sim_succ_b {ap : Ap} {p : Program} {L n : Nat}
    (ih : IH p L (evalWith ap p n)) (hw1 : HW p L (evalWith ap p (n + 1)))
    (bk ck : Bool) (e : Expr) (σ : List Block) (out : String) (hσ : σ ≠ []) (hl : lvE e ≤ L)
    (hw : wfE e = true) (hx : exE bk ck e = true)
    (hk : e.isLoop = true ∨ (∃ id u, e = .brk id u) ∨ (∃ id u, e = .cont id u)) :
    Holds p bk ck e σ out (evalWith ap p (n + 1) σ out e) := by
  rcases hk with hk | ⟨id, u, rfl⟩ | ⟨id, u, rfl⟩
  · cases e <;> simp [Expr.isLoop] at hk
    case whileE id u c body =>
      intro b cs K V
      exact (hw1 bk ck id u c body σ out hσ hl hw hx b cs K V).prepend (MS.one (d_while_N p b K V σ id u c body))
    case forE id u dest it body =>
      intro b cs K V
      simp only [lvE] at hl
      simp only [wfE, Bool.and_eq_true] at hw
      simp only [exE, Bool.and_eq_true] at hx
      simp only [evalWith]
      have h1 := (ih false false it σ out hσ (by omega) hw.1.2 hx.1 b cs ((.PW, .forE id u dest it body) :: K)
        (.int 0 :: V)).prepend (MS.one (d_for_N p b K V σ id u dest it body))
      generalize evalWith ap p n σ out it = ri at h1 ⊢
      obtain ⟨s1, o1, oc1⟩ := ri
      cases oc1
      case val iv =>
        simp only [Concl, hw.1.1, pushIf, if_true] at h1
        have hs1 := ne_nil_of_len h1.1 hσ
        cases iv <;> simp only [] <;>
          (try (simp only [Concl]
                exact ⟨_, _, h1.2, MErr.mk1 (for_PW_nonlist p b K V s1 id u dest it body _ 0 (by intro items; simp))⟩))
        case list items =>
          by_cases hlen : items.length < 9223372036854775808
          · simp only [hlen, if_true]
            have h2 := for_loop ih bk ck id u dest it body (by omega) hw.2 hx.2 items hlen items [] 0 s1 o1
              (by simp) (by simp) hs1 b cs K V
            exact (h2.prepend h1.2).cast_n h1.1
          · simp only [hlen, if_false]; simp [Concl]
      all_goals (simp only []; exact h1.operand_nonval (by intro v; simp))
  · simp only [evalWith]; exact sim_brk p bk ck id u σ out hx
  · simp only [evalWith]; exact sim_cont p bk ck id u σ out hx


-- ==================================================================== (BS7.lean)

theorem kind_split (e : Expr) :
    (e.isLoop = true ∨ (∃ id u, e = .brk id u) ∨ (∃ id u, e = .cont id u)) ∨
    ((∃ id u x, e = .ret id u x) ∨ (∃ id u ps b, e = .lambda id u ps b)) ∨
    (e.isLoop = false ∧ (∀ id u, e ≠ .brk id u) ∧ (∀ id u, e ≠ .cont id u) ∧ (∀ id u x, e ≠ .ret id u x) ∧
      (∀ id u ps b, e ≠ .lambda id u ps b)) := by
  cases e <;> simp [Expr.isLoop]

theorem lv1_not_c (e : Expr) (h : lvE e ≤ 1) :
    ¬ ((∃ id u x, e = .ret id u x) ∨ (∃ id u ps b, e = .lambda id u ps b)) := by
  rintro (⟨id, u, x, rfl⟩ | ⟨id, u, ps, b, rfl⟩)
  · cases x <;> simp [lvE] at h <;> omega
  · simp [lvE] at h; omega

theorem IH_zero (ap : Ap) (p : Program) (L : Nat) : IH p L (evalWith ap p 0) := by
  intro bk ck e σ out hσ hl hw hx b cs K V
  simp [evalWith, Concl]

theorem HW_zero (ap : Ap) (p : Program) (L : Nat) : HW p L (evalWith ap p 0) := by
  intro bk ck id u c body σ out hσ hl hw hx b cs K V
  simp [evalWith, Concl]

/-- Stages (a) + (b): the simulation for every fuel. -/
theorem sim1 (ap : Ap) (p : Program) (hap : ∀ ev, ApHolds p ap ev) :
    ∀ n, IH p 1 (evalWith ap p n) ∧ HW p 1 (evalWith ap p n)
  | 0 => ⟨IH_zero ap p 1, HW_zero ap p 1⟩
  | n + 1 => by
    obtain ⟨ih, hw⟩ := sim1 ap p hap n
    have hw1 := while_step ih hw
    refine ⟨?_, hw1⟩
    intro bk ck e σ out hσ hl hwf hx
    rcases kind_split e with hk | hk | hk
    · exact sim_succ_b ih hw1 bk ck e σ out hσ hl hwf hx hk
    · exact absurd hk (lv1_not_c e hl)
    · exact sim_succ_a (hap _) ih bk ck e σ out hσ hl hwf hx hk


-- ==================================================================== (BS8.lean)

-- ------------------------------------------------------------------ stage (c): return, closures, frames

theorem d_ret_none (p : Program) (b : Frame) (K : List (St × Expr)) (V : List Value) (σ : List Block) (id : Nat)
    (u : Bool) : dispatch p (F b K V σ) .N (.ret id u none) = .ok (F b ((.E, .ret id u none) :: K) (vUnit :: V) σ) := by
  simp [dispatch, Frame.pushE, Frame.pushV, F]

theorem d_ret_some (p : Program) (b : Frame) (K : List (St × Expr)) (V : List Value) (σ : List Block) (id : Nat)
    (u : Bool) (x : Expr) :
    dispatch p (F b K V σ) .N (.ret id u (some x)) = .ok (F b ((.N, x) :: (.E, .ret id u (some x)) :: K) V σ) := by
  simp [dispatch, Frame.pushE, F]

theorem ret_E (p : Program) (b : Frame) (K : List (St × Expr)) (V : List Value) (σ : List Block) (id : Nat)
    (u : Bool) (x : Option Expr) : dispatch p (F b K V σ) .E (.ret id u x) = .ok (F b [] V σ) := by
  simp [dispatch, F]

theorem d_lambda (p : Program) (b : Frame) (K : List (St × Expr)) (V : List Value) (σ : List Block) (id : Nat)
    (u : Bool) (ps : List String) (body : List Expr) :
    dispatch p (F b K V σ) .N (.lambda id u ps body) = .ok (F b K (pushIf u (.closure σ ps body) V) σ) := by
  simp [dispatch, F_pushVIf, Expr.used, F_blocks]

/-- One more unit of fuel, stage (c) node kinds. -/
theorem sim_succ_c {ap : Ap} {p : Program} {L n : Nat} (ih : IH p L (evalWith ap p n))
    (bk ck : Bool) (e : Expr) (σ : List Block) (out : String) (hσ : σ ≠ []) (hl : lvE e ≤ L)
    (hw : wfE e = true) (hx : exE bk ck e = true)
    (hk : (∃ id u x, e = .ret id u x) ∨ (∃ id u ps b, e = .lambda id u ps b)) :
    Holds p bk ck e σ out (evalWith ap p (n + 1) σ out e) := by
  intro b cs K V
  rcases hk with ⟨id, u, x, rfl⟩ | ⟨id, u, ps, body, rfl⟩
  · cases x with
    | none =>
      simp only [evalWith, Concl]
      exact ⟨V, σ, (MS.one (d_ret_none p b K V σ id u)).trans (MS.one (ret_E p b K _ σ id u none))⟩
    | some x =>
      simp only [wfE, Bool.and_eq_true] at hw
      simp only [exE] at hx
      simp only [lvE] at hl
      simp only [evalWith]
      have h1 := (ih false false x σ out hσ (by omega) hw.2 hx b cs ((.E, .ret id u (some x)) :: K) V).prepend
        (MS.one (d_ret_some p b K V σ id u x))
      generalize evalWith ap p n σ out x = r1 at h1 ⊢
      obtain ⟨s1, o1, oc1⟩ := r1
      cases oc1
      case val v =>
        simp only [Concl, hw.1, pushIf, if_true] at h1 ⊢
        exact ⟨V, s1, h1.2.trans (MS.one (ret_E p b K _ s1 id u (some x)))⟩
      all_goals (simp only []; exact h1.operand_nonval (by intro v; simp))
  · simp only [evalWith]
    exact Concl_val1 (d_lambda p b K V σ id u ps body)

/-- A function body run in its own frame (callee on top of the caller, which waits with `K`, `V`):
falling off the end and `return` both hand the value to the caller iff the call's value is used. -/
theorem sim_fun_body {p : Program} {L : Nat} {ev : Ev} (ih : IH p L ev) (hL : 2 ≤ L)
    (body : List Expr) (hok : bodyOK body = true) (scopes : List Block) (hsc : scopes ≠ [])
    (cb b : Frame) (cs : List Frame) (K : List (St × Expr)) (V : List Value) (σ : List Block) (out : String) :
    Concl p false false (F cb (body.map (fun e => (St.N, e))) [vUnit] scopes :: F b K V σ :: cs) b cs K V σ.length
      out cb.callerUses (runBody ev scopes body σ out) := by
  simp only [bodyOK, Bool.and_eq_true, decide_eq_true_eq] at hok
  have hseq := sim_seq ih true false false body vUnit scopes out hsc (by omega) hok.1.1 hok.1.2 cb
    (F b K V σ :: cs) [] [vUnit]
  simp only [List.append_nil, Bool.true_and] at hseq
  simp only [runBody]
  generalize hrs : evalSeq ev vUnit body scopes out = rs at hseq ⊢
  obtain ⟨s2, o2, oc2⟩ := rs
  have hret : ∀ (v : Value) (V' : List Value) (B' : List Block),
      MS p (F cb [] (v :: V') B' :: F b K V σ :: cs) o2 (F b K (pushIf cb.callerUses v V) σ :: cs) o2 := by
    intro v V' B'
    refine MS.ret (f := F cb [] (v :: V') B') (caller := F b K V σ) rfl rfl ?_
    have : (if (F cb [] (v :: V') B').callerUses = true then (F b K V σ).pushV v else F b K V σ) =
        F b K (pushIf cb.callerUses v V) σ := by
      show (if cb.callerUses = true then _ else _) = _
      cases cb.callerUses <;> rfl
    rw [this]; exact MS.refl _ _
  cases oc2
  case val v =>
    simp only [Concl] at hseq ⊢
    refine ⟨trivial, ?_⟩
    cases body with
    | nil =>
      simp [evalSeq] at hrs
      obtain ⟨h1, h2, h3⟩ := hrs
      subst h3
      simp only [List.isEmpty_nil, Bool.not_true, pushIf, Bool.false_eq_true, if_false] at hseq
      exact hseq.2.trans (hret _ _ _)
    | cons x xs =>
      simp only [List.isEmpty_cons, Bool.not_false, pushIf, if_true] at hseq
      exact hseq.2.trans (hret _ _ _)
  case ret v =>
    simp only [Concl] at hseq ⊢
    obtain ⟨V', B', h1⟩ := hseq
    exact ⟨trivial, h1.trans (hret _ _ _)⟩
  case err er => simp only [Concl] at hseq ⊢; exact hseq
  case brk => simp only [Concl] at hseq; exact absurd hseq.1 (by simp)
  case cont => simp only [Concl] at hseq; exact absurd hseq.1 (by simp)
  all_goals simp [Concl]

theorem MS.call1 {p : Program} {b : Frame} {cs : List Frame} {st : St} {e : Expr} {K : List (St × Expr)}
    {V : List Value} {σ : List Block} {f' callee : Frame} {out : String}
    (hd : dispatch p (F b K V σ) st e = .newFrame f' callee) :
    MS p (F b ((st, e) :: K) V σ :: cs) out (callee :: f' :: cs) out :=
  MS.call (f := F b ((st, e) :: K) V σ) (rest := K) rfl hd (MS.refl _ _)

/-- The base (caller-related fields) of a callee frame. -/
def calleeBase (u : Bool) (kind : FrameKind) (id : Nat) : Frame :=
  { exprs := [], values := [], blocks := [], nextBlock := [], callerUses := u, kind := kind, callerId := some id }

theorem mem_of_find {α : Type} (l : List α) (f : α → Bool) (d : α) (h : l.find? f = some d) : d ∈ l := by
  induction l with
  | nil => simp at h
  | cons x xs ih =>
    simp only [List.find?] at h
    split at h
    · cases h; simp
    · exact List.mem_cons_of_mem _ (ih h)

/-- Applying function values (`applyChecked`): closures and named functions run their body in a
new frame; built-ins and constructors as in stage (a). -/
theorem apHolds_checked {p : Program} {L : Nat} {ev : Ev} (ih : IH p L ev) (hL : 2 ≤ L)
    (hfuns : ∀ d ∈ p.funs, bodyOK d.body = true) : ApHolds p (applyChecked p) ev := by
  intro σ out fv vs id u recv args b cs K V hσ hl
  have hE := call_E_eq p b K V σ id u recv args fv vs hl
  have hp : popN vs.length (vs ++ fv :: V) = some (vs, fv :: V) := popN_append vs (fv :: V)
  have hFv : ∀ V', ({ F b K (vs ++ fv :: V) σ with values := V' } : Frame) = F b K V' σ := fun _ => rfl
  have hb := apHolds_builtin p ev σ out fv vs id u recv args b cs K V hσ hl
  cases fv
  case closure env params body =>
    simp only [applyChecked]
    by_cases hok : bodyOK body = true
    · simp only [hok, if_true, BigStep.apply]
      by_cases hpl : params.length = vs.length
      · have hne : (params.length != vs.length) = false := by simp [hpl]
        simp only [hne, Bool.false_eq_true, if_false]
        have hd : dispatch p (F b K (vs ++ Value.closure env params body :: V) σ) .E (.call id u recv args) =
            .newFrame (F b K V σ) (F (calleeBase u .closure id) (body.map (fun e => (St.N, e))) [vUnit]
              (paramScope params vs :: env)) := by
          rw [hE]; simp only [evalCall, hp, hFv, F_values, hne, Bool.false_eq_true, if_false]; rfl
        exact (sim_fun_body ih hL body hok _ (by simp) (calleeBase u .closure id) b cs K V σ out).prepend
          (MS.call1 hd)
      · have hne : (params.length != vs.length) = true := by simp [hpl]
        simp only [hne, if_true]
        refine Concl_err1 ?_
        rw [hE]; simp only [evalCall, hp, hFv, F_values, hne, if_true]
        exact ⟨_, _, _, rfl⟩
    · simp only [hok, Bool.false_eq_true, if_false]; simp [Concl]
  case fn name =>
    simp only [applyChecked, BigStep.apply]
    cases hfd : p.funs.find? (fun d => d.name == name) with
    | none => simp [Concl]
    | some d =>
      simp only []
      have hok := hfuns d (mem_of_find _ _ _ hfd)
      by_cases hpl : d.params.length = vs.length
      · have hne : (d.params.length != vs.length) = false := by simp [hpl]
        simp only [hne, Bool.false_eq_true, if_false]
        have hd : dispatch p (F b K (vs ++ Value.fn name :: V) σ) .E (.call id u recv args) =
            .newFrame (F b K V σ) (F (calleeBase u (.fn name) id) (d.body.map (fun e => (St.N, e))) [vUnit]
              [paramScope d.params vs]) := by
          rw [hE]; simp only [evalCall, hp, hFv, F_values, hfd, hne, Bool.false_eq_true, if_false]; rfl
        exact (sim_fun_body ih hL d.body hok _ (by simp) (calleeBase u (.fn name) id) b cs K V σ out).prepend
          (MS.call1 hd)
      · have hne : (d.params.length != vs.length) = true := by simp [hpl]
        simp only [hne, if_true]
        refine Concl_err1 ?_
        rw [hE]; simp only [evalCall, hp, hFv, F_values, hfd, hne, if_true]
        exact ⟨_, _, _, rfl⟩
  all_goals (simpa only [applyChecked, applyBuiltin] using hb)


-- ==================================================================== (BS9.lean)

/-- Stages (a) + (b) + (c): the simulation for every fuel, for the reference interpreter with the
dynamic fragment check on closure bodies. -/
theorem sim2 (p : Program) (hfuns : ∀ d ∈ p.funs, bodyOK d.body = true) :
    ∀ n, IH p 2 (evalWith (applyChecked p) p n) ∧ HW p 2 (evalWith (applyChecked p) p n)
  | 0 => ⟨IH_zero _ p 2, HW_zero _ p 2⟩
  | n + 1 => by
    obtain ⟨ih, hw⟩ := sim2 p hfuns n
    have hw1 := while_step ih hw
    refine ⟨?_, hw1⟩
    intro bk ck e σ out hσ hl hwf hx
    rcases kind_split e with hk | hk | hk
    · exact sim_succ_b ih hw1 bk ck e σ out hσ hl hwf hx hk
    · exact sim_succ_c ih bk ck e σ out hσ hl hwf hx hk
    · exact sim_succ_a (apHolds_checked ih (by omega) hfuns) ih bk ck e σ out hσ hl hwf hx hk

theorem foldl_max_le {α : Type} (f : α → Nat) (L : Nat) : ∀ (l : List α) (a : Nat),
    l.foldl (fun m d => max m (f d)) a ≤ L → a ≤ L ∧ ∀ d ∈ l, f d ≤ L
  | [], a, h => ⟨h, by simp⟩
  | x :: xs, a, h => by
      simp only [List.foldl] at h
      have := foldl_max_le f L xs (max a (f x)) h
      refine ⟨by omega, ?_⟩
      intro d hd
      rcases List.mem_cons.mp hd with h1 | h1
      · subst h1; omega
      · exact this.2 d h1

/-- The program-level predicates give every named function a body inside the fragment. -/
theorem funs_ok (p : Program) (hwf : wfProgram p = true) (hex : exitsProgram p = true)
    (hlv : levelProgram p ≤ 2) : ∀ d ∈ p.funs, bodyOK d.body = true := by
  intro d hd
  simp only [wfProgram, Bool.and_eq_true, List.all_eq_true] at hwf
  simp only [exitsProgram, Bool.and_eq_true, List.all_eq_true] at hex
  have hne : p.funs.isEmpty = false := by cases hp : p.funs <;> simp_all
  simp only [levelProgram, hne, Bool.false_eq_true, if_false] at hlv
  have h3 := (foldl_max_le (fun d => lvB d.body) 2 p.funs 0 (by omega)).2 d hd
  simp only [bodyOK, Bool.and_eq_true, decide_eq_true_eq]
  exact ⟨⟨hwf.2 d hd, hex.2 d hd⟩, h3⟩


-- ==================================================================== (BI.lean)

mutual
/-- Every closure inside the value has a body inside the fragment (`bodyOK`), recursively
through lists, tuples, payloads and captured scopes. -/
def vok : Value → Bool
  | .int _ | .str _ | .fn _ | .builtin _ | .enumC _ _ => true
  | .list items => vokL items
  | .tuple items => vokL items
  | .enumV _ _ none => true
  | .enumV _ _ (some v) => vok v
  | .closure env _ body => bodyOK body && vokE env
def vokL : List Value → Bool
  | [] => true
  | v :: vs => vok v && vokL vs
def vokE : List (List (String × Value)) → Bool
  | [] => true
  | b :: bs => vokB b && vokE bs
def vokB : List (String × Value) → Bool
  | [] => true
  | kv :: r => vok kv.2 && vokB r
end

-- ------------------------------------------------------------------ the invariant through the scope ADT

theorem vokB_append (a b : Block) : vokB (a ++ b) = (vokB a && vokB b) := by
  induction a with
  | nil => simp [vokB]
  | cons x xs ih => simp [vokB, ih, Bool.and_assoc]

theorem vokB_find (b : Block) (f : String × Value → Bool) (kv : String × Value) (hb : vokB b = true)
    (h : b.find? f = some kv) : vok kv.2 = true := by
  induction b with
  | nil => simp at h
  | cons x xs ih =>
    simp only [vokB, Bool.and_eq_true] at hb
    simp only [List.find?] at h
    split at h
    · cases h; exact hb.1
    · exact ih hb.2 h

theorem lookup_ok : ∀ (σ : List Block) (n : String) (v : Value), vokE σ = true → lookupBlocks σ n = some v →
    vok v = true
  | [], n, v, _, h => by simp [lookupBlocks] at h
  | b :: rest, n, v, hσ, h => by
      simp only [vokE, Bool.and_eq_true] at hσ
      unfold lookupBlocks at h
      split at h
      · rename_i kv hf; cases h; exact vokB_find b _ kv hσ.1 hf
      · exact lookup_ok rest n v hσ.2 h

theorem vokB_map_set (b : Block) (n : String) (v : Value) (hb : vokB b = true) (hv : vok v = true) :
    vokB (b.map (fun kv => if kv.1 == n then (n, v) else kv)) = true := by
  induction b with
  | nil => rfl
  | cons x xs ih =>
    simp only [vokB, Bool.and_eq_true] at hb
    simp only [List.map, vokB, Bool.and_eq_true]
    refine ⟨?_, ih hb.2⟩
    split
    · exact hv
    · exact hb.1

theorem blockSet_ok (b : Block) (n : String) (v : Value) (hb : vokB b = true) (hv : vok v = true) :
    vokB (blockSet b n v) = true := by
  unfold blockSet
  split
  · exact vokB_map_set b n v hb hv
  · rw [vokB_append]; simp [vokB, hb, hv]

theorem addNew_ok (σ : List Block) (n : String) (v : Value) (hσ : vokE σ = true) (hv : vok v = true) :
    vokE (addNew σ n v) = true := by
  unfold addNew
  split
  · exact hσ
  · cases σ with
    | nil => rfl
    | cons b rest =>
      simp only [vokE, Bool.and_eq_true] at hσ ⊢
      exact ⟨blockSet_ok b n v hσ.1 hv, hσ.2⟩

theorem declareAll_ok : ∀ (binds : List (String × Value)) (σ : List Block), vokE σ = true → vokB binds = true →
    vokE (declareAll σ binds) = true
  | [], σ, hσ, _ => hσ
  | kv :: rest, σ, hσ, hb => by
      simp only [vokB, Bool.and_eq_true] at hb
      simp only [declareAll, List.foldl]
      exact declareAll_ok rest _ (addNew_ok σ kv.1 kv.2 hσ hb.1) hb.2

theorem setExisting_ok : ∀ (σ σ' : List Block) (n : String) (v : Value), vokE σ = true → vok v = true →
    setExisting σ n v = some σ' → vokE σ' = true
  | [], σ', n, v, _, _, h => by simp [setExisting] at h
  | b :: rest, σ', n, v, hσ, hv, h => by
      simp only [vokE, Bool.and_eq_true] at hσ
      unfold setExisting at h
      split at h
      · cases h; simp only [vokE, Bool.and_eq_true]; exact ⟨blockSet_ok b n v hσ.1 hv, hσ.2⟩
      · simp at h
        obtain ⟨r, hr, h2⟩ := h
        subst h2
        simp only [vokE, Bool.and_eq_true]
        exact ⟨hσ.1, setExisting_ok rest r n v hσ.2 hv hr⟩

theorem nsLookup_ok (p : Program) (n : String) (v : Value) (h : nsLookup p n = some v) : vok v = true := by
  unfold nsLookup at h
  split at h
  · cases h; rfl
  · split at h
    · rename_i w hw
      cases h
      rcases findVariant_shape _ _ _ hw with ⟨t, i, rfl⟩ | ⟨t, i, rfl⟩ <;> rfl
    · split at h
      · cases h; rfl
      · cases h

theorem lookupVar_ok (p : Program) (σ : List Block) (n : String) (v : Value) (hσ : vokE σ = true)
    (h : lookupVar p σ n = some v) : vok v = true := by
  unfold lookupVar at h
  cases hl : lookupBlocks σ n with
  | some w => simp [hl] at h; subst h; exact lookup_ok σ n w hσ hl
  | none => simp [hl] at h; exact nsLookup_ok p n v h

theorem vokB_zip : ∀ (names : List String) (items : List Value), vokL items = true → vokB (names.zip items) = true
  | [], _, _ => rfl
  | _ :: _, [], _ => rfl
  | n :: ns, v :: vs, h => by
      simp only [vokL, Bool.and_eq_true] at h
      simp only [List.zip_cons_cons, vokB, Bool.and_eq_true]
      exact ⟨h.1, vokB_zip ns vs h.2⟩

theorem destructure_ok (d : Dest) (v : Value) (er : Err) (binds : List (String × Value)) (hv : vok v = true)
    (h : destructure d v er = .ok binds) : vokB binds = true := by
  cases d with
  | sym n => simp [destructure] at h; subst h; simp [vokB, hv]
  | destr names =>
    cases v
    case tuple items =>
      simp only [destructure] at h
      split at h
      · cases h
      · cases h; exact vokB_zip names items (by simpa [vok] using hv)
    all_goals simp [destructure] at h

theorem paramScope_ok (ps : List String) (vs : List Value) (hv : vokL vs = true) :
    vokB (paramScope ps vs) = true := by
  unfold paramScope
  have : ∀ (kvs : List (String × Value)) (acc : Block), vokB kvs = true → vokB acc = true →
      vokB (kvs.foldl (fun b kv => if kv.1 == "_" then b else blockSet b kv.1 kv.2) acc) = true := by
    intro kvs
    induction kvs with
    | nil => intro acc _ ha; exact ha
    | cons kv rest ih =>
      intro acc hk ha
      simp only [vokB, Bool.and_eq_true] at hk
      simp only [List.foldl]
      apply ih _ hk.2
      split
      · exact ha
      · exact blockSet_ok acc kv.1 kv.2 ha hk.1
  exact this _ [] (vokB_zip ps vs hv) rfl

theorem drop1_ok (σ : List Block) (h : vokE σ = true) : vokE (σ.drop 1) = true := by
  cases σ with
  | nil => rfl
  | cons b rest => simp only [vokE, Bool.and_eq_true] at h; simpa using h.2

theorem vBool_ok (b : Bool) : vok (vBool b) = true := by cases b <;> rfl

theorem intBinop_ok (op : BinOp) (a b : Int64) (v : Value) (h : intBinop op a b = .ok v) : vok v = true := by
  cases op <;> simp only [intBinop] at h
  all_goals (
    try (repeat' split at h)
    all_goals (
      try simp at h
      try (subst h)
      try (first | exact vBool_ok _ | rfl)))

theorem binop_ok (op : BinOp) (a b v : Value) (h : BigStep.binop op a b = .val v) : vok v = true := by
  cases op <;> simp only [BigStep.binop] at h
  all_goals (
    try (repeat' split at h)
    all_goals (
      try simp at h
      try (subst h)
      try (first | exact vBool_ok _ | rfl)))
  all_goals (rename_i hq; exact intBinop_ok _ _ _ _ hq)

-- ------------------------------------------------------------------ the checked interpreter agrees with `eval`

/-- Scopes and result values carry only closures with bodies inside the fragment. -/
def ROK (r : Res) : Prop :=
  vokE r.scopes = true ∧ (∀ v, r.outcome = .val v → vok v = true) ∧ (∀ v, r.outcome = .ret v → vok v = true)

/-- Two evaluators agree on fragment expressions in scopes satisfying the invariant, and keep it. -/
def Agree (ev1 ev2 : Ev) : Prop :=
  ∀ (bk ck : Bool) (e : Expr) (σ : List Block) (out : String), vokE σ = true → lvE e ≤ 2 → wfE e = true →
    exE bk ck e = true → ev1 σ out e = ev2 σ out e ∧ ROK (ev2 σ out e)

def GoodL (bk ck : Bool) (es : List Expr) : Prop :=
  ∀ e ∈ es, lvE e ≤ 2 ∧ wfE e = true ∧ exE bk ck e = true

theorem lvB_mem : ∀ (es : List Expr) (L : Nat), lvB es ≤ L → ∀ e ∈ es, lvE e ≤ L
  | [], _, _, _, h => by simp at h
  | x :: xs, L, hl, e, h => by
      have := lvB_cons x xs L hl
      rcases List.mem_cons.mp h with h1 | h1
      · subst h1; exact this.1
      · exact lvB_mem xs L this.2 e h1

theorem wfB_mem (u : Bool) : ∀ (es : List Expr), wfB u es = true → ∀ e ∈ es, wfE e = true
  | [], _, _, h => by simp at h
  | x :: xs, hw, e, h => by
      simp only [wfB, Bool.and_eq_true] at hw
      rcases List.mem_cons.mp h with h1 | h1
      · subst h1; exact hw.1.2
      · exact wfB_mem u xs hw.2 e h1

theorem wfAll_mem : ∀ (es : List Expr), wfAll es = true → ∀ e ∈ es, wfE e = true
  | [], _, _, h => by simp at h
  | x :: xs, hw, e, h => by
      simp only [wfAll, Bool.and_eq_true] at hw
      rcases List.mem_cons.mp h with h1 | h1
      · subst h1; exact hw.1.2
      · exact wfAll_mem xs hw.2 e h1

theorem exB_mem (bk ck : Bool) : ∀ (es : List Expr), exB bk ck es = true → ∀ e ∈ es, exE bk ck e = true
  | [], _, _, h => by simp at h
  | x :: xs, hw, e, h => by
      simp only [exB, Bool.and_eq_true] at hw
      rcases List.mem_cons.mp h with h1 | h1
      · subst h1; exact hw.1
      · exact exB_mem bk ck xs hw.2 e h1

theorem exAll_mem : ∀ (es : List Expr), exAll es = true → ∀ e ∈ es, exE false false e = true
  | [], _, _, h => by simp at h
  | x :: xs, hw, e, h => by
      simp only [exAll, Bool.and_eq_true] at hw
      rcases List.mem_cons.mp h with h1 | h1
      · subst h1; exact hw.1
      · exact exAll_mem xs hw.2 e h1

theorem goodL_block {u bk ck : Bool} {es : List Expr} (hl : lvB es ≤ 2) (hw : wfB u es = true)
    (hx : exB bk ck es = true) : GoodL bk ck es :=
  fun e he => ⟨lvB_mem es 2 hl e he, wfB_mem u es hw e he, exB_mem bk ck es hx e he⟩

theorem goodL_all {es : List Expr} (hl : lvB es ≤ 2) (hw : wfAll es = true) (hx : exAll es = true) :
    GoodL false false es :=
  fun e he => ⟨lvB_mem es 2 hl e he, wfAll_mem es hw e he, exAll_mem es hx e he⟩

theorem goodL_body {body : List Expr} (h : bodyOK body = true) : GoodL false false body := by
  simp only [bodyOK, Bool.and_eq_true, decide_eq_true_eq] at h
  exact goodL_block h.2 h.1.1 h.1.2

theorem GoodL.tail {bk ck : Bool} {e : Expr} {es : List Expr} (h : GoodL bk ck (e :: es)) : GoodL bk ck es :=
  fun x hx => h x (List.mem_cons_of_mem _ hx)

theorem evalSeq_agree {ev1 ev2 : Ev} (h : Agree ev1 ev2) (bk ck : Bool) :
    ∀ (es : List Expr) (last : Value) (σ : List Block) (out : String), vokE σ = true → vok last = true →
      GoodL bk ck es →
      evalSeq ev1 last es σ out = evalSeq ev2 last es σ out ∧ ROK (evalSeq ev2 last es σ out)
  | [], last, σ, out, hσ, hlast, _ => by
      simp only [evalSeq]
      exact ⟨by trivial, hσ, by intro v hv; cases hv; exact hlast, by intro v hv; cases hv⟩
  | e :: rest, last, σ, out, hσ, hlast, hg => by
      obtain ⟨hl, hw, hx⟩ := hg e (by simp)
      obtain ⟨heq, hrok⟩ := h bk ck e σ out hσ hl hw hx
      simp only [evalSeq]
      rw [heq]
      generalize ev2 σ out e = r at hrok ⊢
      obtain ⟨s1, o1, oc⟩ := r
      cases oc
      case val v => exact evalSeq_agree h bk ck rest v s1 o1 hrok.1 (hrok.2.1 v rfl) hg.tail
      all_goals exact ⟨rfl, hrok⟩

/-- Invariant of a right-to-left operand evaluation. -/
def ROKL (r : ResL) : Prop :=
  vokE r.scopes = true ∧ (∀ vs, r.result = .ok vs → vokL vs = true) ∧
    (∀ v, r.result = .error (.ret v) → vok v = true) ∧ (∀ v, r.result ≠ .error (.val v))

theorem evalRtl_agree {ev1 ev2 : Ev} (h : Agree ev1 ev2) :
    ∀ (es : List Expr) (σ : List Block) (out : String), vokE σ = true → GoodL false false es →
      evalRtl ev1 es σ out = evalRtl ev2 es σ out ∧ ROKL (evalRtl ev2 es σ out)
  | [], σ, out, hσ, _ => by
      simp only [evalRtl]
      exact ⟨by trivial, hσ, (fun vs hv => by cases hv; rfl), (fun v hv => by cases hv), (fun v hv => by cases hv)⟩
  | e :: rest, σ, out, hσ, hg => by
      obtain ⟨heq, hrok⟩ := evalRtl_agree h rest σ out hσ hg.tail
      simp only [evalRtl]
      rw [heq]
      generalize evalRtl ev2 rest σ out = r at hrok ⊢
      obtain ⟨s1, o1, res⟩ := r
      cases res with
      | error o => exact ⟨rfl, hrok⟩
      | ok vs =>
        obtain ⟨hl, hw, hx⟩ := hg e (by simp)
        obtain ⟨heq2, hrok2⟩ := h false false e s1 o1 hrok.1 hl hw hx
        simp only []
        rw [heq2]
        generalize ev2 s1 o1 e = r2 at hrok2 ⊢
        obtain ⟨s2, o2, oc⟩ := r2
        refine ⟨rfl, ?_⟩
        cases oc <;> simp only [ROKL]
        case val v =>
          refine And.intro hrok2.1 (And.intro ?_ (And.intro (fun w hw => by cases hw) (fun w hw => by cases hw)))
          intro ws hws; cases hws
          simp only [vokL, Bool.and_eq_true]
          exact ⟨hrok2.2.1 v rfl, hrok.2.1 vs rfl⟩
        case ret v =>
          exact And.intro hrok2.1 (And.intro (fun ws hws => by cases hws)
            (And.intro (fun w hw => by cases hw; exact hrok2.2.2 v rfl) (fun w hw => by cases hw)))
        all_goals
          exact And.intro hrok2.1 (And.intro (fun ws hws => by cases hws)
            (And.intro (fun w hw => by cases hw) (fun w hw => by cases hw)))

theorem runBlock_agree {ev1 ev2 : Ev} (h : Agree ev1 ev2) (bk ck : Bool) (binds : List (String × Value))
    (body : List Expr) (σ : List Block) (out : String) (hσ : vokE σ = true) (hb : vokB binds = true)
    (hg : GoodL bk ck body) :
    runBlock ev1 binds body σ out = runBlock ev2 binds body σ out ∧ ROK (runBlock ev2 binds body σ out) := by
  have hσ' : vokE (declareAll ([] :: σ) binds) = true :=
    declareAll_ok binds _ (by simp [vokE, vokB, hσ]) hb
  obtain ⟨heq, hrok⟩ := evalSeq_agree h bk ck body vUnit _ out hσ' rfl hg
  simp only [runBlock]
  rw [heq]
  exact ⟨rfl, drop1_ok _ hrok.1, hrok.2.1, hrok.2.2⟩

theorem vokL_mem : ∀ (l : List Value) (x : Value), vokL l = true → x ∈ l → vok x = true
  | [], _, _, h => by simp at h
  | y :: ys, x, hl, h => by
      simp only [vokL, Bool.and_eq_true] at hl
      rcases List.mem_cons.mp h with h1 | h1
      · subst h1; exact hl.1
      · exact vokL_mem ys x hl.2 h1

theorem ROK_of (σ : List Block) (out : String) (o : Outcome) (hσ : vokE σ = true)
    (h1 : ∀ v, o = .val v → vok v = true) (h2 : ∀ v, o = .ret v → vok v = true) : ROK ⟨σ, out, o⟩ :=
  And.intro hσ (And.intro h1 h2)

theorem ROK_err (σ : List Block) (out : String) (er : Err) (hσ : vokE σ = true) : ROK ⟨σ, out, .err er⟩ :=
  ROK_of σ out _ hσ (fun v hv => by cases hv) (fun v hv => by cases hv)

theorem ROK_unsup (σ : List Block) (out : String) (w : String) (hσ : vokE σ = true) : ROK ⟨σ, out, .unsupported w⟩ :=
  ROK_of σ out _ hσ (fun v hv => by cases hv) (fun v hv => by cases hv)

theorem ROK_val (σ : List Block) (out : String) (v : Value) (hσ : vokE σ = true) (hv : vok v = true) :
    ROK ⟨σ, out, .val v⟩ :=
  ROK_of σ out _ hσ (fun w hw => by cases hw; exact hv) (fun w hw => by cases hw)

theorem forLoop_agree {ev1 ev2 : Ev} (h : Agree ev1 ev2) (dest : Dest) (body : List Expr)
    (hg : GoodL true true body) :
    ∀ (xs : List Value) (σ : List Block) (out : String), vokE σ = true → vokL xs = true →
      forLoop ev1 dest body xs σ out = forLoop ev2 dest body xs σ out ∧ ROK (forLoop ev2 dest body xs σ out)
  | [], σ, out, hσ, _ => by
      exact ⟨rfl, ROK_val σ out vUnit hσ rfl⟩
  | x :: xs, σ, out, hσ, hxs => by
      simp only [vokL, Bool.and_eq_true] at hxs
      simp only [forLoop]
      cases hd : destructure dest x (.typeError "Tuple") with
      | error er => exact ⟨rfl, ROK_err σ out er hσ⟩
      | ok binds =>
        simp only []
        obtain ⟨heq, hrok⟩ := runBlock_agree h true true binds body σ out hσ
          (destructure_ok dest x _ binds hxs.1 hd) hg
        rw [heq]
        generalize runBlock ev2 binds body σ out = r at hrok ⊢
        obtain ⟨s1, o1, oc⟩ := r
        cases oc
        case val v => exact forLoop_agree h dest body hg xs s1 o1 hrok.1 hxs.2
        case cont => exact forLoop_agree h dest body hg xs s1 o1 hrok.1 hxs.2
        case brk => exact ⟨rfl, ROK_val s1 o1 vUnit hrok.1 rfl⟩
        all_goals exact ⟨rfl, hrok⟩

theorem runBody_agree {ev1 ev2 : Ev} (h : Agree ev1 ev2) (scopes : List Block) (body : List Expr)
    (σ : List Block) (out : String) (hs : vokE scopes = true) (hσ : vokE σ = true) (hg : GoodL false false body) :
    runBody ev1 scopes body σ out = runBody ev2 scopes body σ out ∧ ROK (runBody ev2 scopes body σ out) := by
  obtain ⟨heq, hrok⟩ := evalSeq_agree h false false body vUnit scopes out hs rfl hg
  simp only [runBody]
  rw [heq]
  generalize evalSeq ev2 vUnit body scopes out = r at hrok ⊢
  obtain ⟨s1, o1, oc⟩ := r
  cases oc
  case val v => exact ⟨rfl, ROK_val σ o1 v hσ (hrok.2.1 v rfl)⟩
  case ret v => exact ⟨rfl, ROK_val σ o1 v hσ (hrok.2.2 v rfl)⟩
  case err er => exact ⟨rfl, ROK_err σ o1 er hσ⟩
  all_goals exact ⟨rfl, ROK_of σ o1 _ hσ (fun v hv => by cases hv) (fun v hv => by cases hv)⟩


-- ==================================================================== (BI2.lean)

theorem apply_builtin_ROK (ev : Ev) (p : Program) (σ : List Block) (out : String) (name : String) (vs : List Value)
    (hσ : vokE σ = true) : ROK (BigStep.apply ev p σ out (.builtin name) vs) := by
  simp only [BigStep.apply]
  split
  · exact ROK_err σ out _ hσ
  · split
    · exact ROK_val σ _ vUnit hσ rfl
    · exact ROK_val σ _ vUnit hσ rfl
    · exact ROK_err σ out _ hσ
    · exact ROK_err σ out _ hσ
    · exact ROK_val σ out _ hσ rfl
    · exact ROK_unsup σ out _ hσ

theorem apply_agree {ev1 ev2 : Ev} (h : Agree ev1 ev2) (p : Program)
    (hfuns : ∀ d ∈ p.funs, bodyOK d.body = true) (σ : List Block) (out : String) (fv : Value) (vs : List Value)
    (hσ : vokE σ = true) (hf : vok fv = true) (hvs : vokL vs = true) :
    applyChecked p ev1 σ out fv vs = BigStep.apply ev2 p σ out fv vs ∧ ROK (BigStep.apply ev2 p σ out fv vs) := by
  cases fv
  case closure env ps body =>
    simp only [vok, Bool.and_eq_true] at hf
    simp only [applyChecked, hf.1, if_true, BigStep.apply]
    by_cases hc : (ps.length != vs.length) = true
    · simp only [hc, if_true]; exact ⟨by first | rfl | trivial, ROK_err σ out _ hσ⟩
    · simp only [hc, if_false, Bool.false_eq_true]
      exact runBody_agree h _ body σ out
        (by simp only [vokE, Bool.and_eq_true]; exact ⟨paramScope_ok ps vs hvs, hf.2⟩) hσ (goodL_body hf.1)
  case fn name =>
    simp only [applyChecked, BigStep.apply]
    cases hfd : p.funs.find? (fun d => d.name == name) with
    | none => exact ⟨by first | rfl | trivial, ROK_unsup σ out _ hσ⟩
    | some d =>
      simp only []
      by_cases hc : (d.params.length != vs.length) = true
      · simp only [hc, if_true]; exact ⟨by first | rfl | trivial, ROK_err σ out _ hσ⟩
      · simp only [hc, if_false, Bool.false_eq_true]
        exact runBody_agree h _ d.body σ out
          (by simp [vokE, paramScope_ok d.params vs hvs]) hσ
          (goodL_body (hfuns d (mem_of_find _ _ _ hfd)))
  case builtin name =>
    refine ⟨?_, apply_builtin_ROK ev2 p σ out name vs hσ⟩
    simp only [applyChecked, BigStep.apply]
  case enumC ty idx =>
    refine ⟨by simp only [applyChecked, BigStep.apply], ?_⟩
    simp only [BigStep.apply]
    split
    · rename_i a
      simp only [vokL, Bool.and_eq_true] at hvs
      exact ROK_val σ out _ hσ (by simp only [vok]; exact hvs.1)
    · exact ROK_err σ out _ hσ
  all_goals exact ⟨by simp only [applyChecked, BigStep.apply], by simp only [BigStep.apply]; exact ROK_err σ out _ hσ⟩

theorem selectCase_ok (p : Program) (σ : List Block) (ty : String) (idx : Nat) (payload : Option Value)
    (hp : ∀ pl, payload = some pl → vok pl = true) :
    ∀ (cases : List Case) (binds : List (String × Value)) (body : List Expr),
      selectCase p σ ty idx payload cases = .take binds body →
      vokB binds = true ∧ ∃ vn d, Case.mk vn d body ∈ cases
  | [], binds, body, h => by simp [selectCase] at h
  | .mk variant dest cbody :: rest, binds, body, h => by
      have ihr := selectCase_ok p σ ty idx payload hp rest binds body
      have lift : (vokB binds = true ∧ ∃ vn d, Case.mk vn d body ∈ rest) →
          (vokB binds = true ∧ ∃ vn d, Case.mk vn d body ∈ Case.mk variant dest cbody :: rest) := by
        rintro ⟨h1, vn, d, hm⟩; exact ⟨h1, vn, d, List.mem_cons_of_mem _ hm⟩
      have inner : ∀ (binds' : List (String × Value)),
          (match payload, dest with
            | some pl, some d =>
              match destructure d pl (.typeError "tuple-payload") with
              | .ok bs => CaseSel.take bs cbody
              | .error e => CaseSel.fail e
            | none, none => CaseSel.take [] cbody
            | _, _ => selectCase p σ ty idx payload rest) = .take binds body →
          vokB binds = true ∧ ∃ vn d, Case.mk vn d body ∈ Case.mk variant dest cbody :: rest := by
        intro _ h
        cases payload with
        | none =>
          cases dest with
          | none => simp only [] at h; cases h; exact ⟨rfl, variant, none, List.mem_cons_self⟩
          | some d => simp only [] at h; exact lift (ihr h)
        | some pl =>
          cases dest with
          | none => simp only [] at h; exact lift (ihr h)
          | some d =>
            simp only [] at h
            cases hd : destructure d pl (.typeError "tuple-payload") with
            | ok bs =>
              simp only [hd] at h; cases h
              exact ⟨destructure_ok d pl _ _ (hp pl rfl) hd, variant, some d, List.mem_cons_self⟩
            | error e => simp only [hd] at h; cases h
      unfold selectCase at h
      by_cases hv : (variant == "_") = true
      · simp only [hv, if_true] at h; cases h; exact ⟨rfl, variant, dest, List.mem_cons_self⟩
      · simp only [hv, if_false, Bool.false_eq_true] at h
        cases hl : lookupVar p σ variant with
        | none => simp only [hl] at h; cases h
        | some pv =>
          cases pv <;> simp only [hl] at h <;> (try (cases h; done))
          case enumV pty pidx ppl =>
            by_cases hm : (ty == pty && idx == pidx) = true
            · simp only [hm, if_true] at h; exact inner binds h
            · simp only [hm, if_false, Bool.false_eq_true] at h; exact lift (ihr h)
          case enumC pty pidx =>
            by_cases hm : (ty == pty && idx == pidx) = true
            · simp only [hm, if_true] at h; exact inner binds h
            · simp only [hm, if_false, Bool.false_eq_true] at h; exact lift (ihr h)


-- ==================================================================== (BI3.lean)

/-- `BigStep.apply` as an `Ap` (so that `eval p = evalWith (apFull p) p` by definition). -/
abbrev apFull (p : Program) : Ap := fun ev σ out fv vs => BigStep.apply ev p σ out fv vs

theorem eval_eq (p : Program) (n : Nat) : eval p n = evalWith (apFull p) p n := rfl

theorem binop_not_ret (op : BinOp) (a b v : Value) : BigStep.binop op a b ≠ .ret v := by
  rcases binop_shape op a b with ⟨w, h⟩ | ⟨e, h⟩ | ⟨w, h⟩ <;> rw [h] <;> simp

theorem agree_succ (p : Program) (hfuns : ∀ d ∈ p.funs, bodyOK d.body = true) (n : Nat)
    (h : Agree (evalWith (applyChecked p) p n) (evalWith (apFull p) p n)) :
    Agree (evalWith (applyChecked p) p (n + 1)) (evalWith (apFull p) p (n + 1)) := by
  intro bk ck e σ out hσ hl hw hx
  cases e
  case int id u v => simp only [evalWith]; exact ⟨trivial, ROK_val σ out _ hσ rfl⟩
  case str id u t => simp only [evalWith]; exact ⟨trivial, ROK_val σ out _ hσ rfl⟩
  case invalid id u => simp only [evalWith]; exact ⟨trivial, ROK_err σ out _ hσ⟩
  case unsup id u w => simp only [evalWith]; exact ⟨trivial, ROK_unsup σ out _ hσ⟩
  case brk id u => simp only [evalWith]; exact ⟨trivial, ROK_of σ out _ hσ (fun v hv => by cases hv) (fun v hv => by cases hv)⟩
  case cont id u => simp only [evalWith]; exact ⟨trivial, ROK_of σ out _ hσ (fun v hv => by cases hv) (fun v hv => by cases hv)⟩
  case var id u name =>
    simp only [evalWith]
    cases hlk : lookupVar p σ name with
    | none => exact ⟨trivial, ROK_err σ out _ hσ⟩
    | some v => exact ⟨trivial, ROK_val σ out v hσ (lookupVar_ok p σ name v hσ hlk)⟩
  case lambda id u ps body =>
    simp only [evalWith]
    simp only [wfE] at hw
    simp only [exE] at hx
    simp only [lvE] at hl
    refine ⟨trivial, ROK_val σ out _ hσ ?_⟩
    simp only [vok, bodyOK, Bool.and_eq_true, decide_eq_true_eq]
    exact ⟨⟨⟨hw, hx⟩, by omega⟩, hσ⟩
  case paren id u inner =>
    simp only [wfE, Bool.and_eq_true, beq_iff_eq] at hw
    simp only [exE] at hx
    simp only [lvE] at hl
    simp only [evalWith]
    exact h false false inner σ out hσ hl hw.2 hx
  case binop id u op l r =>
    simp only [wfE, Bool.and_eq_true] at hw
    simp only [exE, Bool.and_eq_true] at hx
    simp only [lvE] at hl
    have hl3 := max_le3 hl
    obtain ⟨q1, r1⟩ := h false false l σ out hσ hl3.2.1 hw.1.2 hx.1
    simp only [evalWith]
    rw [q1]
    generalize evalWith (apFull p) p n σ out l = rl at r1 ⊢
    obtain ⟨s1, o1, oc1⟩ := rl
    cases oc1
    case val lv =>
      simp only []
      obtain ⟨q2, r2⟩ := h false false r s1 o1 r1.1 hl3.2.2 hw.2 hx.2
      rw [q2]
      generalize evalWith (apFull p) p n s1 o1 r = rr at r2 ⊢
      obtain ⟨s2, o2, oc2⟩ := rr
      cases oc2
      case val rv =>
        exact ⟨(by first | rfl | trivial), ROK_of s2 o2 _ r2.1 (fun v hv => binop_ok op lv rv v hv)
          (fun v hv => absurd hv (binop_not_ret op lv rv v))⟩
      all_goals exact ⟨(by first | rfl | trivial), r2⟩
    all_goals exact ⟨(by first | rfl | trivial), r1⟩
  case letE id u dest inner =>
    simp only [wfE, Bool.and_eq_true] at hw
    simp only [exE] at hx
    simp only [lvE] at hl
    obtain ⟨q1, r1⟩ := h false false inner σ out hσ hl hw.2 hx
    simp only [evalWith]
    rw [q1]
    generalize evalWith (apFull p) p n σ out inner = r0 at r1 ⊢
    obtain ⟨s1, o1, oc1⟩ := r0
    cases oc1
    case val v =>
      simp only []
      cases hd : destructure dest v (.typeError "Tuple") with
      | error er => exact ⟨(by first | rfl | trivial), ROK_err s1 o1 _ r1.1⟩
      | ok binds =>
        exact ⟨(by first | rfl | trivial), ROK_val _ o1 _ (declareAll_ok binds s1 r1.1 (destructure_ok dest v _ binds (r1.2.1 v rfl) hd)) rfl⟩
    all_goals exact ⟨(by first | rfl | trivial), r1⟩
  case assign id u name inner =>
    simp only [wfE, Bool.and_eq_true] at hw
    simp only [exE] at hx
    simp only [lvE] at hl
    obtain ⟨q1, r1⟩ := h false false inner σ out hσ hl hw.2 hx
    simp only [evalWith]
    rw [q1]
    generalize evalWith (apFull p) p n σ out inner = r0 at r1 ⊢
    obtain ⟨s1, o1, oc1⟩ := r0
    cases oc1
    case val v =>
      simp only []
      cases hd : setExisting s1 name v with
      | none => exact ⟨(by first | rfl | trivial), ROK_err s1 o1 _ r1.1⟩
      | some σ' => exact ⟨(by first | rfl | trivial), ROK_val σ' o1 _ (setExisting_ok s1 σ' name v r1.1 (r1.2.1 v rfl) hd) rfl⟩
    all_goals exact ⟨(by first | rfl | trivial), r1⟩
  case update id u isAdd name inner =>
    simp only [wfE, Bool.and_eq_true] at hw
    simp only [exE] at hx
    simp only [lvE] at hl
    obtain ⟨q1, r1⟩ := h false false inner σ out hσ hl hw.2 hx
    simp only [evalWith]
    rw [q1]
    generalize evalWith (apFull p) p n σ out inner = r0 at r1 ⊢
    obtain ⟨s1, o1, oc1⟩ := r0
    cases oc1
    case val dv =>
      simp only []
      refine ⟨(by first | rfl | trivial), ?_⟩
      cases lookupVar p s1 name with
      | none => exact ROK_err s1 o1 _ r1.1
      | some cv =>
        cases cv <;> simp only [] <;> (try exact ROK_err s1 o1 _ r1.1)
        case int cur =>
          cases dv <;> simp only [] <;> (try exact ROK_err s1 o1 _ r1.1)
          case int d =>
            cases hd : setExisting s1 name (.int (if isAdd then cur + d else cur - d)) with
            | none => exact ROK_err s1 o1 _ r1.1
            | some σ' => exact ROK_val σ' o1 _ (setExisting_ok s1 σ' name _ r1.1 rfl hd) rfl
    all_goals exact ⟨(by first | rfl | trivial), r1⟩
  case list id u items =>
    simp only [wfE] at hw
    simp only [exE] at hx
    have hl' := lv_list id u items 2 hl
    obtain ⟨q1, r1⟩ := evalRtl_agree h items σ out hσ (goodL_all hl' hw hx)
    simp only [evalWith]
    rw [q1]
    generalize evalRtl (evalWith (apFull p) p n) items σ out = ra at r1 ⊢
    obtain ⟨s1, o1, res⟩ := ra
    cases res with
    | ok vs => exact ⟨(by first | rfl | trivial), ROK_val s1 o1 _ r1.1 (by simp only [vok]; exact r1.2.1 vs rfl)⟩
    | error o => exact ⟨(by first | rfl | trivial), ROK_of s1 o1 o r1.1
        (fun v hv => by subst hv; exact absurd rfl (r1.2.2.2 v)) (fun v hv => by subst hv; exact r1.2.2.1 v rfl)⟩
  case tuple id u items =>
    simp only [wfE] at hw
    simp only [exE] at hx
    simp only [lvE] at hl
    obtain ⟨q1, r1⟩ := evalRtl_agree h items σ out hσ (goodL_all hl hw hx)
    simp only [evalWith]
    rw [q1]
    generalize evalRtl (evalWith (apFull p) p n) items σ out = ra at r1 ⊢
    obtain ⟨s1, o1, res⟩ := ra
    cases res with
    | ok vs => exact ⟨(by first | rfl | trivial), ROK_val s1 o1 _ r1.1 (by simp only [vok]; exact r1.2.1 vs rfl)⟩
    | error o => exact ⟨(by first | rfl | trivial), ROK_of s1 o1 o r1.1
        (fun v hv => by subst hv; exact absurd rfl (r1.2.2.2 v)) (fun v hv => by subst hv; exact r1.2.2.1 v rfl)⟩
  case call id u recv args =>
    simp only [wfE, Bool.and_eq_true] at hw
    simp only [exE, Bool.and_eq_true] at hx
    simp only [lvE] at hl
    obtain ⟨q1, r1⟩ := h false false recv σ out hσ (by omega) hw.1.2 hx.1
    simp only [evalWith]
    rw [q1]
    generalize evalWith (apFull p) p n σ out recv = rr at r1 ⊢
    obtain ⟨s1, o1, oc1⟩ := rr
    cases oc1
    case val fv =>
      simp only []
      obtain ⟨q2, r2⟩ := evalRtl_agree h args s1 o1 r1.1 (goodL_all (by omega) hw.2 hx.2)
      rw [q2]
      generalize evalRtl (evalWith (apFull p) p n) args s1 o1 = ra at r2 ⊢
      obtain ⟨s2, o2, res⟩ := ra
      cases res with
      | ok vs =>
        simp only []
        exact apply_agree h p hfuns s2 o2 fv vs r2.1 (r1.2.1 fv rfl) (r2.2.1 vs rfl)
      | error o => exact ⟨(by first | rfl | trivial), ROK_of s2 o2 o r2.1
          (fun v hv => by subst hv; exact absurd rfl (r2.2.2.2 v)) (fun v hv => by subst hv; exact r2.2.2.1 v rfl)⟩
    all_goals exact ⟨(by first | rfl | trivial), r1⟩
  case ret id u x =>
    cases x with
    | none =>
      simp only [evalWith]
      exact ⟨trivial, ROK_of σ out _ hσ (fun v hv => by cases hv) (fun v hv => by cases hv; rfl)⟩
    | some x =>
      simp only [wfE, Bool.and_eq_true] at hw
      simp only [exE] at hx
      simp only [lvE] at hl
      obtain ⟨q1, r1⟩ := h false false x σ out hσ (by omega) hw.2 hx
      simp only [evalWith]
      rw [q1]
      generalize evalWith (apFull p) p n σ out x = r0 at r1 ⊢
      obtain ⟨s1, o1, oc1⟩ := r0
      cases oc1
      case val v =>
        exact ⟨(by first | rfl | trivial), ROK_of s1 o1 _ r1.1 (fun w hw => by cases hw)
          (fun w hw => by cases hw; exact r1.2.1 v rfl)⟩
      all_goals exact ⟨(by first | rfl | trivial), r1⟩
  case ifE id u c t els =>
    have hcw : wfE c = true ∧ wfB (u && els.isSome) t = true ∧
        (∀ eb, els = some eb → wfB (u && els.isSome) eb = true) := by
      cases els <;> simp only [wfE, Bool.and_eq_true] at hw
      · exact ⟨hw.1.2, by simpa using hw.2, by intro eb h; cases h⟩
      · exact ⟨hw.1.1.2, by simpa using hw.1.2, by intro eb h; cases h; simpa using hw.2⟩
    have hcx : exE false false c = true ∧ exB bk ck t = true ∧ (∀ eb, els = some eb → exB bk ck eb = true) := by
      cases els <;> simp only [exE, Bool.and_eq_true] at hx
      · exact ⟨hx.1, hx.2, by intro eb h; cases h⟩
      · exact ⟨hx.1.1, hx.1.2, by intro eb h; cases h; exact hx.2⟩
    have hcl : lvE c ≤ 2 ∧ lvB t ≤ 2 ∧ (∀ eb, els = some eb → lvB eb ≤ 2) := by
      cases els <;> simp only [lvE] at hl
      · exact ⟨by omega, by omega, by intro eb h; cases h⟩
      · exact ⟨by omega, by omega, by intro eb h; cases h; omega⟩
    obtain ⟨q1, r1⟩ := h false false c σ out hσ hcl.1 hcw.1 hcx.1
    simp only [evalWith]
    rw [q1]
    generalize evalWith (apFull p) p n σ out c = rc at r1 ⊢
    obtain ⟨s1, o1, oc1⟩ := rc
    cases oc1
    case val cv =>
      simp only []
      cases cv.asBool with
      | none => exact ⟨(by first | rfl | trivial), ROK_err s1 o1 _ r1.1⟩
      | some bv =>
        cases bv
        · cases els with
          | none => exact ⟨(by first | rfl | trivial), ROK_val s1 o1 _ r1.1 rfl⟩
          | some eb =>
            simp only []
            exact runBlock_agree h bk ck [] eb s1 o1 r1.1 rfl
              (goodL_block (hcl.2.2 eb rfl) (hcw.2.2 eb rfl) (hcx.2.2 eb rfl))
        · simp only []
          obtain ⟨q2, r2⟩ := runBlock_agree h bk ck [] t s1 o1 r1.1 rfl (goodL_block hcl.2.1 hcw.2.1 hcx.2.1)
          rw [q2]
          generalize runBlock (evalWith (apFull p) p n) [] t s1 o1 = rb at r2 ⊢
          obtain ⟨s2, o2, oc2⟩ := rb
          cases oc2 <;> cases els <;> simp only []
          all_goals first
            | exact ⟨(by first | rfl | trivial), r2⟩
            | exact ⟨(by first | rfl | trivial), ROK_val s2 o2 _ r2.1 rfl⟩
    all_goals exact ⟨(by first | rfl | trivial), r1⟩
  case matchE id u sc cases =>
    simp only [wfE, Bool.and_eq_true] at hw
    simp only [exE, Bool.and_eq_true] at hx
    simp only [lvE] at hl
    obtain ⟨q1, r1⟩ := h false false sc σ out hσ (by omega) hw.1.2 hx.1
    simp only [evalWith]
    rw [q1]
    generalize evalWith (apFull p) p n σ out sc = rc at r1 ⊢
    obtain ⟨s1, o1, oc1⟩ := rc
    cases oc1
    case val sv =>
      cases sv <;> simp only [] <;> (try exact ⟨(by first | rfl | trivial), ROK_err s1 o1 _ r1.1⟩)
      case enumV ty idx payload =>
        have hpl : ∀ pl, payload = some pl → vok pl = true := by
          intro pl hpl; subst hpl
          have := r1.2.1 _ rfl
          simpa [vok] using this
        cases hsel : selectCase p s1 ty idx payload cases with
        | fail er => exact ⟨(by first | rfl | trivial), ROK_err s1 o1 _ r1.1⟩
        | take binds body =>
          simp only []
          obtain ⟨hb, vn, d, hmem⟩ := selectCase_ok p s1 ty idx payload hpl cases binds body hsel
          exact runBlock_agree h bk ck binds body s1 o1 r1.1 hb
            (goodL_block (lvCases_mem 2 cases vn d body (by omega) hmem) (wfCases_mem u cases vn d body hw.2 hmem)
              (exCases_mem bk ck cases vn d body hx.2 hmem))
    all_goals exact ⟨(by first | rfl | trivial), r1⟩
  case whileE id u c body =>
    have hl0 := hl
    have hw0 := hw
    have hx0 := hx
    simp only [wfE, Bool.and_eq_true] at hw
    simp only [exE, Bool.and_eq_true] at hx
    simp only [lvE] at hl
    obtain ⟨q1, r1⟩ := h false false c σ out hσ (by omega) hw.1.2 hx.1
    simp only [evalWith]
    rw [q1]
    generalize evalWith (apFull p) p n σ out c = rc at r1 ⊢
    obtain ⟨s1, o1, oc1⟩ := rc
    cases oc1
    case val cv =>
      simp only []
      cases cv.asBool with
      | none => exact ⟨(by first | rfl | trivial), ROK_err s1 o1 _ r1.1⟩
      | some bv =>
        cases bv
        · exact ⟨(by first | rfl | trivial), ROK_val s1 o1 _ r1.1 rfl⟩
        · simp only []
          obtain ⟨q2, r2⟩ := runBlock_agree h true true [] body s1 o1 r1.1 rfl (goodL_block (by omega) hw.2 hx.2)
          rw [q2]
          generalize runBlock (evalWith (apFull p) p n) [] body s1 o1 = rb at r2 ⊢
          obtain ⟨s2, o2, oc2⟩ := rb
          cases oc2 <;> simp only []
          case val v => exact h bk ck (.whileE id u c body) s2 o2 r2.1 hl0 hw0 hx0
          case cont => exact h bk ck (.whileE id u c body) s2 o2 r2.1 hl0 hw0 hx0
          case brk => exact ⟨(by first | rfl | trivial), ROK_val s2 o2 _ r2.1 rfl⟩
          all_goals exact ⟨(by first | rfl | trivial), r2⟩
    all_goals exact ⟨(by first | rfl | trivial), r1⟩
  case forE id u dest it body =>
    simp only [wfE, Bool.and_eq_true] at hw
    simp only [exE, Bool.and_eq_true] at hx
    simp only [lvE] at hl
    obtain ⟨q1, r1⟩ := h false false it σ out hσ (by omega) hw.1.2 hx.1
    simp only [evalWith]
    rw [q1]
    generalize evalWith (apFull p) p n σ out it = ri at r1 ⊢
    obtain ⟨s1, o1, oc1⟩ := ri
    cases oc1
    case val iv =>
      cases iv <;> simp only [] <;> (try exact ⟨(by first | rfl | trivial), ROK_err s1 o1 _ r1.1⟩)
      case list items =>
        by_cases hlen : items.length < 9223372036854775808
        · simp only [hlen, if_true]
          exact forLoop_agree h dest body (goodL_block (by omega) hw.2 hx.2) items s1 o1 r1.1
            (by have := r1.2.1 _ rfl; simpa [vok] using this)
        · simp only [hlen, if_false]
          exact ⟨(by first | rfl | trivial), ROK_unsup s1 o1 _ r1.1⟩
    all_goals exact ⟨(by first | rfl | trivial), r1⟩

theorem agree (p : Program) (hfuns : ∀ d ∈ p.funs, bodyOK d.body = true) :
    ∀ n, Agree (evalWith (applyChecked p) p n) (evalWith (apFull p) p n)
  | 0 => by
    intro bk ck e σ out hσ hl hw hx
    simp only [evalWith]
    exact ⟨trivial, ROK_of σ out _ hσ (fun v hv => by cases hv) (fun v hv => by cases hv)⟩
  | n + 1 => agree_succ p hfuns n (agree p hfuns n)

/-- On programs of the fragment the reference interpreter with the dynamic closure check IS the
reference interpreter: the check never fails (every closure value was made from a function literal
of the program, whose body is inside the fragment). -/
theorem runProgram_checked_eq (p : Program) (hfuns : ∀ d ∈ p.funs, bodyOK d.body = true)
    (hl : lvB p.toplevel ≤ 2) (hw : wfAll p.toplevel = true) (hx : exB false false p.toplevel = true) (fuel : Nat) :
    runProgramWith (evalWith (applyChecked p) p fuel) p = runProgram p fuel := by
  have hg : GoodL false false p.toplevel :=
    fun e he => ⟨lvB_mem _ 2 hl e he, wfAll_mem _ hw e he, exB_mem false false _ hx e he⟩
  have := (evalSeq_agree (agree p hfuns fuel) false false p.toplevel vUnit [[]] "" rfl rfl hg).1
  simp only [runProgram, runProgramWith, eval_eq, this]


end BigStepLemmas
