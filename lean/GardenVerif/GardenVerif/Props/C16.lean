import GardenVerif.Lemmas.Check
/-!
C16 — Programs that pass `check` raise no runtime type errors.

FULL STATEMENT (the target; NOT proved in full — see "MISSING" below):

  theorem check_sound_fragment (P : Check.Program) :
      Check.fullyAnnotated P = true → Check.check P = [] →
      ∀ fuel, (Check.run fuel P).isTypeError = false

where `Check.check` is M8 (Model/Check.lean: all Error diagnostics of `garden check` on the fully
annotated monomorphic first-order core fragment), `Check.run` the typed reference semantics
(Model/TypedSem.lean) and `isTypeError` = wrong operand / argument type, wrong arity, calling a
non-function, unknown variable, failed annotation check (param / let / return), no matching case,
scrutinee not an enum, bad pattern (or leaving the fragment).

PROVED (no sorry; universally quantified over programs, types, environments and fuel):

* The typing invariant `Check.hasTy v T` (deep: every element of a list has the element type)
  and its pillars
  - `value_subsumption`: a value of type A is a value of every well-formed supertype of A (by the
    shape of `is_subtype`, M7);
  - `annotation_check_passes`: a value of static type T passes the evaluator's
    `check_type` = `is_subtype(Type::from_value(v), T)` — the param / let / return checks of
    eval.rs can never fail on a well-typed value (e.g. `[]` : `List<NoValue>` ≤ `List<T>`,
    `empty_list_passes`);
  - `canonical_int / _bool / _string`: values of type Int / Bool / String are ints / bools /
    strings, so operand checks of the operators cannot fail;
  - environment typing `Check.envOK` is preserved by `let` (`Check.setB_ok`) and gives typed
    lookups (`Check.lookupB_ok`).
* `check_sound_exprs_partial` (progress + preservation packaged for the big-step semantics) for
  the STRAIGHT-LINE sub-fragment `Check.slE` (syntactic, decidable): literals, variables
  (locals, `None`/`True`/`False`/`Unit`), parentheses, ALL binary operators (arithmetic,
  comparison, `==`/`!=`, `&&`/`||`, `^`), `let` with and without hints, `return`, blocks of
  these. If such a block type-checks with NO diagnostic in an environment that types the runtime
  environment, then for every fuel its evaluation yields a value of the inferred type in a typed
  environment, or a `return` of a value of the expected return type, or a NON-type error
  (division by zero, overflow), or runs out of fuel — never a type error, never a stray
  `break`/`continue`.
* `check_sound_toplevel_partial`: a program whose toplevel expressions are straight-line and for
  which `check P = []` never ends in a type error, for every fuel.

MISSING for the full statement (covered only by the correspondence and the direct oracle of
harness/c16.py): `if`/`else`, loops, calls, assignment / `+=`, `match`, list / tuple literals.
What the induction additionally needs: (1) checking a block leaves the outer bindings unchanged
(the checker threads its bindings through BOTH branches of an `if`, and through arguments left
to right while they are evaluated right to left); (2) `unify` preserves value typing (for
`if … else` / `match` / list literals in inferred position; `Ty.unify_upper` of C15 gives the
subtyping half); (3) for calls: the body of every function was checked against its annotations —
`annotation_check_passes` and `value_subsumption` are exactly the facts the call case uses.
-/
set_option linter.unusedVariables false
set_option linter.unusedSimpArgs false

namespace C16
open Check

/-- Subsumption for the value typing (pillar 1). -/
theorem value_subsumption (v : Val) (A B : Ty) (hv : hasTy v A = true) (hs : Ty.sub A B = true)
    (hB : good B = true) : hasTy v B = true := hasTy_sub v A B hv hs hB

/-- A well-typed value passes every runtime annotation check against its static type (pillar 2):
`check_type(value, expected)` = `is_subtype(Type::from_value(value), expected)`. -/
theorem annotation_check_passes (v : Val) (T : Ty) (hv : hasTy v T = true) :
    Ty.sub (typeOf v) T = true := hasTy_sub_typeOf v T hv

/-- Hints denote well-formed types. -/
theorem hint_types_good (h : Hint) : good h.toTy = true := Hint.toTy_good h

theorem canonical_int (v : Val) (h : hasTy v tInt = true) : ∃ i, v = .int i := canon_int v h
theorem canonical_bool (v : Val) (h : hasTy v tBool = true) : ∃ b, v = .bool b := canon_bool v h
theorem canonical_string (v : Val) (h : hasTy v tStr = true) : ∃ s, v = .str s := canon_str v h

/-- `[]` has type `List<NoValue>`, which is below every `List<T>` (C14's bottom + covariance), so
an empty list passes the annotation check of any list-typed parameter. -/
theorem empty_list_passes (T : Ty) : Ty.sub (typeOf (.list [])) (tList T) = true := by
  simp [typeOf, typeOfLast, tList, Ty.sub, Ty.subAll, sub_noValue]

example : hasTy (.list [.some (.int 1), .none]) (tList (tOption tInt)) = true := by
  simp [hasTy, hasTyAll, tList, tOption, tInt, isNamed]

/-- Soundness of the checker on straight-line blocks (see the header). `ResOK ret T Γ' r`:
`r` is a value of type `T` in an environment typed by `Γ'`, or a `return` of a value of type
`ret`, or a non-type error, or a timeout. -/
theorem check_sound_exprs_partial (P : Program) (d : Nat) (es : List TExpr) (ret : Ty) (exp : Option Ty)
    (Γ Γ' : Blocks Ty) (ρ : Blocks Val) (T : Ty)
    (hfrag : slL P d es = true)
    (hcheck : tcSeq P ret exp Γ es = (T, Γ', []))
    (hexp : ∀ E, exp = some E → good E = true) (hret : good ret = true)
    (henv : envOK Γ ρ) :
    ∀ fuel, ResOK ret T Γ' (evalSeq P fuel ρ es) :=
  fun fuel => (sound_sl P fuel).2 d es ret exp Γ ρ T Γ' hfrag hcheck hexp hret henv

/-- … in particular the outcome is never one of C16's type errors. -/
theorem check_sound_exprs_no_type_error (P : Program) (d : Nat) (es : List TExpr) (ret : Ty) (exp : Option Ty)
    (Γ Γ' : Blocks Ty) (ρ : Blocks Val) (T : Ty)
    (hfrag : slL P d es = true)
    (hcheck : tcSeq P ret exp Γ es = (T, Γ', []))
    (hexp : ∀ E, exp = some E → good E = true) (hret : good ret = true)
    (henv : envOK Γ ρ) (fuel : Nat) (e : RErr)
    (h : evalSeq P fuel ρ es = .err e) : e.isTypeError = false := by
  have := check_sound_exprs_partial P d es ret exp Γ Γ' ρ T hfrag hcheck hexp hret henv fuel
  rw [h] at this
  simpa [ResOK] using this

-- a concrete block satisfying the hypotheses: `let x: Int = 1 + 2`, `let s = "a" ^ "b"`, `x < 3`
example : slL { funs := [], top := [] } 10
    [.letE "x" (some .int) (.binop .add (.int 1) (.int 2)),
     .letE "s" none (.binop .concat (.str "a") (.str "b")),
     .binop .lt (.var "x") (.int 3)] = true := by
  simp [slL, slE, isGlobalName, isValueGlobal, findFun, reservedNames]

/-- Program level: straight-line toplevel expressions of a program that `check` accepts never
end in a type error. -/
theorem check_sound_toplevel_partial (P : Program) (d : Nat)
    (hfrag : ∀ e ∈ P.top, slE P d e = true) (hcheck : check P = []) :
    ∀ fuel, (run fuel P).isTypeError = false := by
  intro fuel
  have hc : checkTop P [[]] P.top = [] := by
    unfold check at hcheck
    exact (List.append_eq_nil_iff.mp hcheck).2
  have key : ∀ (es : List TExpr) (Γ : Blocks Ty) (ρ : Blocks Val), (∀ e ∈ es, slE P d e = true) →
      checkTop P Γ es = [] → envOK Γ ρ → (runTop P fuel ρ es).isTypeError = false := by
    intro es
    induction es with
    | nil => intros; simp [runTop, Outcome.isTypeError]
    | cons e rest ih =>
      intro Γ ρ hs hck henv
      simp only [checkTop] at hck
      cases h1 : tcExpr P .any none Γ e with
      | mk T1 r1 =>
      cases r1 with
      | mk Γ1 d1 =>
      rw [h1] at hck
      simp at hck
      obtain ⟨hd1, _, hrest⟩ := hck
      subst hd1
      have hres := (sound_sl P fuel).1 d e .any none Γ ρ T1 Γ1 (hs e (by simp)) h1 (by simp)
        (by simp [good]) henv
      simp only [runTop]
      cases hev : eval P fuel ρ e with
      | val v ρ1 =>
        rw [hev] at hres
        simp [ResOK] at hres
        exact ih Γ1 ρ1 (fun e' he' => hs e' (by simp [he'])) hrest hres.2
      | ret v => simp [Outcome.isTypeError]
      | brk ρ1 => rw [hev] at hres; simp [ResOK] at hres
      | cont ρ1 => rw [hev] at hres; simp [ResOK] at hres
      | err er => rw [hev] at hres; simp [ResOK] at hres; simp [Outcome.isTypeError, hres]
      | timeout => simp [Outcome.isTypeError]
  exact key P.top [[]] [[]] hfrag hc (by simp [envOK, blockOK])

end C16
