import GardenVerif.Lemmas.Types
/-!
# C15 — Inferred types of lists and branches cover every element

Statements over the models `Ty.unify` / `Ty.unifyAll` of `unify` / `unify_all`
(src/checks/type_checker.rs:2944-3017). Every place where the checker combines
types (list / dict literal elements, if/else, try/catch, match arms) goes
through these two functions.
-/
set_option linter.unusedVariables false

namespace C15

/-- The combined type of two types is a supertype of both (all types, no
hypotheses). -/
theorem unify_upper (a b c : Ty) (h : Ty.unify a b = some c) :
    Ty.sub a c = true ∧ Ty.sub b c = true := Ty.unify_upper a b c h

/-- Combining a type with itself returns that type. -/
theorem unify_idem (a : Ty) : Ty.unify a a = some a := Ty.unify_self a

/-- The combined type of a whole list is a supertype of every element, for
well-formed error-free element types (transitivity, C14, is what carries the
early elements up to the final type). -/
theorem unify_all_upper (sig : String → Nat) (hnv : sig "NoValue" = 0) (ts : List Ty) (c : Ty)
    (hts : ∀ t ∈ ts, Ty.wf sig t = true ∧ Ty.noErr t = true)
    (h : Ty.unifyAll ts = .ok c) : ∀ t ∈ ts, Ty.sub t c = true :=
  (Ty.unifyAllFrom_upper sig ts Ty.noValue c 0 h
    (by simp [Ty.noValue, Ty.wf, Ty.wfList, hnv]) (by simp [Ty.noValue, Ty.noErr, Ty.noErrList]) hts).2.1

/-- Combining `n ≥ 1` copies of the same type returns that type. -/
theorem unify_all_equal (a : Ty) (n : Nat) :
    Ty.unifyAll (List.replicate (n + 1) a) = .ok a := by
  have h0 : Ty.unify Ty.noValue a = some a := by
    unfold Ty.unify
    cases a <;> simp [Ty.noValue, Ty.isAny, Ty.isNoValue, Ty.isErr]
  simp [Ty.unifyAll, List.replicate, Ty.unifyAllFrom, h0, Ty.unifyAllFrom_replicate]

-- Non-vacuity: a concrete list whose elements differ and whose join is non-trivial:
-- [List<NoValue>, List<Int>] combines to List<Int>.
example :
    let i := Ty.user .struct "Int" []
    Ty.unifyAll [.user .struct "List" [Ty.noValue], .user .struct "List" [i]]
      = .ok (.user .struct "List" [i]) := by
  simp [Ty.unifyAll, Ty.unifyAllFrom, Ty.unify, Ty.unifyArgs, Ty.beq, Ty.beqList, Ty.noValue,
    Ty.isAny, Ty.isNoValue, Ty.isErr]

end C15
