import GardenVerif.Lemmas.Session
/-!
# C09 — The JSON session answers every request and never dies

Statements over the session model M6 (`Session.handle`, Model/Session.lean: `handle_request` +
`handle_request_in_worker` + `handle_run_request` + `run_command` + `eval`, on top of the evaluator
model M4), for /repo HEAD (`Cfg.patched`, which contains the `session-fix-*` commits).

Outcomes of handling one request: `ok` (the session keeps serving), `sessionPanic` (a panic site of
json_session.rs / commands.rs / env.rs), `evalPanic` (a panic site inside `eval`, i.e. a
`Machine.step` panic), `outOfFuel`, `exit` (`:quit`), `unsupported` (outside the model).

FULL STATEMENT (not proved):
  `SessionInv st → (handle fuel st req).responses.length = 1 ∧ ¬ isPanic (handle fuel st req)`
  with `SessionInv` preserved.
PROVED (`one_response_per_request_partial`, `session_run_partial`): the same with `isPanic`
replaced by `isSessionPanic` and the response count under the DECIDABLE hypothesis that the
request ended `ok` — i.e. every request that does not make the evaluator itself panic (and whose
user code terminates within the fuel) gets exactly one response, no `expect` / `unwrap` / index of the
session layer can fail in any state, the invariant is preserved, by induction over histories of any
length. What is missing for the full statement is exactly evaluator safety for M4 (property C02: a
value-stack / binding-block discipline invariant of `Machine.step`) AND its preservation by `:skip`
and `:replace`, which is FALSE on the code as it is: see the witnesses
`skip_breaks_value_discipline` and `replace_breaks_value_discipline` (known findings
C09/skip-value-discipline, C09/replace-value-discipline). The session-layer defects repaired by those commits
are witnessed on `Cfg.pinned` = HEAD with them reverted (`pinned_*`); the if/match stale-continuation
defect was repaired inside the evaluator (`Machine.dispatch`) and is covered by C07.
-/
set_option linter.unusedVariables false
set_option linter.unusedSimpArgs false
namespace C09
open Machine Session

/-- The session invariant every `unwrap` / `expect` / index of the session layer needs: the call
stack is never empty. -/
def SessionInv (st : Session.State) : Prop := NE st.m

/-- (T) Every command of the regenerated table `Tables.replCommands` (src/commands.rs
`Command::from_string`) has a constructor in the model: a command added to the Rust breaks this
theorem until it is modelled. -/
theorem commands_covered :
    Tables.replCommands.all (fun r => (Cmd.ofVariant r.variant none none).isSome) = true := by
  decide

/-- … and the model's constructors are named after the table's variants. -/
theorem command_variants_roundtrip (c : Cmd) :
    ∃ a i, (Cmd.ofVariant c.variant a i).map Cmd.variant = some c.variant := by
  cases c <;> exact ⟨none, none, rfl⟩

theorem handleCommand_good (fuel : Nat) (st : Session.State) (id : Option Nat) (c : Cmd)
    (h : NE st.m) : Good (handleCommand Cfg.patched fuel st id c) := by
  have hne := h
  unfold NE at hne
  cases c
  case abort => exact good_cmdResp _ _ _ (popToToplevel_ne _ _ h)
  case resume => exact good_evalToResponse _ _ _ h
  case skip =>
    simp only [handleCommand]
    split
    · rename_i hf; exact absurd hf hne
    · split
      · simpa [Cfg.patched] using good_cmdResp st id "nothing-to-skip" h
      · exact good_evalToResponse _ _ _ (by simp [NE])
  case replace e =>
    cases e with
    | none => exact good_cmdResp _ _ _ h
    | some e =>
      simp only [handleCommand]
      split
      · rename_i hf; exact absurd hf hne
      · simp only [Cfg.patched, Bool.true_and]
        split
        · exact good_cmdResp _ _ _ h
        · exact good_evalToResponse _ _ _ (by simp [NE])
  case test name =>
    cases name with
    | none => exact good_cmdResp _ _ _ h
    | some name =>
      simp only [handleCommand]
      split
      · exact good_respond _ _ h
      · exact good_evalToResponse _ _ _ (by simp [NE])
  case type_ e =>
    cases e with
    | none => exact good_cmdResp _ _ _ h
    | some e =>
      simp only [handleCommand]
      obtain ⟨m, hm⟩ := setTopExprs_some st.m [e] hne
      simp only [hm]
      have hm' := setTopExprs_ne _ _ _ hm
      have he := eval_ne Cfg.patched fuel m hm'
      split
      · rename_i m' v hr; exact good_cmdResp _ _ _ (he m' (by rw [hr]; rfl))
      · rename_i m' e' hr; exact good_cmdResp _ _ _ (he m' (by rw [hr]; rfl))
      · exact good_die _ _ (by simp) (by simp)
      · exact good_die _ _ (by simp) (by simp)
      · exact good_die _ _ (by simp) (by simp)
  case forget name =>
    cases name with
    | none => exact good_cmdResp _ _ _ h
    | some name =>
      simp only [handleCommand]
      split
      · exact good_cmdResp _ _ _ h
      · split
        · exact good_die _ _ (by simp) (by simp)
        · exact good_cmdResp _ _ _ h
  case forgetLocal name =>
    cases name with
    | none => exact good_cmdResp _ _ _ h
    | some name =>
      simp only [handleCommand]
      split
      · rename_i hf; exact absurd hf hne
      · split
        · exact good_cmdResp _ _ _ (by simp [NE])
        · exact good_cmdResp _ _ _ h
  case locals =>
    simp only [handleCommand]
    split <;> exact good_cmdResp _ _ _ h
  case stack => exact good_cmdResp _ _ _ h
  case namespace_ arg =>
    cases arg <;> simp only [handleCommand] <;> (try split) <;>
      first
      | exact good_cmdResp _ _ _ h
      | exact good_die _ _ (by simp) (by simp)
      | (rename_i hf; exact absurd hf hne)
  case load arg =>
    cases arg
    · exact good_cmdResp _ _ _ h
    · exact good_die _ _ (by simp) (by simp)
  case trace => exact good_die _ _ (by simp) (by simp)
  case quit => exact good_die _ _ (by simp) (by simp)
  all_goals exact good_cmdResp _ _ _ h

theorem handleSource_good (fuel : Nat) (st : Session.State) (id : Option Nat) (items : List Item)
    (h : NE st.m) : Good (handleSource Cfg.patched fuel st id items) := by
  have hne := h
  unfold NE at hne
  unfold handleSource
  split
  · exact good_die _ _ (by simp) (by simp)
  · split
    · rename_i hf; exact absurd hf hne
    · simp only
      have hst : NE ({ st with m := { st.m with prog := loadDefs st.m.prog items },
                               tests := (itemTests items).foldl addTest st.tests } : Session.State).m := h
      have ht := runTests_good Cfg.patched fuel id (itemTests items) _ hst
      split
      · rename_i r hr; exact ht.2 r hr
      · rename_i st' hr
        have hst' : NE st'.m := ht.1 st' hr
        split
        · obtain ⟨n, hn⟩ := topName_some st'.m hst'
          simp only [hn]; exact good_respond _ _ hst'
        · rename_i last hl
          have hne' : ({ st'.m with stopAt := some last.id } : Machine.State).frames ≠ [] := hst'
          obtain ⟨m, hm⟩ := setTopExprs_some _ (itemExprs items) hne'
          simp only [hm]
          have hm' := setTopExprs_ne _ _ _ hm
          have he := eval_ne Cfg.patched fuel m hm'
          split
          · rename_i m' v hr
            have hx : NE ({ m' with stopAt := st'.m.stopAt } : Machine.State) := he m' (by rw [hr]; rfl)
            obtain ⟨n, hn⟩ := topName_some _ hx
            simp only [hn]; exact good_respond _ _ hx
          · rename_i m' e' hr
            exact good_errToResponse _ _ _ _ (he m' (by rw [hr]; rfl))
          · exact good_die _ _ (by simp) (by simp)
          · exact good_die _ _ (by simp) (by simp)
          · exact good_die _ _ (by simp) (by simp)

/-- Every request, in every state satisfying the invariant. -/
theorem handle_good (fuel : Nat) (st : Session.State) (req : Req) (h : SessionInv st) :
    Good (handle Cfg.patched fuel st req) := by
  have h0 : NE ({ st with m := { st.m with out := "" } } : Session.State).m := h
  unfold handle
  cases req with
  | interrupt => exact good_respond _ _ h0
  | malformed => exact good_respond _ _ h0
  | other w => exact good_die _ _ (by simp) (by simp)
  | run id input items inline =>
    simp only [handleRun]
    split
    · split
      · exact handleCommand_good _ _ _ _ h0
      · exact good_die _ _ (by simp) (by simp)
    · exact good_cmdResp _ _ _ h0
    · split
      · rename_i hf; exact absurd hf h0
      · split
        · exact good_respond _ _ h0
        · exact handleSource_good _ _ _ _ h0

/-- **One response per request, no panic in the session layer, invariant preserved** — for every
request (any command, with or without argument, any source, malformed input, interrupt) in every
session state reachable or not, provided only that the call stack is non-empty.
(`_partial`: see the header — a panic INSIDE `eval` is a separate outcome.) -/
theorem one_response_per_request_partial (fuel : Nat) (st : Session.State) (req : Req)
    (h : SessionInv st) :
    (handle Cfg.patched fuel st req).isSessionPanic = false ∧
    ((handle Cfg.patched fuel st req).outcome = .ok →
      (handle Cfg.patched fuel st req).responses.length = 1 ∧
      SessionInv (handle Cfg.patched fuel st req).state) := by
  have := handle_good fuel st req h
  exact ⟨this.2, this.1⟩

/-- No outcome other than `ok` ever produces a response, and a non-`ok` outcome of the patched
session is never a session-layer panic: the process can only stop answering through the evaluator
(`evalPanic`), user code that does not terminate (`outOfFuel`), `:quit`, or by leaving the model. -/
theorem stops_only_through_evaluator (fuel : Nat) (st : Session.State) (req : Req)
    (h : SessionInv st) (s : String) :
    (handle Cfg.patched fuel st req).outcome ≠ .sessionPanic s := by
  have := (handle_good fuel st req h).2
  intro hc
  simp [Result.isSessionPanic, hc] at this

/-- **Histories of any length**: as many responses as requests, in request order (`run`
concatenates the per-request responses), and never a session-layer panic. -/
theorem session_run_partial (fuel : Nat) : ∀ (reqs : List Req) (st : Session.State), SessionInv st →
    (∀ s, (run Cfg.patched fuel st reqs).outcome ≠ .sessionPanic s) ∧
    ((run Cfg.patched fuel st reqs).outcome = .ok →
      (run Cfg.patched fuel st reqs).responses.length = reqs.length ∧
      SessionInv (run Cfg.patched fuel st reqs).state)
  | [], st, h => by simp [run, h]
  | r :: rest, st, h => by
    have hg := handle_good fuel st r h
    unfold run
    simp only
    cases ho : (handle Cfg.patched fuel st r).outcome with
    | ok =>
      simp only
      have h1 := hg.1 ho
      have ih := session_run_partial fuel rest _ h1.2
      refine ⟨ih.1, fun hok => ?_⟩
      have := ih.2 hok
      simp [h1.1, this.1, this.2]; omega
    | sessionPanic s =>
      have := hg.2; simp [Result.isSessionPanic, ho] at this
    | evalPanic s => simp
    | outOfFuel => simp
    | exit => simp
    | unsupported w => simp

/-- The fresh session satisfies the invariant (non-vacuity of the hypothesis). -/
theorem fresh_inv : SessionInv Session.fresh := by
  simp [SessionInv, NE, Session.fresh, Session.freshWith]

-- ---------------------------------------------------------------- witnesses

def rq (input : String) (items : Option (List Item)) (inline : Option Expr := none) : Req :=
  .run none input items inline

def nosuch1 : Expr := .var 0 true "nosuch1"
def nosuch2 : Expr := .var 1 true "nosuch2"
def sumE : Expr := .binop 2 true .add nosuch1 nosuch2

/-- Before the fix: `:skip` with nothing pending hits `expect` (json_session.rs:629) — a session-layer panic.
The patched session answers it. -/
theorem pinned_skip_idle_panics :
    (handle Cfg.pinned 100 Session.fresh (rq ":skip" none)).isSessionPanic = true ∧
    (handle Cfg.patched 100 Session.fresh (rq ":skip" none)).responses.length = 1 := by
  decide

/-- Known finding C09/skip-value-discipline (also on the patched code): `nosuch1 + nosuch2`,
`:skip`, `:skip` — the second skip drops a value producer and the `+` underflows the value
stack: the evaluator panics, the session dies. -/
theorem skip_breaks_value_discipline :
    (run Cfg.patched 100 Session.fresh
      [rq "nosuch1 + nosuch2" (some [.expr sumE]), rq ":skip" none, rq ":skip" none]).outcome
      = .evalPanic "Popped an empty value stack for binary operator" := by
  decide

def forE1 : Expr :=
  .forE 10 true (.sym "x") (.list 11 true [.int 12 true 1, .int 13 true 2]) [.var 14 false "nosuchf"]

/-- Known finding C09/replace-value-discipline (patched code, no `:skip` involved):
`for x in [1, 2] { nosuchf }` stops in the loop body with the loop's index and list on the value
stack; two `:replace` with failing expressions pop both; after defining the missing names,
`:resume` lets the `for` continuation pop two unrelated values: the evaluator panics
(eval.rs "`for` loop index should always be an `Int`"), the session dies. -/
theorem replace_breaks_value_discipline :
    (run Cfg.patched 100 Session.fresh
      [rq "for x in [1, 2] { nosuchf }" (some [.expr forE1]),
       rq ":replace nosuch3" none (some (.var 20 true "nosuch3")),
       rq ":replace nosuch4" none (some (.var 21 true "nosuch4")),
       rq "fun nosuchf() {} fun nosuch3() {} fun nosuch4() {}"
         (some [.funD ⟨"nosuchf", [], []⟩, .funD ⟨"nosuch3", [], []⟩, .funD ⟨"nosuch4", [], []⟩]),
       rq ":resume" none]).outcome
      = .evalPanic "`for` loop index should always be an `Int`" := by
  decide

/-- Before the fix: `:replace 5` with nothing pending pops the toplevel frame's placeholder value; a later
`:type continue` finds the value stack empty (eval.rs "Should have a value from the last
expression"). The patched `:replace` refuses and keeps the placeholder. -/
theorem pinned_replace_pops_base :
    (run Cfg.pinned 100 Session.fresh
      [rq ":replace 5" none (some (.int 1 true 5)), rq ":type continue" none (some (.cont 2 true))]).outcome
      = .evalPanic "Should have a value from the last expression" ∧
    (run Cfg.patched 100 Session.fresh
      [rq ":replace 5" none (some (.int 1 true 5)), rq ":type continue" none (some (.cont 2 true))]).outcome
      = .ok := by
  decide

end C09
