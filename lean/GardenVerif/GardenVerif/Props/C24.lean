import GardenVerif.Model.Sandbox
/-!
# C24 — Sandboxed code cannot touch files, processes or stdin

Property: when code runs in sandboxed mode (`playground-run`, `sandboxed-test`), no program can
create, modify, delete or read files through the filesystem API, start processes, or read standard
input; each such attempt ends the evaluation with the "unsafe code in sandboxed mode" error before
any effect happens.

Statements are over the model `Sandbox.runArm` / `Sandbox.runCalls` (Model/Sandbox.lean) and over
the tables `Tables.builtinArms`, `Tables.sandboxConfigs`, `Tables.sandboxFlagWrites`, which
tools/extract_tables.py regenerates from src/eval.rs, src/sandboxed_playground.rs,
src/test_runner.rs on every run — so a new unguarded arm, a guard moved below an argument check or
a cleared flag breaks `sandbox_gates_effects` / `configs_enable_sandbox` by itself.

Scope (stated, not proved): "effects" are the std calls the translator recognises (files,
directories, metadata queries, processes, stdin, network, process cwd/env mutation, `unsafe`); the
evaluator reaches them only through the two dispatch functions. `import "x.gdn"` reads the imported
file with `std::fs::read` in `read_src` (`Tables.otherEffectSites`) with no sandbox check: that is
module loading, not the filesystem API of the property, and is reported by the harness as an
observation.
-/
set_option linter.unusedVariables false

namespace C24
open Sandbox Tables

/-- Every arm of the built-in dispatch that contains an OS-touching call starts with the sandbox
guard (checked on the regenerated table). -/
theorem sandbox_gates_effects :
    ∀ arm ∈ Tables.builtinArms, arm.effects ≠ [] → arm.guardFirst = true := by
  decide

/-- Both sandboxed entry points switch the flag on … -/
theorem configs_enable_sandbox : ∀ c ∈ Tables.sandboxConfigs, c.enforceSandbox = true := by
  decide

/-- … before the evaluator is first called, in a function that is reachable from the CLI … -/
theorem configs_set_before_eval :
    ∀ c ∈ Tables.sandboxConfigs, c.setBeforeEval = true ∧ c.wired = true := by
  decide

/-- … both entry points of the property are covered … -/
theorem configs_cover_entry_points :
    "playground-run" ∈ Tables.sandboxConfigs.map (·.entry) ∧
    "sandboxed-test" ∈ Tables.sandboxConfigs.map (·.entry) := by
  decide

/-- … and nothing in the source tree ever assigns anything but `true` to the flag (so it cannot be
switched off again during evaluation). -/
theorem flag_never_cleared : ∀ w ∈ Tables.sandboxFlagWrites, w.2 = "true" := by
  decide

/-- A sound body makes no OS-touching call in an arm that contains none. -/
theorem body_nil_of_effects_nil (body : Body) (hb : body.sound) (arm : BuiltinArm) (args : List Val)
    (h : arm.effects = []) : body arm args = [] := by
  apply List.eq_nil_iff_forall_not_mem.mpr
  intro e he
  have := hb arm args e he
  simp [h] at this

/-- An effectful built-in called in sandboxed mode is refused, for all arguments and whatever its
body would have done (no assumption on `body` at all). -/
theorem sandboxed_effectful_forbidden (body : Body) (arm : BuiltinArm) (h : arm ∈ Tables.builtinArms)
    (args : List Val) (he : arm.effects ≠ []) : runArm body true arm args = .forbidden := by
  simp [runArm, sandbox_gates_effects arm h he]

/-- One sandboxed built-in call either ends the evaluation with `ForbiddenInSandbox` or makes no
OS-touching call — for every arm of the dispatch and all arguments. -/
theorem sandboxed_effect_free (body : Body) (hb : body.sound) :
    ∀ arm ∈ Tables.builtinArms, ∀ args,
      runArm body true arm args = .forbidden ∨ (runArm body true arm args).effects = [] := by
  intro arm h args
  by_cases he : arm.effects = []
  · right
    unfold runArm
    split
    · rfl
    · simp [Outcome.effects, body_nil_of_effects_nil body hb arm args he]
  · left
    exact sandboxed_effectful_forbidden body arm h args he

theorem lookup_mem (arms : List BuiltinArm) (m : Bool) (k : String) (arm : BuiltinArm)
    (h : lookup arms m k = some arm) : arm ∈ arms := by
  unfold lookup at h
  exact List.mem_of_find?_eq_some h

/-- A whole sandboxed evaluation — any sequence of built-in calls, i.e. any program in any
position — performs no OS-touching call. -/
theorem sandboxed_run_effect_free (body : Body) (hb : body.sound) (calls : List Call) (i : Nat) :
    (runCalls Tables.builtinArms body true calls i).1 = [] := by
  induction calls generalizing i with
  | nil => simp [runCalls]
  | cons c rest ih =>
    unfold runCalls
    split
    · rfl
    · rename_i arm hl
      have hm := lookup_mem _ _ _ _ hl
      split
      · rfl
      · rename_i es hr
        have := sandboxed_effect_free body hb arm hm c.args
        rw [hr] at this
        simp [Outcome.effects] at this
        simp [this, ih]

/-- The first call of an effectful built-in ends the evaluation with `ForbiddenInSandbox`, with
nothing done before it: if the calls before position `pre.length` are known and effect-free and
the next one is effectful, the run ends exactly there. -/
theorem first_effectful_call_ends_run (body : Body) (hb : body.sound)
    (pre : List Call) (c : Call) (post : List Call) (i : Nat)
    (hpre : ∀ p ∈ pre, p.known Tables.builtinArms = true ∧ p.effectful Tables.builtinArms = false)
    (hc : c.effectful Tables.builtinArms = true) :
    ∃ j, j ≤ i + pre.length ∧
      runCalls Tables.builtinArms body true (pre ++ c :: post) i = ([], .forbiddenAt j) := by
  induction pre generalizing i with
  | nil =>
    refine ⟨i, by simp, ?_⟩
    simp only [List.nil_append]
    unfold runCalls
    unfold Call.effectful at hc
    split
    · rename_i hl; simp [hl] at hc
    · rename_i arm hl
      simp [hl] at hc
      have hne : arm.effects ≠ [] := by
        intro h; simp [h] at hc
      rw [sandboxed_effectful_forbidden body arm (lookup_mem _ _ _ _ hl) c.args hne]
  | cons p rest ih =>
    have hp := hpre p (by simp)
    have hrest : ∀ q ∈ rest, q.known Tables.builtinArms = true ∧ q.effectful Tables.builtinArms = false :=
      fun q hq => hpre q (by simp [hq])
    obtain ⟨j, hj, hrun⟩ := ih (i + 1) hrest
    simp only [List.cons_append]
    unfold runCalls
    unfold Call.known at hp
    split
    · rename_i hl; simp [hl] at hp
    · rename_i arm hl
      split
      · -- an earlier gated call: it ends the run even sooner
        exact ⟨i, by omega, rfl⟩
      · rename_i es hr
        have hfree := sandboxed_effect_free body hb arm (lookup_mem _ _ _ _ hl) p.args
        rw [hr] at hfree
        simp [Outcome.effects] at hfree
        refine ⟨j, by simp at hj ⊢; omega, ?_⟩
        simp [hrun, hfree]

/-- The statement for the real entry points: with the flag value that `playground-run` /
`sandboxed-test` configure, no evaluation performs an OS-touching call. -/
theorem entry_points_effect_free (body : Body) (hb : body.sound) :
    ∀ c ∈ Tables.sandboxConfigs, ∀ calls,
      (runCalls Tables.builtinArms body c.enforceSandbox calls 0).1 = [] := by
  intro c hc calls
  rw [configs_enable_sandbox c hc]
  exact sandboxed_run_effect_free body hb calls 0

-- Non-vacuity -----------------------------------------------------------------------------------

/-- the table really contains effectful arms (so `sandbox_gates_effects` is not vacuous) … -/
example : (Tables.builtinArms.filter (fun a => !a.effects.isEmpty)).length ≥ 12 := by decide

/-- … outside the sandbox the model does perform them (the gate is what removes them) … -/
example : ∃ arm ∈ Tables.builtinArms, arm.name = "FsWriteFile" ∧
    (runArm Body.all false arm [.str "x", .path "/tmp/f"]).effects ≠ [] ∧
    runArm Body.all true arm [.str "x", .path "/tmp/f"] = .forbidden := by
  refine ⟨(Tables.builtinArms.find? (fun a => a.name == "FsWriteFile")).get (by decide), ?_, ?_⟩ <;> decide

/-- … and a sandboxed run `println; fs::write_file; println` stops at the second call. -/
example : runCalls Tables.builtinArms Body.all true
    [⟨false, "PreludePrintln", [.str "a"]⟩, ⟨false, "FsWriteFile", [.str "x", .path "p"]⟩,
     ⟨false, "PreludePrintln", [.str "b"]⟩] 0 = ([], .forbiddenAt 1) := by
  decide

end C24
