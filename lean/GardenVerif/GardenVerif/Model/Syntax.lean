/-!
M2 (part 1): Garden's syntax tree (`src/parser/ast.rs`) without positions, syntax ids,
interned ids and `value_is_used` flags (the flags are a function of the tree shape, computed
by the second pass `set_is_used_*`, which the parser model does not transcribe).
Commas of `ExpressionWithComma`, `arrow_pos`, paren positions: dropped (the Rust `PartialEq`
ignores them too). Import-free.

Floats are kept as the literal text with `_` removed (the model never computes with them).
-/

/-- `TypeHint { sym, args }`; the tuple hint `(A, B)` is `⟨"Tuple", [A, B]⟩` as in the Rust. -/
inductive TypeHint where
  | mk (name : String) (args : List TypeHint)
  deriving Repr, Inhabited

/-- `LetDestination`. -/
inductive LetDest where
  | sym (x : String)
  | destr (xs : List String)
  deriving Repr, Inhabited, DecidableEq

/-- `SymbolWithHint`. -/
structure Param where
  name : String
  hint : Option TypeHint
  deriving Repr, Inhabited

/-- `Pattern { variant_sym, payload }`. -/
structure Pattern where
  variant : String
  payload : Option LetDest
  deriving Repr, Inhabited

mutual
/-- `Expression_`. Binary operators and `+=`/`-=` are kept as their source text. -/
inductive Expr where
  | intLit (i : Int)
  | floatLit (text : String)
  | strLit (s : String)
  | var (x : String)
  | binop (l : Expr) (op : String) (r : Expr)
  | call (f : Expr) (args : List Expr)
  | mcall (recv : Expr) (m : String) (args : List Expr)
  | dot (recv : Expr) (f : String)
  | ns (recv : Expr) (f : String)
  | letE (d : LetDest) (h : Option TypeHint) (e : Expr)
  | assign (x : String) (e : Expr)
  | update (op : String) (x : String) (e : Expr)
  | ifE (c : Expr) (t : Block) (e : Option Block)
  | whileE (c : Expr) (b : Block)
  | forIn (d : LetDest) (e : Expr) (b : Block)
  | matchE (s : Expr) (cases : List Case)
  | tryE (b : Block) (x : String) (c : Block)
  | ret (e : Option Expr)
  | brk
  | cont
  | list (items : List Expr)
  | tuple (items : List Expr)
  | dict (items : List KV)
  | structLit (name : String) (fields : List Field)
  | lambda (f : FunInfo)
  | assertE (e : Expr)
  | paren (e : Expr)
  | invalid
/-- `Block` (only its expressions). -/
inductive Block where
  | mk (exprs : List Expr)
/-- One `match` arm. -/
inductive Case where
  | mk (pat : Pattern) (body : Block)
/-- `DictKeyValue`. -/
inductive KV where
  | mk (k : Expr) (v : Expr)
/-- One field of a struct literal. -/
inductive Field where
  | mk (name : String) (e : Expr)
/-- `FunInfo` without doc comment / name / item id (those live in the item). -/
inductive FunInfo where
  | mk (tparams : List String) (params : List Param) (ret : Option TypeHint) (body : Block)
end

instance : Inhabited Expr := ⟨.invalid⟩
instance : Inhabited Block := ⟨.mk []⟩

/-- `Expression_::is_invalid_or_placeholder`. -/
def Expr.isInvalidOrPlaceholder : Expr → Bool
  | .invalid => true
  | .var x => x == "__placeholder" || x == "__keyword_placeholder"
  | _ => false

def isPlaceholderName (x : String) : Bool :=
  x == "__placeholder" || x == "__keyword_placeholder"

structure Variant where
  name : String
  payload : Option TypeHint
  deriving Repr, Inhabited

structure StructField where
  name : String
  hint : TypeHint
  deriving Repr, Inhabited

/-- `ToplevelItem`. `pub` = `Visibility::Public`. Doc comments are not modelled (`parse_doc_comment`
reads only comments attached to tokens; the model's tokens carry none). -/
inductive Item where
  | func (pub : Bool) (name : String) (f : FunInfo)
  | method (pub : Bool) (name : String) (recv : String) (recvHint : TypeHint) (f : FunInfo)
  | test (name : String) (body : Block)
  | enum (pub : Bool) (name : String) (tparams : List String) (variants : List Variant)
  | struct (pub : Bool) (name : String) (tparams : List String) (fields : List StructField)
  | importI (path : String) (alias : Option String)
  | expr (e : Expr)
  | block (b : Block)

/-- `ToplevelItem::is_invalid_or_placeholder`. -/
def Item.isInvalidOrPlaceholder : Item → Bool
  | .func _ n _ => isPlaceholderName n
  | .method _ n _ _ _ => isPlaceholderName n
  | .test n _ => isPlaceholderName n
  | .enum _ n _ _ => isPlaceholderName n
  | .struct _ n _ _ => isPlaceholderName n
  | .expr e => e.isInvalidOrPlaceholder
  | .block _ => false
  | .importI _ _ => false
