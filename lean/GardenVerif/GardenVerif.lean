-- Root of the GardenVerif library: models, lemmas and property theorems.
import GardenVerif.Props.C14
import GardenVerif.Props.C15
