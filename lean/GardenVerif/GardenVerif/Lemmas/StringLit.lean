import GardenVerif.Model.StringLit
/-! Lemmas about the string-literal model (escape / scan / unescape). -/

namespace StringLit

/-! ### one-step equations that do not depend on the shape of the tail -/

theorem unescapeBody_plain (c : Char) (X : List Char) (h : c ≠ '\\') :
    unescapeBody (c :: X) = (c :: (unescapeBody X).1, (unescapeBody X).2) := by
  cases X with
  | nil => simp [unescapeBody, h]
  | cons d X => simp [unescapeBody, h]

theorem unescapeBody_esc_quote (X : List Char) :
    unescapeBody ('\\' :: '"' :: X) = ('"' :: (unescapeBody X).1, (unescapeBody X).2) := by
  simp [unescapeBody]

theorem unescapeBody_esc_bs (X : List Char) :
    unescapeBody ('\\' :: '\\' :: X) = ('\\' :: (unescapeBody X).1, (unescapeBody X).2) := by
  simp [unescapeBody]

theorem unescapeBody_esc_n (X : List Char) :
    unescapeBody ('\\' :: 'n' :: X) = ('\n' :: (unescapeBody X).1, (unescapeBody X).2) := by
  simp [unescapeBody]

theorem unescapeBody_escapeBody (s : List Char) : unescapeBody (escapeBody s) = (s, 0) := by
  induction s with
  | nil => simp [escapeBody, unescapeBody]
  | cons c cs ih =>
    simp only [escapeBody, escapeChar]
    split
    · subst_vars; simp [unescapeBody_esc_quote, ih]
    · split
      · subst_vars; simp [unescapeBody_esc_n, ih]
      · split
        · subst_vars; simp [unescapeBody_esc_bs, ih]
        · rename_i h1 h2 h3
          simp [unescapeBody_plain c _ h3, ih]

theorem escapeBody_append_getLast (s : List Char) :
    (escapeBody s ++ ['"']).getLast? = some '"' := by simp

theorem scanBody_plain (c : Char) (X : List Char) (h1 : c ≠ '\\') (h2 : c ≠ '"') :
    scanBody (c :: X) = 1 + scanBody X := by
  cases X with
  | nil => simp [scanBody, h2]
  | cons d X => simp [scanBody, h1, h2]

theorem scanBody_esc (d : Char) (X : List Char) (h : dot d = true) :
    scanBody ('\\' :: d :: X) = 2 + scanBody X := by
  simp [scanBody, h]

theorem scanBody_quote (X : List Char) : scanBody ('"' :: X) = 0 := by
  cases X <;> simp [scanBody]

/-- The greedy run over a printed body stops exactly at the closing quote. -/
theorem scanBody_escapeBody (s rest : List Char) :
    scanBody (escapeBody s ++ '"' :: rest) = (escapeBody s).length := by
  induction s with
  | nil => simp [escapeBody, scanBody_quote]
  | cons c cs ih =>
    simp only [escapeBody, escapeChar]
    split
    · simp [scanBody_esc _ _ (show dot '"' = true by decide), ih]; omega
    · split
      · simp [scanBody_esc _ _ (show dot 'n' = true by decide), ih]; omega
      · split
        · simp [scanBody_esc _ _ (show dot '\\' = true by decide), ih]; omega
        · rename_i h1 h2 h3
          simp [scanBody_plain c _ h3 h1, ih]; omega

theorem scanString_escape (s rest : List Char) :
    scanString (escapeStringLiteral s ++ rest) = some (escapeStringLiteral s).length := by
  have h := scanBody_escapeBody s rest
  have hd : List.drop (escapeBody s).length (escapeBody s ++ '"' :: rest) = '"' :: rest := by
    simp
  simp [scanString, escapeStringLiteral, scanWith, h, hd]

theorem take_escape (s rest : List Char) :
    List.take ((escapeBody s).length + 1) (escapeBody s ++ '"' :: rest) = escapeBody s ++ ['"'] := by
  rw [List.take_append]
  simp [List.take_of_length_le]

theorem lexString_escape (s rest : List Char) :
    lexString (escapeStringLiteral s ++ rest) = some (escapeStringLiteral s, false) := by
  have h := scanString_escape s rest
  simp only [lexString, lexStringWith]
  simp only [scanString] at h
  rw [h]
  have hl : ('"' :: (escapeBody s ++ ['"'])).getLast? = some '"' := by
    rw [List.getLast?_cons]; simp
  simp [escapeStringLiteral, take_escape, hl]

theorem unescapeString_escape (s : List Char) :
    unescapeString (escapeStringLiteral s) = some (s, 0) := by
  simp [unescapeString, escapeStringLiteral, isOneByte, unescapeBody_escapeBody]

end StringLit
