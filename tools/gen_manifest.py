#!/usr/bin/env python3
"""Writes /verif/MANIFEST.json from the per-property table below."""
import json
import os

ROOT = os.path.dirname(os.path.dirname(os.path.abspath(__file__)))

TB = ("Trusted: Lean 4.33.0 kernel; axioms propext, Classical.choice, Quot.sound only (audited by #print axioms "
      "on every run); the hand-written model is tied to /repo only by the correspondence run; harness + "
      "`garden verif` hook report what the implementation did. ")

CLAIMED = {
    "C14": dict(
        category="proof",
        technique="Lean 4 proof (mutual structural induction) over a model of is_subtype + differential correspondence via hook",
        text="Proved for all types, no bound: reflexivity; transitivity on arity-well-formed error-free types; Any top; "
             "NoValue bottom; tuple/user-defined covariance and function contra/co-variance as iff-characterisations "
             "(Props/C14.lean). The model Ty.sub is compared with the real is_subtype on ~90k pairs per quick run "
             "(exhaustive depth<=1 families, structural near-miss mutations, malformed stream), and the real function "
             "is judged directly: reflexivity, all triples of a 200-type pool for transitivity, and a one-step-rule "
             "oracle (its answer must equal the documented rule applied to its own answers on components).",
        note=TB + "Type::Error payload and symbol positions are not modelled (never read by is_subtype).",
        design="§7 C14"),
    "C15": dict(
        category="proof",
        technique="Lean 4 proof over a model of unify/unify_all (uses C14 transitivity) + differential correspondence via hook + program-level oracle at the checker's combination points",
        text="Proved for all types: unify(a,b)=Some c implies a<:c and b<:c; unify(a,a)=Some a; unify_all of n>=1 copies "
             "of a is a; unify_all(ts)=Ok c implies every t in ts is <: c for well-formed error-free ts. Model compared "
             "with the real unify/unify_all on ~40k pairs/lists per quick run; the real results are also judged by the "
             "real is_subtype (upper bound, idempotence) without the model.",
        note=TB + "Call sites of unify/unify_all in the checker (list/dict literals, if, try, match) are not modelled: the "
             "theorem is about the two combining functions every such site goes through. The sites themselves are judged "
             "per input: for every ordered pair of 11 typed expressions and each of if/else, match over variants, match "
             "with a `_` arm (either position) and list literal, a program passes the combined value where only one "
             "arm's type is allowed and runs every arm: an accepted program must not raise a type error (a combined type "
             "that does not cover an arm shows as exactly that). try/catch and dict literals are not exercised.",
        design="§7 C15"),

    "C04": dict(
        category="proof",
        technique="Lean 4 proof over a hand-written Int64 model of eval_int_binop/eval_assign_update + CLI correspondence + big-int oracle",
        text="Full for integers: for all a b : Int64, + - * wrap (two's complement), / is truncated division or a Garden "
             "exception (b = 0, MIN / -1), % is the Euclidean remainder or an exception, ** is exact iff 0 <= n <= u32::MAX and "
             "representable else an exception, comparisons are the integer order, += / -= equal x = x +/- e, and no operator "
             "has a panic outcome (Props/C04.lean, 30 theorems). Floats: control logic only (type errors, /. by +-0.0 raises). "
             "Every quick run compares the model with `garden run -c` on a 40-value boundary set squared x every operator "
             "(~27k cases) and judges the binary with an independent Python big-int / IEEE reference.",
        note=TB + "core::i64 checked_pow / checked_div / checked_rem_euclid / wrapping_* are modelled by their documented contracts; "
             "IEEE results are compared, not reasoned about. Two stricter-than-documented exception cases (MIN % -1, 1 ** 2^32) "
             "are stated as theorems and listed as known findings. The model is of the tree with the div-overflow and += fixes.",
        design="§7 C04"),
    "C08": dict(
        category="proof",
        technique="Lean 4 proof (simulation + induction on fuel and remaining schedule) over the machine model M4 + per-tick trace correspondence with interrupt injection",
        text="Proved on the machine model for every program, every interrupt schedule (flag set before any step, any list of "
             "ticks, consecutive interrupts, any number of resumptions) in a session without a tick limit: an interrupted step "
             "only increments the tick counter and clears the flag (interrupt_is_stutter: the popped entry is pushed back, no "
             "value touched, nothing printed), and the resumed run ends with the same result/error, the same output log and the "
             "same final frames as the uninterrupted run (run_sim, interrupts_unobservable). The model machine is compared "
             "tick-by-tick with the real evaluator (hook H2/H3) on generated programs x EVERY single interrupt position plus "
             "random multi-interrupt schedules; the binary is also judged directly (same output/outcome, trace minus stutter "
             "lines = uninterrupted trace), and a sample runs through a real JSON session with :resume.",
        note=TB + "With a tick limit the statement is false (an interrupt consumes a tick), so tickLimit = none is a hypothesis. "
             "Interrupt delivery is modelled as the flag being set before a step's check. Fragment: ints, strings, lists, "
             "tuples, enums, let/assign, if, while, for, match, break/continue/return, functions, closures, print built-ins; "
             "floats, dicts, structs, methods, try are outside the model (programs using them are skipped).",
        design="§7 C08"),
    "C12": dict(
        category="proof",
        technique="Lean 4 proof over models of escape/unescape, the STRING_RE scanner and Value::display with a literal reader + hook/CLI correspondence + print-reparse-reprint oracle",
        text="Proved for all strings and all literal values (unbounded): unescape_string(escape_string_literal(s)) = (s, no "
             "diagnostics); the (repaired) string regex scans exactly the printed literal whatever follows; the model reader "
             "(lexer token classes + literal grammar + evaluation) applied to display v returns v for ints, strings, lists, "
             "tuples, dicts, enum values and structs of any nesting, floats under the FloatRepr assumption. Correspondence: "
             "escape/unescape/lex hook ops exhaustively on strings of length <= 4 over a 10-character alphabet, string_repr on "
             "nested values; oracle: the printed text is run again and must print identically and compare == to the original.",
        note=TB + "Float printing/parsing is Rust std, assumed via FloatRepr and sampled. Non-finite floats print as inf.0/NaN.0 "
             "(outside the property). The regex engine's leftmost-first semantics are tied by exhaustive correspondence, not "
             "proved. Holds with the STRING_RE fix; Lean counterexample for the pinned regex is kept.",
        design="§7 C12"),
    "C13": dict(
        category="proof",
        technique="Lean 4 proof (mutual structural induction over a nested LitValue) over a transcription of PartialEq for Value_ + CLI correspondence",
        text="Full: valueEq a b = true iff a = b for all literal values of any size and depth (floats by bit pattern = printed "
             "form for finite floats); != is the negation; reflexive, symmetric, transitive. Every ordered pair of a 64-value "
             "pool (all 8 value kinds, depth <= 3, operands built separately) is run through `garden run -c` and compared with "
             "the model and with structural equality of the generator's trees; relation laws are checked on the observed relation.",
        note=TB + "rpds map equality assumed extensional (dicts in canonical sorted form); runtime types computed by a "
             "transcription of enum/struct literal evaluation. Model = tree with the Float/Dict equality fix.",
        design="§7 C13"),
    "C23": dict(
        category="proof",
        technique="Lean 4 proof over the lexer model M1 and Position::merge + lex-op correspondence + position oracle over lex/astpos/check/run",
        text="Proved for every source text: every token, comment and lex-error position is consistent (offsets on character "
             "boundaries inside the file, line = newlines before the offset, column = bytes since the line start, same for the "
             "end), and merge / merge_token of consistent positions is consistent, so every parser-built position is. "
             "Correspondence: the real lexer vs the model on ~40k texts (exhaustive short strings, non-ASCII, multi-line). "
             "Direct oracle: ~430k positions reported by lex, every AST node (astpos hook), check diagnostics and fixes, "
             "check --json and runtime exceptions are recomputed from the text in Python.",
        note=TB + "Hand-built positions in src/checks/*.rs and runtime/JSON/LSP positions are covered by the oracle only; "
             "JSON-session and go-to-definition positions are not probed. LinePositions' binary search is modelled as a linear "
             "search. Holds with the three position fixes (token end line, non-ASCII advance, autofix positions).",
        design="§7 C23"),
    "C29": dict(
        category="proof",
        technique="Lean 4 proof over a transcription of the four lsp.rs position functions and the LSP-spec edit semantics + exhaustive hook correspondence + real-server differential test",
        text="Proved for all documents shorter than 2^32 bytes: offset -> (line, UTF-16 column) -> offset is the identity on "
             "every character-boundary offset; the conversion panics exactly off a boundary strictly inside the document; "
             "positions are injective; whole_document_range covers exactly 0..len; under NoBareCR an edit built from byte "
             "offsets, applied as the LSP specification defines, replaces exactly those bytes. Correspondence: exhaustive over "
             "documents of length <= 4 over {a, e-acute, euro, emoji, CR, LF} x all offsets (incl. non-boundary: panic matched) "
             "plus random documents; the real server's formatting/rename/code-action edits are applied by an independent "
             "spec-conforming applier and compared with the CLI refactorings.",
        note=TB + "The edit statement needs NoBareCR (shown necessary by witness; bare CR is known finding C29/bare-CR-line-model). "
             "str::lines/find/rfind modelled from the Rust library documentation.",
        design="§7 C29"),
    "C30": dict(
        category="proof",
        technique="Lean 4 inductive invariant over all interleavings of an LTS model of nrepl.rs + trace-inclusion correspondence of real TCP traces under forced delays (hook H4)",
        text="Proved on the labelled transition system M10 (reader, per-session worker, flusher, response queue, shared flag; "
             "steps at the granularity of the Rust's lock/atomic/channel operations) by Inv init and Inv preserved by every "
             "step, with no bound on steps, requests, sessions or output: per request id, produced = delivered ++ in-flight ++ "
             "buffered per stream; at most one done and nothing with that id after it; done r in the queue implies flusher "
             "exited and nothing in flight (all output before done); sessions do not change each other's definitions. "
             "Real `garden nrepl` traces over TCP under 16 forced schedules x scripts must be accepted by the model and satisfy "
             "the raw-trace oracle (one done, last, output complete and in order, isolation).",
        note=TB + "Safety only: that done is eventually sent needs the eval to terminate (C02/C25) and fair scheduling. mpsc FIFO "
             "order and join happens-before are assumptions. Ids are assumed unique per connection. SIGINT, connection "
             "teardown and worker panics are not modelled.",
        design="§7 C30, Appendix C"),
    "C31": dict(
        category="proof",
        technique="Lean 4 proofs on the same LTS model M10 + deterministic interrupt/close probes against the real server (hook H4 delays)",
        text="Proved on M10: an interrupt or close handled while request r is executing (between its flag reset and its last "
             "flag test) leaves r armed until it ends with status interrupted, along every continuation "
             "(interrupt_hits_running, close_stops_partial); from a clear flag and with no interrupt/close for the session the "
             "worker never reads a set flag (idle_interrupt_harmless, worker-state strength); later requests to a closed "
             "session get unknown-session. Probes on the real server: idle interrupt then long eval, infinite loop + interrupt "
             "after first output, interrupt behind a second eval, close during a loop.",
        note=TB + "close_stops is partial: a request dequeued or queued but not yet reset when close arrives runs uninterruptibly "
             "(known finding C31/close-before-reset, reproduced deterministically with the H4 delay). Real scheduling is only "
             "nudged by delays.",
        design="§7 C31, Appendix C"),
    "C32": dict(
        category="proof",
        technique="Lean 4 proofs (fuel induction) over line-by-line transcriptions of src/__prelude.gdn and the eval.rs built-ins + CLI correspondence + doc-comment oracle",
        text="Proved for all arguments: each of first, last, get, len, concat, map, filter, enumerate, range, join, starts_with, "
             "ends_with, strip_prefix/suffix, contains, min, max, sort_nums (= merge sort, sorted permutation), substring (value "
             "and exactly when it raises), slice, chars, trim variants (code behaviour), index_of (leftmost occurrence), "
             "split_once, split and replace (needle non-empty: cut at leftmost occurrences, right inverse of join; empty needle "
             "handled by the guard) equals its reference and terminates within an explicit fuel bound; without the guard the "
             "loop is proved to diverge on an empty needle. ~62k calls per quick run compare the transcription with `garden "
             "run`; Python references written from the doc comments judge the binary directly.",
        note=TB + "Text is modelled at code-point level (the built-ins count chars). `lines` is only partially proved; list "
             "index_of/append are correspondence-only. Known findings: trims remove only U+0020; \"\".index_of(\"\") is None.",
        design="§7 C32"),

    "C06": dict(
        category="proof",
        technique="Lean 4 proof of an inductive balance invariant over the machine model M4 (all reachable states) + per-tick trace correspondence incl. binding-block key sets",
        text="Proved for every program and every reachable state of an error-free run of the machine model: each frame has "
             "exactly base + (number of entered-and-not-yet-left blocks) binding blocks (dispatch_bal over all node kinds and "
             "states, evalBreakLoop_spec / evalContinueLoop_spec for break/continue through any nesting, step_bal, reach_bal), "
             "hence between two statements of a frame only its base blocks exist (toplevel_scope_restored, "
             "frame_scope_restored) and a variable bound in a block that control has left - normally, by break, by continue, "
             "by return - is unbound. Correspondence: real evaluator traces (with the key set of every block) equal the "
             "model's on all nestings of {while, for, if, if/else, match} x {none, break, continue, return} and on random "
             "programs; oracle: referencing each inner variable after its block must give `No such variable`.",
        note=TB + "Runs that stop with a runtime error are outside the invariant (the state is kept for :resume). Interrupt + "
             "resume reaches the same frames (C08). Fragment as C08. Holds with the two break/continue fixes.",
        design="§7 C06"),
    "C17": dict(
        category="translation_validation",
        technique="per-input validation by a Lean-defined relation (sameTokens) on the real lexer's tokens + Lean-proved content preservation of the edit phases + parser-tree oracle",
        text="Every judged (input, formatter output) pair (~1.7k parseable programs per quick run: generated programs x "
             "whitespace/comment perturbations, repo seeds, multi-line strings, long signatures, non-ASCII) is checked by the "
             "Lean relation sameTokens evaluated on the REAL lexer's token lists and by comparing the real parser's trees and "
             "comment lists. apply_span_edits and apply_indentation_edits are proved (all inputs) to leave every token and "
             "comment byte unchanged and not to panic under edit-list preconditions (edits in gaps) that are evaluated on the "
             "real edit lists dumped by the fmt_trace hook; the exact phase models reproduce every real intermediate text.",
        note=TB + "gap_rewrite_same_tokens is stated over segmentations (that the real lexer re-segments the rendered text is "
             "decided per input). sameTokens => same parse is replaced by the per-input tree comparison (needs the parser "
             "model). Five formatter defects that changed meaning (line starting inside a string re-indented, blank lines inside a string collapsed, `Fun<(), Unit>` rendered as `Fun<Tuple, Unit>`, code after a `// args: ` comment dropped by the CLI, …) were found and fixed in /repo (known_findings.json `fixed`); no known finding remains. Inputs containing CR are judged in "
             "C18 only.",
        design="§7 C17"),
    "C18": dict(
        category="translation_validation",
        technique="per-input double formatting + `format --check` on formatter output + Lean phase-idempotence lemmas over exact phase models",
        text="Every input (~2.2k per quick run, including unparseable and damaged ones) is formatted twice through the real "
             "formatter and the second pass must change nothing; `garden format --check` must accept formatter output (CLI "
             "sample). Proved in Lean: applying no span edits is the identity; the final-newline phase is idempotent. The "
             "exact phase models are compared with the real intermediate texts of every run.",
        note=TB + "Whether the edit collectors emit no edits on formatted text is not modelled; it is decided per input. Five "
             "real non-idempotence defects on parseable programs were found and fixed in /repo (indent decided from a token "
             "column, `=` joined after line edits, wrap only after spacing, …: known_findings.json `fixed`). Remaining known "
             "findings are confined to texts with parse errors (edits computed from the recovery AST) and to lines ending "
             "in several CR characters.",
        design="§7 C18"),
    "C24": dict(
        category="proof",
        technique="Lean 4 proof over translator-extracted tables (regenerated from eval.rs on every run, decided by `decide`) + behavioural tie of the translator + effect-observing oracle",
        text="Proved for all programs (any sequence of built-in calls, all arguments) over the gating model: in sandboxed mode "
             "every effectful built-in returns ForbiddenInSandbox before inspecting arguments and no OS-touching call is made "
             "(sandboxed_run_effect_free, first_effectful_call_ends_run, entry_points_effect_free). The per-arm facts (guard is "
             "the first statement; which std calls occur) and the entry-point configuration are re-extracted from the Rust "
             "source on every run and checked by decide (sandbox_gates_effects, configs_*). Every arm is called in six "
             "positions under playground-run and sandboxed-test with a scratch-tree snapshot, PATH canaries and a stdin sentinel.",
        note=TB + "Effects are the translator's fixed pattern list; the evaluator is assumed to reach the OS only through the two "
             "dispatch functions. `import` of a local file reads it ungated (outside the filesystem API; reported). Memory, "
             "time and ambient reads (env vars, clock, tty) are not covered. Holds with the read_line fix.",
        design="§7 C24"),
    "C28": dict(
        category="proof",
        technique="Lean 4 proof over a dispatch model of handle_message/run_lsp + table tie + correspondence through reftest-lsp and the real framed server",
        text="Proved for every well-formed method table (the current one by decide), every state and every message sequence: "
             "exactly one response with the request's id per request (known or unknown method, good or bad params, broken "
             "envelope with an id), none for notifications, only `exit` stops the server, status 0 iff a shutdown preceded; over "
             "sequences the response ids equal the request ids in order (run_responses). ~300 generated sessions per quick run "
             "go through reftest-lsp and the real framed `garden lsp` (liveness probe, malformed framing) and are compared "
             "with the model; published diagnostics are compared with `garden check --json`.",
        note=TB + "Handler bodies (hover, completion, ...) are total functions in the model: their panic-freedom is the front "
             "end's (C01) and is only tested. Known findings: front-end panics / stack overflow on pathological documents kill "
             "the server.",
        design="§7 C28"),
    "C34": dict(
        category="proof",
        technique="Lean 4 proof over a model of the import loader and both visibility checks + correspondence on generated project directories",
        text="Proved with no acyclicity hypothesis: the loader terminates on every finite project (fuel |files|+1, at most "
             "|files| recursive loads); after loading, a file's exported symbols are exactly its public functions; `ns::x` "
             "resolves at run time iff the checker accepts it iff x is a public function of that file; no private function is "
             "ever in scope of another file (import_exactly_public_partial, import_only_public_in_scope). Generated projects "
             "(chains, diamonds, cycles, self-import, repeated and unqualified imports, missing files) are probed per name "
             "through `garden check --json` and `garden run` and compared with the model.",
        note=TB + "Partial: functions only. For types, methods, enum variants and unqualified imports inside a cycle the "
             "implementation does not follow the statement; these are proved as model witnesses and recorded as narrow known "
             "findings.",
        design="§7 C34"),

    "C03": dict(
        category="proof",
        technique="Lean 4 proof over a fuel-indexed model of the whole of parser.rs + exhaustive correspondence on the real lexer's tokens + tree and value oracle",
        text="Proved on the parser model M2 (fed the REAL lexer's tokens): for every operand and every list of (operator, "
             "operand) pairs of any length over all 21 operators, parse_expression returns the left fold, consumes exactly the "
             "chain and emits no diagnostics: chain_left_assoc / chain_left_assoc_whole for literal / variable / call / "
             "parenthesised operands in any token context, chain_left_assoc_all for operands of EVERY closed kind (strings, "
             "floats, method calls, dot and :: access, lists, tuples, dictionaries, struct literals, lambdas, assert, "
             "if/while/for/match/try expressions), nested to any depth; parenthesised groups stay Parentheses nodes "
             "(paren_overrides_*). No hypothesis about integer tokens: intTok_of_i64 proves that the decimal text of every i64 "
             "is classified as an integer token and read back as that value. Correspondence: all chains of 1-3 operators x 21 "
             "operators x 3 operand shapes (29k) plus random longer chains, real tree = model tree = left fold; `garden run -c` "
             "values equal the explicitly parenthesised chain and Python's left fold.",
        note=TB + "The theorems are about the parser model; the run ties the model to the real parser on the real token "
             "lists. Holds with the left-associativity fix; the pinned behaviour is kept as pinned_chain_wrong.",
        design="§7 C03"),
    "C33": dict(
        category="proof",
        technique="Lean 4 proof over the parser and printer models, all node kinds (induction over the well-formed trees, one lemma per node and item kind) + whole-grammar print -> real-parse oracle",
        text="Proved (C33.parse_print): for every list of well-formed top-level items - functions, methods, tests, enums, "
             "structs, imports, expression items, blocks, whose expressions use ANY node kind (all 27 Expr constructors other than "
             "`invalid`: literals, operators, calls, method/dot/:: access, let/assign/+=, if/else, while, for, match with "
             "patterns, try, return, break, continue, lists, tuples, dictionaries, struct literals, lambdas, assert, parentheses; "
             "type hints, type parameters, destructuring) - lexing the canonical text and parsing it returns exactly the "
             "items, consumes every token and emits no diagnostic, for every fuel above a bound depending on the items. "
             "parse_print_stmt / parse_print_block give the same for one expression / block in any token context; "
             "demo_roundtrip instantiates it on a program with every item kind. For generated trees of the whole grammar "
             "(depth <= 4 quick / 6 thorough, plus string-boundary and grammar-edge streams) the model printer's text is parsed "
             "by the REAL parser and must come back identical with no errors; the printer's token stream is compared with the "
             "real lexer's and the parser model with the real parser.",
        note=TB + "The well-formedness predicates RT.WT / RT.WTI / RT.IAdj (side conditions listed in Props/C33.lean: valid "
             "names, i64 / float literal texts, operand positions, no repeated parameter names, the dot-then-`(` adjacency "
             "rule) are meant to be exactly the trees the concrete syntax can express; every generated tree satisfies them. "
             "The theorem is about the parser model on Print.lexOf; the run ties both to the real lexer and parser.",
        design="§7 C33"),

    "C02": dict(
        category="proof",
        technique="Lean 4 proof of a value-stack discipline invariant over the machine model M4 (all node kinds, all reachable states) + trace correspondence + exhaustive built-in argument sweep through the CLI",
        text="Proved on the machine model for every program satisfying the decidable predicate okProg (the parser's use flags; no "
             "break/continue in operand position): the well-formedness invariant WF (pending entries never underflow the value "
             "stack incl. the running for-loop's index slot, every pending node well-formed, block count, loop context, caller "
             "frames, every closure value nested anywhere has a well-formed body) holds initially, is preserved by every step, "
             "and no step from a WF state panics (init_WF, step_preserves_WF, step_no_panic, run_no_panic over all reachable "
             "states). Beyond the model: every built-in function and method (62 arms, from the regenerated table) is called "
             "through the CLI with all argument tuples of arity 0..n+1 over a 15-value pool, integer operators over the boundary "
             "set, nesting-depth probes; crash = exit 101/signal.",
        note=TB + "Built-in arms, method calls, floats, dict/struct, assert and try are outside the model: for them the sweep and the "
             "correspondence are the only evidence. okProg is stronger than necessary (it rejects a toplevel loop left by break). "
             "Known findings: break/continue in operand position corrupts the value stack (upstream TODO); source nested >= 1000 "
             "levels overflows the native stack.",
        design="§7 C02"),
    "C05": dict(
        category="proof",
        technique="Lean 4 refinement proof (frame-context simulation, induction on the reference interpreter's fuel) of an independent big-step interpreter M5 by the machine model M4 + four-way differential: reference / model machine / in-process evaluator / `garden run`",
        text="An independent fuel-based big-step interpreter (no expression or value stack, never reads a use flag) is the reference. "
             "Proved in full (machine_refines_bigstep, stages a+b+c): for every program satisfying the decidable fragment predicates "
             "wfProgram (the parser's use flags), exitsProgram (break/continue only in statement position of a loop body) and "
             "levelProgram <= 2, and every fuel, if the reference returns a value v (or an error e) with output w, the machine "
             "model started on the same program reaches done v (or error e) with the same output. Covers literals, variables, "
             "operators, let/assign/+=, lists, tuples, if/else, match, while, for, break, continue through any nesting, named "
             "functions with recursion, closures capturing by value, calls, return from any depth. Every quick run checks the "
             "predicates on ~1.6k real parser trees (all satisfy them) and requires stdout and outcome to agree between the "
             "reference, the model machine, the in-process evaluator and the `garden run` CLI.",
        note=TB + "Non-terminating runs (reference out of fuel) claim nothing. break/continue in operand position is excluded by "
             "exitsProgram and is a known finding. Toplevel `{...}` block items are outside wfProgram. Evaluation-order choices of "
             "the reference (arguments right-to-left, no short-circuit) are documented choices matching the implementation.",
        design="§7 C05"),
    "C16": dict(
        category="proof",
        technique="Lean 4 soundness proof (progress+preservation packaged for a fuel-indexed big-step semantics with runtime type errors as outcomes, induction on fuel with a program-wide well-typedness invariant) over a transcription of the checker's rules + check/run correspondence on type-directed programs and single-node mutants",
        text="Proved (check_sound_fragment, no extra hypotheses): if a program of the fully annotated, monomorphic, first-order core "
             "fragment (Check.fullyAnnotated, decidable) is accepted by the model checker (Check.check P = []: the bidirectional "
             "checker incl. check_match / exhaustiveness / infer_call, and check_loops), then for EVERY fuel its run under the "
             "typed reference semantics never ends in a type error (wrong operand/argument type, wrong arity, calling a "
             "non-function, unknown variable, failed parameter/let/return annotation check, no matching case, non-enum "
             "scrutinee). The fragment: literals, variables, all binary operators, let with/without hints, assignment, +=/-=, "
             "if/else, while, for over lists, match on Option/Bool/Unit with `_` and exhaustiveness, return, break/continue, list "
             "and tuple literals, calls of annotated named functions incl. recursion, Some/println/print/string_repr. "
             "check_sound_exprs is the block-level statement (value of the inferred/expected type in a typed environment, or a "
             "return of the return type, or break/continue inside a loop, or a non-type error). Pillars: value_subsumption "
             "(uses C14), annotation_check_passes (a well-typed value passes is_subtype(Type::from_value(v), T)), canonical forms; "
             "checker-only lemmas Check.tc_inv (checking leaves outer bindings unchanged), Check.tc_gi (inferred types contain no "
             "Error/Any), Check.hasTy_unify (uses C15). example_never_type_error instantiates the theorem on a program with "
             "recursion, loops, match and calls. Tie: ~1.5k fully annotated generated programs (with shadowing for/match/closure binders and inner lets, and uses of "
             "the outer name after the scope ended) and single-node mutants (23 kinds, incl. use of a name after its scope ended) "
             "per quick run are judged by the real `check` and the real `run`: an accepted program must not raise a type-error "
             "message; the model checker's verdict and the model semantics' outcome class must agree with the real ones for every "
             "program (inside the fragment or not).",
        note=TB + "Syntactic exclusions of the fragment: `let` only as a block statement; a `for` iterable is a variable, a call or "
             "a parenthesised expression (for a bare list literal / if / match there the real checker checks against List<Any> and "
             "computes lossy types: known findings C16/any-from-checked-if and C16/error-from-checked-list, proposed fix "
             "patches/checker-fix-for-iterable-inferred.diff); a `_` case binds no payload; no function values (first order). "
             "Match on Result and user enums, generics, closures, structs, methods and namespaces are outside the model. Five genuine "
             "checker unsoundness defects were found while building the proof; three are fixed in /repo (6eb3c77 toplevel let "
             "visible in function bodies; 0684deb match on a non-enum scrutinee; 821dcf8 Error-typed payload of a NoValue "
             "scrutinee), two are the known findings above.",
        design="§7 C16"),
    "C25": dict(
        category="proof",
        technique="Lean 4 proof of a decreasing potential over the machine model M4 with the limits taken from the regenerated tables + sandboxed CLI runs under timeout and address-space limit",
        text="Proved for every program and every state with a tick limit L: the run reaches a terminal result (done, error incl. "
             "tick/stack limit, panic, unsupported) within 2(L - ticks) + frames + 1 steps (bounded_run, potential 2(L-ticks)+frames); "
             "ticks are monotone, the configured limits never change, the call stack never exceeds D+1 frames (frames_bounded); "
             "both sandboxed entry points set both limits before evaluating, by decide on the regenerated table "
             "(bounded_run_tables). playground-run and sandboxed-test are run on non-terminating, deeply recursive and "
             "value-nesting programs under timeout 20 s and a 3 GB address-space limit; tick counts and limit outcomes of the "
             "real evaluator equal the model's at the real limits and at small random limits.",
        note=TB + "Heap, native stack and wall-clock cost per tick are outside the model: three known findings (memory exhaustion "
             "within the tick budget by string doubling; deep value nesting taking >20 s within budget; native stack overflow "
             "on 3000-level source nesting).",
        design="§7 C25"),

    "C19": dict(
        category="translation_validation",
        technique="per-input validation by a Lean decision procedure (alphaCheck, proved sound for the alpha-renaming relation) on the real parser's trees + Lean proof that alpha-renaming preserves behaviour (closures included, via a value relation) + run-before/after oracle",
        text="Every rename performed by the real tool on generated programs (~2.7k renames per quick run: every binder kind, "
             "shadowing, sibling scopes, closures capturing the renamed variable, a same-named unrelated occurrence in 60% of "
             "cases) is judged by the Lean checker alphaCheck on the (before, after) trees from the real parser. Proved once for "
             "all programs and every fuel: alphaCheck is sound for the relation IsAlphaRename (alphaCheck_sound); IsAlphaRename to "
             "a fresh name preserves how the run ends and what it prints under the FULL reference semantics RefSem, closures "
             "included (alpha_sound, no closure-free hypothesis), as a corollary of alpha_sound_related: results and stores of "
             "the two runs are related by the value relation VRel (equal except that closure values carry the renamed "
             "parameters / body and captured-environment keys; VRel-related values display and compare equally, so the output "
             "is equal); for closure-free evaluation the two runs are equal (alpha_sound_exact_closure_free); the exact model "
             "of apply_renames replaces exactly the listed tokens (apply_renames_spec). Oracle: `garden run` before/after, an "
             "independent Python resolver, LSP rename edits vs the CLI.",
        note=TB + "RefSem is a reference semantics (closures capture by value, as eval.rs does), compared with the real evaluator's "
             "output and outcome kind on every generated program. Recorded model limit (found by the first thorough sweep): "
             "RefSem evaluates the items of an argument list / list literal left to right, eval.rs evaluates them last-first; "
             "a program in which two items of one list both print shows the same lines in another order, which the "
             "comparison accepts (same outcome, same multiset of lines) and counts in the evidence. The theorems of C19-C22 "
             "are about RefSem with its order; the evaluator model M4 (C02-C11, C25-C27) follows eval.rs's order. No known findings.",
        design="§7 C19"),
    "C22": dict(
        category="translation_validation",
        technique="exact Lean model of apply_fixes (both the original and the repaired, overlap-skipping variant) proved equal to simultaneous substitution for disjoint fixes + whole-program soundness theorems for two fix schemas with per-input validation of the relations + parse/run/fixpoint oracle",
        text="Proved: for pairwise-disjoint in-bounds fixes in any order apply_fixes is the simultaneous substitution and does not "
             "panic (apply_fixes_disjoint; apply_fixes_skip_disjoint for the repaired variant that skips a fix overlapping an "
             "applied one). WHOLE-PROGRAM schema theorems on RefSem (closure-free restriction, all fuel): removing any set of "
             "int / string literal statements that are not last in their sequence preserves the run exactly — result, store, "
             "output (unused_literal_fix_sound_partial, by a dedicated pair of simulations); replacing `x op d` by `x`, x a "
             "call-free pure chain of a strict && / || and d one of its operands, anywhere in the program preserves the run "
             "unless the original ends with a type error (repeated_bool_fix_sound_partial, lifted through contexts by "
             "C21.eval_congr_partial). Local only: `let x = e; x` -> `e` (unnecessary_let_sound: value and output; the store "
             "gains a cell, so the whole-program lift needs a simulation up to store injection, not proved). Per input (~300 "
             "lint-triggering programs per quick run): the model's output must equal `check --fix --stdout`; the driver evaluates "
             "the two schema relations on (original, program after only those fixes) from the real parser (litfix_check, "
             "rbfix_check); the fixed program must parse, print and end like the original; repeating --fix must not cycle and "
             "must reach a fixed point within 12 rounds. Failures are classified into a closed key set (oracle kind x lint).",
        note=TB + "Five narrow known findings, all genuine lint defects: an unused list / tuple literal with effectful items is "
             "deleted; the repeated-operand fix leaves a stray `)` for a parenthesised duplicate; it removes a duplicate although an "
             "operand in between assigns the variable (found from the purity hypothesis of the theorem); an unused-variable fix "
             "hits a same-named used `let` of another function; the `*` / `*.` operator fix flips forever. Fixed in /repo: "
             "whole-line deletion (97f74b0), overlapping fixes incl. the --fix panic (523feb0). Closures and the loop-body-last "
             "literal are outside the schema theorems (covered by the oracle).",
        design="§7 C22"),
    "C26": dict(
        category="proof",
        technique="Lean 4 proof over a model of the test-runner loop on top of the machine model M4 + hook/CLI correspondence with per-tick traces + CLI permutation and filter oracle",
        text="Proved for any number and size of tests and any fuel: the exit code is 1 iff some selected test did not pass "
             "(exit_honest, exit_honest_selected), summary counts equal the verdict counts (counts_match), the verdict list is "
             "the list of verdicts each test gets alone, in run order, so verdicts are independent of the other tests, of the "
             "order and of -n filters (runner_is_map, verdict_independent, verdict_order_irrelevant, verdict_filter_irrelevant) "
             "for environments without a tick limit (what `garden test` builds). `garden test` is run on generated files in "
             "every permutation (capped) and with -n filters; verdicts, counts and exit status are compared with the model and "
             "judged directly.",
        note=TB + "Independence needs: no tick limit, and every test alone ends with a verdict. With a limit it is false "
             "(machine-checked counterexample; known finding C26/sandboxed-shared-tick-budget: sandboxed-test shares one tick "
             "budget across the file). assert is modelled by an encoding on top of M4.",
        design="§7 C26"),
    "C27": dict(
        category="proof",
        technique="Lean 4 proof (prefix simulation) over the machine model's stop_at_expr_id semantics + eval-up-to correspondence at every expression position + instrumented-run oracle",
        text="Proved for any program: the run with a stop node is step-for-step a prefix of the free run up to the first "
             "completion of that node; the reported value is the top of the value stack (or the frame result for a call) at that "
             "first completion; an error is reported only if the free run fails with the same error before the node completes "
             "(stop_is_prefix, stop_at_first_completion, error_only_before_completion). `garden reftest-eval-up-to` at every "
             "expression position of generated programs (1000 positions per quick run) is compared with the model "
             "tick-for-tick and with the same program instrumented and run normally.",
        note=TB + "Partial: that marking the observed node `used` does not change the run otherwise (mark_used_preserves) is not "
             "proved; it rests on the instrumented-run oracle and the flag/trace correspondence. Positions inside function bodies "
             "(previous call arguments) are not modelled. Known finding: an expression not reached in the re-run gets the item's "
             "final value.",
        design="§7 C27"),

    "C09": dict(
        category="proof",
        technique="Lean 4 proof (invariant + induction over request histories) over a model of the JSON session's command layer on top of the machine model M4 + reftest-json-session / framed `garden json` correspondence",
        text="Proved for histories of any length over the command vocabulary regenerated from Command::from_string: with a "
             "non-empty call stack every request, in every state, hits no session-layer panic (json_session.rs / commands.rs / "
             "env.rs sites are explicit panic outcomes of the model); a request that ends ok produces exactly one response and "
             "preserves the invariant; hence #responses = #requests, in order (one_response_per_request_partial, "
             "session_run_partial, stops_only_through_evaluator). ~160 generated request histories per quick run (every command "
             "in idle / errored-at-toplevel / errored-in-call / interrupted states) are replayed through reftest-json-session "
             "and the real framed `garden json` (liveness probe) and compared with the model response by response.",
        note=TB + "PARTIAL: evaluator panics are excluded by hypothesis (C02's discipline), and :skip / :replace do not preserve "
             "that discipline on the code as it stands (machine-checked witnesses; known findings C09/skip-value-discipline, "
             "C09/replace-value-discipline). Running user code is fuel-bounded in the model. Response ids are not echoed by some "
             "paths (observation).",
        design="§7 C09"),
    "C10": dict(
        category="proof",
        technique="Lean 4 proof of a state equality (abort st = the fresh session with the same definitions and toplevel variables) over the session model + fresh-session oracle",
        text="Proved: after :abort the state is clean (one frame, no pending entries, value stack = the base Unit, one binding "
             "block: abort_clean) and EQUAL to the fresh session holding the same definitions and toplevel variables, up to "
             "ticks/flags/limits (abort_equiv_fresh), so any later request gets the same responses (abort_same_responses) and "
             "nothing of the aborted evaluation is reachable (nothing_leftover). 60 abort experiments per quick run (stop inside "
             "nested calls/loops/blocks by error or interrupt, :abort, ~900 probes) are compared with a fresh real session fed "
             "the same definitions and with the model.",
        note=TB + "Needs the hypothesis BottomOK (the bottom frame is the toplevel frame and its oldest value is Unit); its "
             "preservation along histories depends on the evaluator discipline (C02) and is not proved. Holds with the "
             "pop_to_toplevel fix (pending toplevel expressions are dropped).",
        design="§7 C10"),

    "C01": dict(
        category="proof",
        technique="Lean 4 proof of lexer totality (model M1, tables tied to the source by decide) and of panic-freedom of the whole parser model M2 composed with the lexer model (lex_parse_no_panic, for every fuel) + lexer/parser correspondence + crash oracle over eleven text streams",
        text="Proved for every source text: the lexer never panics and terminates with fuel = length + 1 (lex_no_panic, "
             "lex_terminates, lex_between_total: the loop offset is always a character boundary and strictly increases), token "
             "texts are the source slices at their offsets (lex_tokens_cover); the lexer tables and regex sources in the model "
             "equal the ones regenerated from lex.rs (decide). Proved for the parser model of the whole of parser.rs (items "
             "loop, definitions, statements, expressions, patterns, type hints): for every fuel and every non-empty token "
             "list satisfying LexLike (a float-looking token is a whole float; a symbol-like token sits on one line), no "
             "panic site (progress assertions, expect/unwrap, unpop) is reached (parse_no_panic); the lexer model's output "
             "always satisfies LexLike (lex_lexLike), hence lex_parse_no_panic : for all src and fuel, parseItems fuel (lex src) "
             "is not a panic. The pinned-tree panics and the former struct-literal recursion are kept as decide-witnesses "
             "under the model's `pinned` switch. Every quick run feeds ~12k texts (raw characters incl. multi-byte and "
             "non-ASCII whitespace, whole-token sequences, string/comment-dense texts, perturbed seed files, all seed files, "
             "EVERY token-boundary prefix of seed and generated programs, exhaustive short strings and token sequences, "
             "keyword-at-line-start-before-brace contexts, the corpus of past crashes) through lex + parse + check + format "
             "in-process and re-runs every crash through the CLI; the lexer model and the parser model (on the real lexer's "
             "tokens: trees, diagnostic kinds, PANIC iff PANIC) are compared with the implementation, and LexLike is "
             "re-checked on every real token stream.",
        note=TB + "PARTIAL with respect to the statement (`finish without crashing`): the theorem is about panics: with too little fuel the model answers outOfFuel, so TERMINATION and native "
             "stack depth of the real recursive-descent parser are decided by the oracle only (known finding: a few thousand "
             "nested parentheses overflow the native stack). The type checker and the formatter are not modelled for this "
             "property: for them the crash oracle is the only evidence. Twelve parser/lexer crashes or hangs found on the "
             "pinned tree are fixed in /repo (known_findings.json `fixed`).",
        design="§7 C01"),

    "C07": dict(
        category="proof",
        technique="Lean 4 proof (every error site of the machine model restores exactly + fixpoint induction, reusing the C08 simulation) + regenerated restore-shape table for built-in arms + JSON-session :resume transcripts",
        text="Proved on the machine model with no site hypothesis: every error site of dispatch puts back the popped entry and "
             "exactly the popped values in their original order (every_site_restores), so in a calm state (no tick limit, no "
             "pending interrupt) an error step is followed, after any number of :resume, by the same error on the same frames "
             "(error_restore_fixpoint, resume_any_number, resume_same_error). For the built-in arms outside the model the "
             "restore shapes are re-extracted from eval.rs on every run and all must be receiver-first (decide, knownBad = []). "
             "~520 sessions per quick run (every built-in arm with a wrong type at each position and arity +-1, every operator, "
             "control/binding/call/struct/assert failures, at toplevel, in a function, in a closure) run `run` + :resume x3 "
             "through reftest-json-session: message and position of every resume must equal the first error.",
        note=TB + "Holds with the restore-order fix (about 70 sites), the if/match/for restore fixes and the unbound-hint fix. Known "
             "findings: resuming after a struct-literal field error or a failed assert of a comparison panics.",
        design="§7 C07"),
    "C11": dict(
        category="proof",
        technique="Lean 4 proof by two simulations from a checked reference run (frame parametricity of the evaluator for all 21 node kinds + definition monotonicity, glued by induction over the history) over a session model + incremental-vs-batch transcripts",
        text="Proved (C11.incremental_eq_batch_partial, incremental_eq_batch_state_partial), for histories of any length: if the function "
             "names defined by the inputs are fresh when loaded (histOK, decidable) and the REFERENCE RUN of the history answers v "
             "(Incr.canon: the incremental run with frame 0's value stack emptied at the start of every request, checked on the way: "
             "no error/crash; every request comes to rest at the toplevel frame with nothing pending; in every request but the last no "
             "toplevel return / loop-less break/continue and no contact with the node the concatenated run stops at — decidable by "
             "running it), then the real incremental session answers v to its last request AND the concatenation of all inputs "
             "submitted as one request answers v, and both sessions end with the same definitions and the same toplevel variables. "
             "Core lemmas: Incr.dispatch_fx (a dispatch that does not crash on a frame does the same with further pending entries and "
             "values BELOW the frame's own), Incr.step_diff / step_same, Incr.seg_diff / seg_same, C11.eval_mono_partial, "
             "Incr.incremental_of_canon / batch_of_canon. For the property itself ~400 error-free histories per quick run (1..8 inputs "
             "mixing function/enum definitions, toplevel lets, assignments, expressions, prints; each name defined once) are submitted "
             "incrementally and as one input through reftest-json-session; the last values must be equal, and both replies are compared "
             "with the session model.",
        note=TB + "PARTIAL in two respects, both spelled out in Props/C11.lean: (1) enum definitions are allowed in the FIRST input only "
             "(definition monotonicity for added enums needs the invariant that every enum value on the stacks has a defined type); "
             "(2) the hypothesis is on the reference run, not on `incremental` itself: the two differ only below the values a request "
             "pushes, and for programs with C02's value-stack discipline the reference run is error-free iff the incremental run is — "
             "that link to C02's invariant is not made. Known finding C11/trailing-for-not-run: a toplevel `for` as the last "
             "expression of a request is left pending after its first iteration (the eval-up-to special case leaks into `run`).",
        design="§7 C11"),

    "C20": dict(
        category="translation_validation",
        technique="per-input validation by Lean decision procedures (hoistCheck / funextCheck for the schema, hoistSafe / funSafe for the side conditions) on the real parser's trees + Lean simulation proofs (up to store extension) that the let-hoist and function-extraction schemas preserve result and output + text/parse/run-before-after oracle",
        text="Every extraction performed by the real tools on generated assignment-free programs (1800 per quick run: 900 per tool, "
             "all six enclosing constructs) is judged by the Lean checkers on the (before, after) trees from the real parser: the "
             "output must be exactly `let n = e` inserted immediately before the enclosing statement in the same block with the "
             "selected occurrence replaced (IsLetHoist), or a new toplevel function whose body is e with a call over its "
             "parameters in place (IsFunExtract). Proved for all programs and all fuel (closure-free RefSem): the checkers are "
             "sound for the relations; let_hoist_sound_partial — IsLetHoist plus the decidable side conditions hoistSafe "
             "(assignment-free, n unused, e and everything evaluated before e in its statement pure and call-free, not a while "
             "condition) imply that a run ending without a Garden error is reproduced with the same result value and the same "
             "printed output (no totality hypothesis on e: if e fails where the statement starts, the original run fails too); "
             "fun_extract_sound_partial — IsFunExtract plus funSafe (e pure and call-free, equal to the new function's body, every "
             "parameter occurs in e, every variable of e is a parameter or a never-bound global, n fresh) imply the same. The "
             "driver evaluates hoistSafe / funSafe on the real trees (they hold for ~75-80% of the sampled extractions; the rest "
             "— impure sub-expression before the selection, call inside the selection — is judged by the oracle only). "
             "Oracle on every input: independent text expectation, the output parses, and where the original ran without error "
             "the result prints the same and ends the same.",
        note=TB + "The behaviour-preservation theorems are about the closure-free restriction of the reference semantics and need the "
             "side conditions hoistSafe / funSafe (evaluated per input); stores are related by extension, which is why programs "
             "with assignments are outside the theorems. Closures, impure selections and impure statement prefixes are covered "
             "by the relation and the oracle only. Holds with the extract-function hint fix.",
        design="§7 C20"),
    "C21": dict(
        category="translation_validation",
        technique="per-input validation by Lean decision procedures (dbgwrapCheck, annotCheck) on the real parser's trees + Lean congruence proof that wrapping in an identity-like call preserves the run + check/run-before-after oracle",
        text="Every dbg wrap (1500 per quick run over 17 node kinds) and every suggested annotation (let / return positions, ~600 "
             "hints) produced by the real tools on generated programs is matched against the schema by the Lean checkers on the "
             "real trees. Proved for all programs and all fuel (closure-free RefSem): replacing any set of nodes e by wrap e, "
             "where wrap e evaluates like e in every state, preserves the run (eval_congr_partial); fuel monotonicity; dbg(e) "
             "behaves like e up to a fuel factor (dbg_identity_partial); a hinted binding runs the same unless the hint check "
             "itself fails (annot_sound_partial). Whether the SUGGESTED hint passes is decided per input: no new `check` "
             "diagnostic, same stdout, same end of run.",
        note=TB + "The semantic theorems cover the closure-free restriction of the reference semantics; closures are covered by the "
             "relation and the oracle. Parameter hints are not modelled. Holds with the unwritable-types fix.",
        design="§7 C21"),
}

NOT_YET = {}


def main():
    props = [json.loads(l) for l in open(os.path.join(ROOT, "properties.jsonl"))]
    checks = []
    na = []
    for p in props:
        pid = p["id"]
        if pid in CLAIMED:
            c = CLAIMED[pid]
            checks.append(dict(
                property_id=pid,
                quick_cmd="./check %s --tier quick" % pid,
                thorough_cmd="./check %s --tier thorough" % pid,
                evidence_file="/verif/evidence/%s.json" % pid,
                replay_cmd_template="./check %s --replay {path}" % pid,
                engine="lean4+correspondence",
                level_claimed=dict(category=c["category"], text=c["text"], design_ref=c["design"]),
                level_note=c["note"],
                technique=c["technique"]))
        else:
            na.append(dict(property_id=pid, reason=NOT_YET.get(
                pid, "not claimed yet: the Lean model/proof and correspondence for this property are not built at "
                     "this commit (planned in DESIGN.md §7); no check is registered, so nothing is asserted about it")))
    manifest = dict(
        version=1,
        setup_cmd="./setup.sh",
        hooks=dict(
            guard="wilfred_garden_verif",
            enable="RUSTFLAGS='--cfg wilfred_garden_verif' CARGO_TARGET_DIR=/verif/.build/garden-target cargo build --offline --bin garden (done by every check)",
            baseline_off_cmd="cd /repo && cargo test --workspace --no-fail-fast --offline",
            source_commits=[l.strip() for l in open(os.path.join(ROOT, "hook_commits.txt")) if l.strip()],
            add_only=True),
        engines=[dict(name="lean4+correspondence", path="/verif/lean/GardenVerif",
                      serves_properties=sorted(CLAIMED),
                      kind_free_text="Lean 4 models + theorems (lake project, no Mathlib require), line-protocol model "
                                     "driver (lean_exe gvdriver), Python harness diffing it against the hooked garden")],
        checks=checks,
        notes="See DESIGN.md. Every check rebuilds the hooked garden from /repo's working tree and the Lean "
              "theorems, audits axioms, runs the model/implementation correspondence and a direct oracle.",
        not_applicable=na)
    json.dump(manifest, open(os.path.join(ROOT, "MANIFEST.json"), "w"), indent=1)
    print("claimed:", sorted(CLAIMED))


if __name__ == "__main__":
    main()
