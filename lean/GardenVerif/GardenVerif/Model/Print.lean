import GardenVerif.Model.Parse
/-!
M2 (part 3): canonical source text of a syntax tree, as a list of print tokens with explicit
adjacency and newlines (`PTok`), its rendering to a string and the token list the lexer yields on
that rendering (`lexOf`: texts, touching flags and line numbers — the harness checks the real lexer
agrees on every generated tree).

Layout rules (the only places where the parser reads layout):
* `f(`, `.name`, `::name`, `Name{` are glued (`touch = true`); everything else is separated by one
  space; an infix operator always has a space on both sides, so a negative literal `-5` (one token
  for the lexer when a digit follows `-`) is never produced by gluing an operator to a literal and
  is printed as the single token `-5`.
* every expression of a block, every `match` arm and every top-level item starts on a new line;
  a bare `return` is followed by a newline (its argument must start on the same line).
* `else` bodies and `match` arm bodies are always printed as `{ … }` blocks (the position-free tree
  of `else if …` / `P => e` is the same as that of `else { if … }` / `P => { e }`).
* the first token's `touch` flag is a parameter (`true` at offset 0 of a file, by the convention
  of `Parse.Tok.touchesPrev`).
-/

namespace Print
open Parse

inductive PTok where
  | t (text : String) (touch : Bool)
  | nl
  deriving Repr, DecidableEq, Inhabited

def w (s : String) : PTok := .t s false
def g (s : String) : PTok := .t s true

def escapeChars : List Char → List Char
  | [] => []
  | c :: r =>
    if c == '\\' then '\\' :: '\\' :: escapeChars r
    else if c == '"' then '\\' :: '"' :: escapeChars r
    else if c == '\n' then '\\' :: 'n' :: escapeChars r
    else if c == '\t' then '\\' :: 't' :: escapeChars r
    else c :: escapeChars r

def strTok (s : String) : String := String.ofList ('"' :: (escapeChars s.toList ++ ['"']))

/-- Join printed pieces with `,` (glued to the preceding piece). -/
def commaJoin : List (List PTok) → List PTok
  | [] => []
  | [x] => x
  | x :: rest => x ++ [g ","] ++ commaJoin rest

mutual
def printHint : TypeHint → List PTok
  | .mk name args =>
    if name == "Tuple" then [w "("] ++ printHints args ++ [g ")"]
    else match args with
      | [] => [w name]
      | _ => [w name, g "<"] ++ printHints args ++ [g ">"]
def printHints : List TypeHint → List PTok
  | [] => []
  | [h] => printHint h
  | h :: rest => printHint h ++ [g ","] ++ printHints rest
end

def printHintOpt : Option TypeHint → List PTok
  | none => []
  | some h => [g ":"] ++ printHint h

def printDest : LetDest → List PTok
  | .sym x => [w x]
  | .destr xs => [w "("] ++ commaJoin (xs.map fun x => [g x]) ++ [g ")"]

def printParam (p : Param) : List PTok := [g p.name] ++ printHintOpt p.hint

def printParams (ps : List Param) : List PTok :=
  [g "("] ++ commaJoin (ps.map printParam) ++ [g ")"]

def printPattern (p : Pattern) : List PTok :=
  match p.payload with
  | none => [w p.variant]
  | some d => [w p.variant, g "("] ++ printDest d ++ [g ")"]

def printTParams : List String → List PTok
  | [] => []
  | ts => [g "<"] ++ commaJoin (ts.map fun x => [g x]) ++ [g ">"]

mutual
/-- `first` is the `touch` flag of the first token. -/
def printExpr (first : Bool) : Expr → List PTok
  | .intLit i => [.t (toString i) first]
  | .floatLit s => [.t s first]
  | .strLit s => [.t (strTok s) first]
  | .var x => [.t x first]
  | .binop l op r => printExpr first l ++ [w op] ++ printExpr false r
  | .call f args => printExpr first f ++ [g "("] ++ printArgs true args ++ [g ")"]
  | .mcall r m args => printExpr first r ++ [g ".", g m, g "("] ++ printArgs true args ++ [g ")"]
  | .dot r f => printExpr first r ++ [g ".", g f]
  | .ns r f => printExpr first r ++ [g "::", g f]
  | .letE d h e => [.t "let" first] ++ printDest d ++ printHintOpt h ++ [w "="] ++ printExpr false e
  | .assign x e => [.t x first, w "="] ++ printExpr false e
  | .update op x e => [.t x first, w op] ++ printExpr false e
  | .ifE c t none => [.t "if" first] ++ printExpr false c ++ printBlock t
  | .ifE c t (some e) => [.t "if" first] ++ printExpr false c ++ printBlock t ++ [w "else"] ++ printBlock e
  | .whileE c b => [.t "while" first] ++ printExpr false c ++ printBlock b
  | .forIn d e b => [.t "for" first] ++ printDest d ++ [w "in"] ++ printExpr false e ++ printBlock b
  | .matchE s cases => [.t "match" first] ++ printExpr false s ++ [w "{"] ++ printCases cases ++ [.nl, w "}"]
  | .tryE b x c => [.t "try" first] ++ printBlock b ++ [w "catch", w "(", g x, g ")"] ++ printBlock c
  | .ret none => [.t "return" first, .nl]
  | .ret (some e) => [.t "return" first] ++ printExpr false e
  | .brk => [.t "break" first]
  | .cont => [.t "continue" first]
  | .list items => [.t "[" first] ++ printArgs true items ++ [g "]"]
  | .tuple [] => [.t "(" first, g ")"]
  | .tuple [e] => [.t "(" first] ++ printExpr true e ++ [g ",", g ")"]
  | .tuple (e :: es) => [.t "(" first] ++ printArgs true (e :: es) ++ [g ")"]
  | .dict items => [.t "Dict" first, g "["] ++ printKVs true items ++ [g "]"]
  | .structLit n fields => [.t n first, g "{"] ++ printFields fields ++ [w "}"]
  | .lambda f => [.t "fun" first] ++ printFun f
  | .assertE e => [.t "assert" first, g "("] ++ printExpr true e ++ [g ")"]
  | .paren e => [.t "(" first] ++ printExpr true e ++ [g ")"]
  | .invalid => [.t "?" first]
/-- Comma-separated expressions; `first` is the touch flag of the very first token. -/
def printArgs (first : Bool) : List Expr → List PTok
  | [] => []
  | [e] => printExpr first e
  | e :: rest => printExpr first e ++ [g ","] ++ printArgs false rest
def printKVs (first : Bool) : List KV → List PTok
  | [] => []
  | .mk k v :: rest => printExpr first k ++ [w "=>"] ++ printExpr false v ++ [g ","] ++ printKVs false rest
def printFields : List Field → List PTok
  | [] => []
  | .mk n e :: rest => [w n, g ":"] ++ printExpr false e ++ [g ","] ++ printFields rest
def printCases : List Case → List PTok
  | [] => []
  | .mk p b :: rest => [.nl] ++ printPattern p ++ [w "=>"] ++ printBlock b ++ [g ","] ++ printCases rest
def printBlock : Block → List PTok
  | .mk es => [w "{"] ++ printBlockItems es ++ [.nl, w "}"]
def printBlockItems : List Expr → List PTok
  | [] => []
  | e :: rest => [.nl] ++ printExpr false e ++ printBlockItems rest
/-- Type parameters, parameters, return hint and body (what follows `fun` / `fun name`). -/
def printFun : FunInfo → List PTok
  | .mk tps ps r body => printTParams tps ++ printParams ps ++ printHintOpt r ++ printBlock body
end

def printVariant (v : Variant) : List PTok :=
  match v.payload with
  | none => [.nl, w v.name, g ","]
  | some h => [.nl, w v.name, g "("] ++ printHint h ++ [g ")", g ","]

def printStructField (f : StructField) : List PTok :=
  [.nl, w f.name, g ":"] ++ printHint f.hint ++ [g ","]

def pubTok (first : Bool) (pub : Bool) (kw : String) : List PTok :=
  if pub then [.t "public" first, w kw] else [.t kw first]

def printItem (first : Bool) : Item → List PTok
  | .func pub name f => pubTok first pub "fun" ++ [w name] ++ printFun f
  | .method pub name recv rh (.mk tps ps r body) =>
      pubTok first pub "method" ++ [w name] ++
        printFun (.mk tps (⟨recv, some rh⟩ :: ps) r body)
  | .test name body => [.t "test" first, w name] ++ printBlock body
  | .enum pub name tps vs =>
      pubTok first pub "enum" ++ [w name] ++ printTParams tps ++ [w "{"] ++ vs.flatMap printVariant ++ [.nl, w "}"]
  | .struct pub name tps fs =>
      pubTok first pub "struct" ++ [w name] ++ printTParams tps ++ [w "{"] ++ fs.flatMap printStructField ++ [.nl, w "}"]
  | .importI path none => [.t "import" first, w (strTok path)]
  | .importI path (some a) => [.t "import" first, w (strTok path), w "as", w a]
  | .expr e => printExpr first e
  | .block b => match printBlock b with
      | .t s _ :: rest => .t s first :: rest
      | r => r

def printItems : List Item → List PTok
  | [] => []
  | [i] => printItem true i
  | i :: rest => printItem true i ++ go rest
where go : List Item → List PTok
  | [] => []
  | i :: rest => [.nl] ++ printItem false i ++ go rest

/-- Source text. A token is preceded by one space unless it is glued, starts a line, or starts
the text. -/
def renderAux : Bool → List PTok → List Char
  | _, [] => []
  | _, .nl :: r => '\n' :: renderAux true r
  | atStart, .t s touch :: r =>
    (if atStart || touch then s.toList else ' ' :: s.toList) ++ renderAux false r

def render (ps : List PTok) : String := String.ofList (renderAux true ps)

/-- The tokens of the rendering, as the parser sees them (`ln` = current line). A token that starts
a line does not touch its predecessor (`afterNl`), whatever its `touch` flag says. Token 0 at offset 0
keeps its flag (`true` by the convention for `touchesPrev`). -/
def lexAux : Bool → Nat → List PTok → List Tok
  | _, _, [] => []
  | _, ln, .nl :: r => lexAux true (ln + 1) r
  | afterNl, ln, .t s touch :: r => ⟨s, touch && !afterNl, ln, ln⟩ :: lexAux false ln r

def lexOf (ln : Nat) (ps : List PTok) : List Tok := lexAux false ln ps

end Print
