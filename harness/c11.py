"""C11 — Incremental session input equals running it as one program.

Proof: GardenVerif.Props.C11 over the session model of Model/Resume.lean (`request`, `incremental`,
`batch` on top of the machine model M4).

Tie (C): `garden reftest-json-session` with n `run` requests vs ONE request with the concatenation, against
the model's `c11_session_run` (both replies) for the histories inside the model's fragment. Direct oracle = the
property itself on the real binary: for an error-free history in which every name is defined once, the
value reported for the last input equals the value reported when all inputs are submitted as one input
(and the concatenated run is error-free too).
"""
import json
import os
import re
import shutil
from .common import pmap, hexs, unhex
from .c07 import parse_responses, bulk_sessions

LEAN_MODULES = ["GardenVerif.Props.C11"]

# ---------------------------------------------------------------- generator


class Gen:
    """Histories of inputs; every input is a list of toplevel items. Tracks what is defined so that the
    incremental run is (almost always) error-free and every name is defined at most once."""

    def __init__(self, rng, allow_trailing_for, rich=False):
        self.r = rng
        self.rich = rich    # also structs and methods (outside the session model's fragment: direct oracle only)
        self.ints = []      # toplevel Int variables
        self.lists = []     # toplevel List<Int> variables
        self.strs = []
        self.funs = []      # (name, arity)
        self.enums = []     # (type, [(variant, has_payload)])
        self.clos = []      # toplevel closure variables (arity 1)
        self.structs = []   # defined struct types (fields a, b: Int)
        self.pending_types = []   # (name, "enum"/"struct", variants): a method was sent BEFORE its receiver type
        self.methods = []   # (receiver type name, kind, variants, method name)
        self.n = 0
        self.allow_trailing_for = allow_trailing_for

    def fresh(self, p):
        self.n += 1
        return "%s%d" % (p, self.n)

    def int_expr(self, d=0):
        r = self.r
        c = r.random()
        if d > 2 or c < 0.25:
            return str(r.randrange(0, 50))
        if c < 0.5 and self.ints:
            return r.choice(self.ints)
        if c < 0.7:
            return "(%s %s %s)" % (self.int_expr(d + 1), r.choice(["+", "-", "*"]), self.int_expr(d + 1))
        if c < 0.8 and self.funs:
            f, a = r.choice(self.funs)
            return "%s(%s)" % (f, ", ".join(self.int_expr(d + 1) for _ in range(a)))
        if c < 0.88 and self.clos:
            return "%s(%s)" % (r.choice(self.clos), self.int_expr(d + 1))
        if c < 0.94 and self.lists:
            return "%s.len()" % r.choice(self.lists)
        if c < 0.97 and self.ready_methods():
            return self.mcall(d)
        return "(if %s < %s { %s } else { %s })" % (self.int_expr(d + 1), self.int_expr(d + 1), self.int_expr(d + 1),
                                                    self.int_expr(d + 1))

    def ready_methods(self):
        return [m for m in self.methods if m[0] not in [t[0] for t in self.pending_types]]

    def mcall(self, d=1):
        r = self.r
        t, kind, vs, mname = r.choice(self.ready_methods())
        if kind == "struct":
            recv = "%s{ a: %s, b: %d }" % (t, self.int_expr(d + 1), r.randrange(0, 9))
        elif kind == "enum":
            v, pl = r.choice(vs)
            recv = "%s(%s)" % (v, self.int_expr(d + 1)) if pl else v
        else:
            recv = "(%s)" % self.int_expr(d + 1)
        return "%s.%s()" % (recv, mname)

    def type_def(self, t, kind, vs):
        if kind == "struct":
            self.structs.append(t)
            return "struct", "struct %s { a: Int, b: Int }" % t
        self.enums.append((t, vs))
        return "enum", "enum %s { %s }" % (t, ", ".join(v + ("(Int)" if p else "") for v, p in vs))

    def method_item(self):
        """A method on a user enum / struct / Int. A third of the time the receiver type does not exist yet: its
        definition is sent by a LATER item (often in a later request); in the concatenated program the loader
        sorts type definitions before methods, in the incremental run the method is attached to a stub
        (seeded change C11-1 lost such methods when the real type arrived)."""
        r = self.r
        m = self.fresh("m")
        c = r.random()
        if c < 0.45:
            kind = r.choice(["enum", "enum", "struct"])
            t = self.fresh("Shape" if kind == "enum" else "Rec")
            vs = [(self.fresh("V"), r.random() < 0.6) for _ in range(r.randrange(1, 4))] if kind == "enum" else None
            self.pending_types.append((t, kind, vs))
        elif c < 0.6 and self.enums:
            kind = "enum"
            t, vs = r.choice(self.enums)
        elif c < 0.85 and self.structs:
            kind, t, vs = "struct", r.choice(self.structs), None
        else:
            kind, t, vs = "int", "Int", None
        if kind == "struct":
            body = "this.a + this.b + %d" % r.randrange(0, 9)
        elif kind == "enum":
            body = "match this { %s }" % ", ".join("%s%s => %s" % (w, "(q)" if wp else "", "q + %d" % i if wp else str(i))
                                                   for i, (w, wp) in enumerate(vs))
        else:
            body = "this * 2 + %d" % r.randrange(0, 9)
        self.methods.append((t, kind, vs, m))
        return "method", "method %s(this: %s): Int { %s }" % (m, t, body)

    def item(self, last):
        """-> (kind, source text of one toplevel item)"""
        r = self.r
        if self.pending_types and r.random() < 0.5:
            return self.type_def(*self.pending_types.pop(0))
        c = r.random()
        if c < 0.1 and self.rich:
            if c < 0.03:
                return self.type_def(self.fresh("Rec"), "struct", None)
            return self.method_item()
        if self.rich and self.ready_methods() and r.random() < 0.2:
            return "mcall", self.mcall()
        c = r.random()
        if c < 0.14:
            f = self.fresh("f")
            a = r.randrange(0, 3)
            ps = ["p%d" % i for i in range(a)]
            body_vars = ps + ([r.choice(self.ints)] if self.ints and r.random() < 0.3 else [])
            body = " + ".join(body_vars + [str(r.randrange(1, 9))])
            callee = ""
            if self.funs and r.random() < 0.4:
                g, ga = r.choice(self.funs)
                callee = " + %s(%s)" % (g, ", ".join(str(r.randrange(0, 5)) for _ in range(ga)))
            src = "fun %s(%s) { %s%s }" % (f, ", ".join(ps), body, callee)
            self.funs.append((f, a))
            return "fun", src
        if c < 0.2:
            t = self.fresh("Color")
            vs = [(self.fresh("V"), r.random() < 0.5) for _ in range(r.randrange(1, 4))]
            self.enums.append((t, vs))
            return "enum", "enum %s { %s }" % (t, ", ".join(v + ("(Int)" if p else "") for v, p in vs))
        if c < 0.24:
            # non-ASCII text inside the request: byte offsets and character counts differ (seeded C11-2 cut the
            # request span at input.chars().count() bytes); the value depends on the tail after the literal
            x = self.fresh("x")
            lit = r.choice(['"日本"', '"é"', '"😀x"', '"añb→"'])
            src = "let %s = %s.len() + %s" % (x, lit, self.int_expr(1))
            self.ints.append(x)
            return "let", src
        if c < 0.38:
            x = self.fresh("x")
            src = "let %s = %s" % (x, self.int_expr())
            self.ints.append(x)
            return "let", src
        if c < 0.44:
            x = self.fresh("l")
            src = "let %s = [%s]" % (x, ", ".join(self.int_expr(1) for _ in range(r.randrange(0, 4))))
            self.lists.append(x)
            return "let", src
        if c < 0.5:
            k = self.fresh("k")
            cap = r.choice(self.ints) if self.ints and r.random() < 0.6 else str(r.randrange(1, 9))
            src = "let %s = fun(a) { a + %s }" % (k, cap)
            self.clos.append(k)
            return "closure", src
        if c < 0.62 and self.ints:
            return "assign", "%s = %s" % (r.choice(self.ints), self.int_expr())
        if c < 0.68 and self.ints:
            return "update", "%s %s %s" % (r.choice(self.ints), r.choice(["+=", "-="]), self.int_expr(1))
        if c < 0.74:
            return "print", "println(string_repr(%s))" % self.int_expr()
        if c < 0.8 and self.ints:
            # bounded by a fresh counter (the value of an earlier variable may be anything)
            x, w = r.choice(self.ints), self.fresh("w")
            src = "let %s = 0\nwhile %s < %d { %s += 1 %s += %s }" % (w, w, r.randrange(0, 6), w, x, w)
            self.ints.append(w)
            return "while", src
        if c < 0.86 and self.ints and self.lists and (self.allow_trailing_for or not last):
            return "for", "for e in %s { %s += e }" % (r.choice(self.lists), r.choice(self.ints))
        if c < 0.92 and self.enums:
            t, vs = r.choice(self.enums)
            v, p = r.choice(vs)
            scrut = "%s(%s)" % (v, self.int_expr(1)) if p else v
            cases = ["%s%s => %s" % (w, "(q)" if wp else "", ("q + 1" if wp else str(i))) for i, (w, wp) in enumerate(vs)]
            return "match", "match %s { %s }" % (scrut, ", ".join(cases))
        if c < 0.96 and self.lists:
            return "expr", r.choice(self.lists)
        return "expr", self.int_expr()

    def history(self):
        n = self.r.randrange(1, 9)
        inputs, kinds = [], []
        for k in range(n):
            m = self.r.randrange(1, 5)
            items = []
            for j in range(m):
                kind, src = self.item(last=(j == m - 1))
                items.append(src)
                kinds.append(kind)
            while k == n - 1 and self.pending_types:
                kind, src = self.type_def(*self.pending_types.pop(0))
                items.append(src)
                kinds.append(kind)
            if k == n - 1 and kinds[-1] in ("fun", "enum", "struct", "method"):
                # the last input reports a value: end it with an expression
                items.append(self.mcall() if self.ready_methods() and self.r.random() < 0.7 else
                             self.int_expr() if not self.lists or self.r.random() < 0.6 else self.r.choice(self.lists))
                kinds.append("expr")
            # definitions are loaded before the expressions run, so the LAST EXPRESSION of the request is the last
            # non-definition item: it must not be a `for` (known finding C11/trailing-for-not-run)
            defs = ("fun", "enum", "struct", "method")
            body_kinds = [kd for kd in kinds[len(kinds) - len(items):] if kd not in defs]
            if body_kinds and body_kinds[-1] == "for" and not self.allow_trailing_for:
                items.append(self.int_expr())
                kinds.append("expr")
            inputs.append("\n".join(items) + "\n")
        return inputs, kinds


def renumber(astx, offset):
    """Make node ids of different inputs distinct (the real session's id generator keeps counting)."""
    return re.sub(r"\((\w+) (\d+) ([01])(?=[ )])", lambda m: "(%s %d %s" % (m.group(1), int(m.group(2)) + offset, m.group(3)),
                  astx)


def last_value(resp):
    if not resp:
        return ("none",)
    r = resp[-1]
    if r[0] == "ok":
        v = r[1]
        if v is None:
            return ("ok", None)
        m = re.search(r"and the expression evaluated to (.*)\.$", v, re.S)
        if m:
            return ("ok", m.group(1))
        if re.match(r"^(Loaded|Ran) ", v):
            return ("ok", None)
        return ("ok", v)
    return r[:2]


def run(ctx):
    rng = ctx.rng
    nh = ctx.scale(400, 8000)
    hists = []
    kind_hist = {}
    for i in range(nh):
        g = Gen(rng, allow_trailing_for=False, rich=(i % 3 == 2))
        inputs, kinds = g.history()
        hists.append(inputs)
        for k in kinds:
            kind_hist[k] = kind_hist.get(k, 0) + 1
    ctx.rule = ("histories of 1..8 inputs, each 1..4 toplevel items drawn from: fun / enum definitions (fresh names, "
                "functions may call earlier functions and read toplevel variables), toplevel lets of Ints, lists and "
                "closures capturing toplevel variables, assignments and += / -= of earlier variables, prints, while / "
                "for loops over earlier variables, matches on the user enums, plain expressions calling earlier "
                "functions and closures; every third history also defines structs and methods on user enums / structs / "
                "Int, a third of the methods BEFORE their receiver type (sent by a later item), and calls them. "
                "An input never ENDS in a `for` loop (known finding C11/trailing-for-not-run; "
                "a fixed sample of such histories is run separately). Each history: n `run` requests vs one request with "
                "the concatenation, through reftest-json-session. Non-trivial = >= 2 inputs, the incremental run is "
                "error-free, and a later input uses a name defined or assigned in an earlier one.")
    d = ctx.scratch("sess")
    os.makedirs(d, exist_ok=True)

    def printed_of(so):
        return "".join(json.loads(x) for x in re.findall(r'"printed": \{\s*"s": ("(?:[^"\\]|\\.)*")', so or ""))

    def session(tag, inputs):
        p = os.path.join(d, "%s.jsonl" % tag)
        with open(p, "w") as f:
            for i in inputs:
                f.write(json.dumps({"method": "run", "input": i}) + "\n")
        rc, so, se = ctx.garden(["reftest-json-session", p], timeout=120, cwd=d)
        return rc, parse_responses(so or ""), printed_of(so)

    jobs = []
    for ix, inputs in enumerate(hists):
        jobs.append(("i%d" % ix, inputs))
        jobs.append(("b%d" % ix, ["".join(inputs)]))
    raw = bulk_sessions(ctx, d, jobs, timeout=30)
    res = []
    for ix, inputs in enumerate(hists):
        pair = []
        for tag, inp in (("i%d" % ix, inputs), ("b%d" % ix, ["".join(inputs)])):
            rc, so, se = raw[tag]
            pair.append((rc, parse_responses(so or ""), printed_of(so)))
        res.append((ix, pair[0], pair[1]))
    ctx.log("%d sessions done" % len(jobs))

    def uses_earlier(inputs):
        defined = set()
        for k, inp in enumerate(inputs):
            names = set(re.findall(r"[A-Za-z_]\w*", inp))
            if k > 0 and names & defined:
                return True
            defined |= set(re.findall(r"(?:let|fun|enum|struct|method) (\w+)", inp)) | set(re.findall(r"\b(V\d+)\b", inp))
        return False
    stats = {"error_free": 0, "incremental_error": 0, "inputs_hist": {}}
    model_jobs = []
    for ix, (rci, ri, pi), (rcb, rb, pb) in res:
        inputs = hists[ix]
        n = len(inputs)
        stats["inputs_hist"][str(n)] = stats["inputs_hist"].get(str(n), 0) + 1
        err_free = rci == 0 and len(ri) == n and all(r[0] == "ok" for r in ri)
        ctx.case(tuple(inputs), err_free and n >= 2 and uses_earlier(inputs))
        if rci == -9999 or rcb == -9999:
            stats["timed_out_not_judged"] = stats.get("timed_out_not_judged", 0) + 1
            continue
        if rci != 0 or rcb != 0:
            ctx.fail("C11/session-crash", "the session died", inputs=inputs, rc=[rci, rcb])
            continue
        if not err_free:
            stats["incremental_error"] += 1
            # second sentence of the property: definitions and toplevel variables persist. If the same text
            # runs without error as ONE input, an error in the incremental run means state was lost
            # (or invented) between requests.
            if len(rb) == 1 and rb[0][0] == "ok":
                ctx.fail("C11/incremental-error", "the concatenated input runs without error but the incremental "
                         "run stops with an error: %s" % [r[:2] for r in ri if r[0] != "ok"][:1], inputs=inputs,
                         incremental=[list(map(str, r)) for r in ri], batch=[list(map(str, r)) for r in rb])
            continue
        stats["error_free"] += 1
        vi, vb = last_value(ri), last_value(rb)
        if vi != vb:
            ctx.fail("C11/value-differs", "last value of the incremental run %r differs from the value of the "
                     "concatenated run %r" % (vi, vb), inputs=inputs, incremental=[list(map(str, r)) for r in ri],
                     batch=[list(map(str, r)) for r in rb])
        elif pi != pb:
            ctx.fail("C11/output-differs", "printed output differs between the incremental and the concatenated run",
                     inputs=inputs, incremental=pi, batch=pb)
        model_jobs.append((ix, vi))
    ctx.cov["input_distribution"] = dict(stats, item_kinds=kind_hist)

    # ---- the known divergence, on a fixed sample (kept so that a repair is noticed)
    tf = [["let s = 0\n", "for x in [1, 2] { s = s + x }\n", "s\n"],
          ["let t = 1\nlet l = [3, 4]\n", "t = 2\nfor e in l { t += e }\n", "t\n"]]
    for k, inputs in enumerate(tf):
        (rci, ri, pi), (rcb, rb, pb) = session("tfi%d" % k, inputs), session("tfb%d" % k, ["".join(inputs)])
        ctx.case(tuple(inputs), True)
        if last_value(ri) != last_value(rb):
            ctx.fail("C11/trailing-for-not-run", "an input whose last toplevel expression is a `for` loop stops before "
                     "the loop body runs (eval-up-to special case in `eval`), and the next request discards the pending "
                     "loop: incremental %r, concatenated %r" % (last_value(ri), last_value(rb)), inputs=inputs)

    # ---- correspondence with the session model
    mj = model_jobs[:ctx.scale(400, 6000)]
    flat, spans = [], []
    for ix, vi in mj:
        spans.append((len(flat), len(hists[ix])))
        flat += hists[ix]
    ast = ctx.garden_batch(["astx " + hexs(s) for s in flat])
    lines = []
    for (ix, vi), (a0, n) in zip(mj, spans):
        parts = []
        for k in range(n):
            a = ast[a0 + k]
            parts.append(renumber(a[3:], 100000 * (k + 1)) if a and a.startswith("OK ") else "(astx 1)")
        lines.append("c11_session_run 200000 " + " ".join(parts))
    model = ctx.model_batch(lines, timeout=900)
    ncmp = nskip = 0
    for (ix, vi), m in zip(mj, model):
        mm = re.match(r"^OK \(session \(inc (\(.*?\))\) \(batch (\(.*?\))\)\)$", m or "")
        if not mm:
            nskip += 1
            continue

        def dec(x):
            if x.startswith("(value "):
                return ("ok", unhex(x[7:-1]))
            if x == "(novalue)":
                return ("ok", None)
            return (x,)
        minc, mbat = dec(mm.group(1)), dec(mm.group(2))
        if minc[0] != "ok":
            nskip += 1
            continue
        ncmp += 1
        if minc != vi:
            ctx.disagree("c11_session_run(incremental)", {"inputs": hists[ix]}, minc, vi)
        elif mbat != minc:
            ctx.disagree("c11_session_run(batch)", {"inputs": hists[ix]}, mbat, vi)
    ctx.cov["correspondence_compared"] = ncmp
    ctx.cov["correspondence_outside_fragment"] = nskip + (len(model_jobs) - len(mj))
    for ix, vi in model_jobs[:3]:
        ctx.sample({"inputs": hists[ix], "last_value": vi})
    shutil.rmtree(d, ignore_errors=True)
    ctx.assumptions += [
        "every name is defined at most once per history and differs from prelude names (generator invariant)",
        "no input ends in a `for` loop and no toplevel `return` / loop-less `break` (fragment of the theorem)",
        "session model (Model/Resume.lean) is hand-written from json_session.rs / eval_toplevel_exprs_then_stop; "
        "methods, structs, floats, dicts are outside the machine model's fragment (direct oracle only)",
    ]
