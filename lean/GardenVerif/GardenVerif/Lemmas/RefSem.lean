import GardenVerif.Lemmas.Validators
/-! Lemmas about `RefSem` evaluation under the validators' transformations.
Part 1: alpha-renaming (C19) — the simulation `Sound c p p' n` by induction on the fuel. -/
set_option linter.unusedVariables false
set_option linter.unusedSimpArgs false

namespace Validators
open Machine (Expr Case Dest BinOp Program FunDef EnumDef)
open RefSem

def isLet : Expr → Bool
  | .letE .. => true
  | _ => false

theorem isLet_iff {e : Expr} : isLet e = true ↔ ∃ id u d r, e = .letE id u d r := by
  cases e <;> simp [isLet]

theorem isLet_ren (c : RenCfg) (act : Bool) (e : Expr) : isLet (ren c act e) = isLet e := by
  cases e <;> try (simp [ren, isLet]; done)
  rename_i o; cases o <;> simp [ren, isLet]

theorem actAfter_nonlet (c : RenCfg) (act : Bool) {e : Expr} (h : isLet e = false) :
    actAfter c act e = act := by
  cases e <;> simp [actAfter, isLet] at h ⊢

theorem evalSeq_cons_nonlet (cl : Bool) (p : Program) (n : Nat) (env : Env) (s : RefSem.St)
    {e : Expr} (rest : List Expr) (h : isLet e = false) :
    evalSeq cl p (n + 1) env s (e :: rest) =
      match rest with
      | [] => eval cl p n env s e
      | _ :: _ => RefSem.bind (eval cl p n env s e) fun _ s1 => evalSeq cl p n env s1 rest := by
  cases e <;> first | (simp [isLet] at h; done) | (cases rest <;> simp only [evalSeq])

/-- What the two programs of a renaming share. -/
structure RCtx (c : RenCfg) (p p' : Program) : Prop where
  hx : c.x ≠ "_"
  hy : c.y ≠ "_"
  hxy : c.x ≠ c.y
  funs : p'.funs = p.funs.map (renFun c)
  enums : p'.enums = p.enums
  freshFuns : ∀ d ∈ p.funs, freshFun c.y d = true

theorem RCtx.funNames {c : RenCfg} {p p' : Program} (hc : RCtx c p p') : funNames p' = funNames p := by
  simp [RefSem.funNames, hc.funs, List.map_map, Function.comp_def, renFun]

theorem RCtx.lookupVar {c : RenCfg} {p p' : Program} (hc : RCtx c p p') {act env env'}
    (h : ER c act env env') (st : List Val) (n : String) (hn : n ≠ c.y) :
    lookupVar p' env' st (rn c act n) = lookupVar p env st n := by
  have := h.lookup_rn hc.hxy n hn
  unfold RefSem.lookupVar
  rw [this.1, hc.funNames, hc.enums]
  cases hl : lookup env n with
  | some l => rfl
  | none =>
    have hnu : isUse c act n = false := by
      cases hu : isUse c act n with
      | false => rfl
      | true => have := this.2 hu; simp [hl] at this
    simp only [rn]
    unfold isUse at hnu
    simp [hnu]

theorem RCtx.patKey {c : RenCfg} {p p' : Program} (hc : RCtx c p p') (v : String) :
    patKey p' v = patKey p v := by
  simp [RefSem.patKey, hc.funNames, hc.enums]

/-- Binding a (renamed) destination: same error, or related environments and the same store. -/
theorem ER.bindDest {c : RenCfg} (hx : c.x ≠ "_") (hy : c.y ≠ "_") (hit : Option Nat) {act env env'}
    (h : ER c act env env') (dest : Dest) (v : Val) (s : RefSem.St) (hf : freshDest c.y dest = true) :
    (∃ k, bindDest dest v env s = .error k ∧ bindDest (renDest c hit act dest).1 v env' s = .error k) ∨
    (∃ e1 e1' s1, bindDest dest v env s = .ok (e1, s1) ∧
      bindDest (renDest c hit act dest).1 v env' s = .ok (e1', s1) ∧
      ER c (renDest c hit act dest).2 e1 e1') := by
  cases dest with
  | sym n =>
    right
    have hf' : freshNames c.y [n] = true := by simpa [freshDest, freshNames] using hf
    have := ER.bindNames hx hy hit [n] [v] act 0 env env' s h hf' rfl
    simp only [renNames] at this
    refine ⟨(RefSem.bindNames [n] [v] env s).1,
      (RefSem.bindNames [(renName c (hit == some 0) act n).1] [v] env' s).1,
      (RefSem.bindNames [n] [v] env s).2, rfl, ?_, ?_⟩
    · simp only [renDest, RefSem.bindDest]
      rw [← this.2]
    · simp only [renDest]
      exact this.1
  | destr ns =>
    simp only [renDest, RefSem.bindDest]
    cases v with
    | tuple items =>
      by_cases hl : items.length = ns.length
      · right
        have hf' : freshNames c.y ns = true := by simpa [freshDest] using hf
        have := ER.bindNames hx hy hit ns items act 0 env env' s h hf' hl
        simp only [renNames_fst_length, hl, bne_self_eq_false, Bool.false_eq_true, if_false]
        refine ⟨_, _, _, rfl, ?_, this.1⟩
        rw [← this.2]
      · left
        have : (items.length != ns.length) = true := by simpa using hl
        exact ⟨.tupleSize, by simp [this], by simp [renNames_fst_length, this]⟩
    | _ => left; exact ⟨_, rfl, rfl⟩

/-- The simulation at a given amount of fuel (closure-free restriction `cl = false`). -/
structure Sound (c : RenCfg) (p p' : Program) (n : Nat) : Prop where
  ev : ∀ act env env' s e, ER c act env env' → fresh c.y e = true →
    eval false p' n env' s (ren c act e) = eval false p n env s e
  seq : ∀ act env env' s es, ER c act env env' → freshSeq c.y es = true →
    evalSeq false p' n env' s (renSeq c act es) = evalSeq false p n env s es
  lst : ∀ act env env' s es, ER c act env env' → freshSeq c.y es = true →
    evalList false p' n env' s (renList c act es) = evalList false p n env s es
  whl : ∀ act env env' s cnd body, ER c act env env' → fresh c.y cnd = true → freshSeq c.y body = true →
    evalWhile false p' n env' s (ren c act cnd) (renSeq c act body) = evalWhile false p n env s cnd body
  for_ : ∀ act env env' s hit dest items body, ER c act env env' → freshDest c.y dest = true →
    freshSeq c.y body = true →
    evalFor false p' n env' s (renDest c hit act dest).1 items (renSeq c (renDest c hit act dest).2 body)
      = evalFor false p n env s dest items body
  cases : ∀ act env env' s ty idx pl id k cs, ER c act env env' → freshCases c.y cs = true →
    evalCases false p' n env' s ty idx pl (renCases c act id k cs) = evalCases false p n env s ty idx pl cs
  app : ∀ s f args, applyVal false p' n s f args = applyVal false p n s f args

theorem sound_zero (c : RenCfg) (p p' : Program) : Sound c p p' 0 := by
  refine ⟨?_, ?_, ?_, ?_, ?_, ?_, ?_⟩ <;> intros <;>
    simp only [eval, evalSeq, evalList, evalWhile, evalFor, evalCases, applyVal]

theorem sound_succ {c : RenCfg} {p p' : Program} (hc : RCtx c p p') (n : Nat) (ih : Sound c p p' n) :
    Sound c p p' (n + 1) := by
  refine ⟨?ev, ?seq, ?lst, ?whl, ?for_, ?cases, ?app⟩
  case ev =>
    intro act env env' s e hER hf
    cases e with
    | int id u v => simp only [ren, eval]
    | str id u v => simp only [ren, eval]
    | var id u nm =>
      simp only [fresh, bne_iff_ne, ne_eq] at hf
      simp only [ren, eval, hc.lookupVar hER s.store nm hf]
    | binop id u op l r =>
      simp only [fresh, Bool.and_eq_true] at hf
      have h2 := fun s1 => ih.ev act env env' s1 r hER hf.2
      simp only [ren, eval, ih.ev act env env' s l hER hf.1, h2]
    | letE id u d r => simp only [ren, eval]
    | assign id u nm rhs =>
      simp only [fresh, Bool.and_eq_true, bne_iff_ne, ne_eq] at hf
      simp only [ren, eval, ih.ev act env env' s rhs hER hf.2, (hER.lookup_rn hc.hxy nm hf.1).1]
    | update id u a nm rhs =>
      simp only [fresh, Bool.and_eq_true, bne_iff_ne, ne_eq] at hf
      simp only [ren, eval, ih.ev act env env' s rhs hER hf.2, (hER.lookup_rn hc.hxy nm hf.1).1]
    | ifE id u cnd thn els =>
      simp only [fresh, Bool.and_eq_true] at hf
      have h2 := fun s1 => ih.seq act env env' s1 thn hER hf.1.2
      cases els with
      | none => simp only [ren, renOpt, eval, ih.ev act env env' s cnd hER hf.1.1, h2]
      | some eb =>
        have h3 := fun s1 => ih.seq act env env' s1 eb hER (by simpa [freshOpt] using hf.2)
        simp only [ren, renOpt, eval, ih.ev act env env' s cnd hER hf.1.1, h2, h3]
    | whileE id u cnd body =>
      simp only [fresh, Bool.and_eq_true] at hf
      simp only [ren, eval, ih.whl act env env' s cnd body hER hf.1 hf.2]
    | forE id u dest iter body =>
      simp only [fresh, Bool.and_eq_true] at hf
      have h2 := fun s1 items => ih.for_ act env env' s1 (hitNode c id 0) dest items body hER hf.1.1 hf.2
      simp only [ren, eval, ih.ev act env env' s iter hER hf.1.2, h2]
    | matchE id u scrut cs =>
      simp only [fresh, Bool.and_eq_true] at hf
      have h2 := fun s1 ty idx pl => ih.cases act env env' s1 ty idx pl id 0 cs hER hf.2
      simp only [ren, eval, ih.ev act env env' s scrut hER hf.1, h2]
    | ret id u o =>
      cases o with
      | none => simp only [ren, eval]
      | some x =>
        simp only [fresh] at hf
        simp only [ren, eval, ih.ev act env env' s x hER hf]
    | brk id u => simp only [ren, eval]
    | cont id u => simp only [ren, eval]
    | list id u items =>
      simp only [fresh] at hf
      simp only [ren, eval, ih.lst act env env' s items hER hf]
    | tuple id u items =>
      simp only [fresh] at hf
      simp only [ren, eval, ih.lst act env env' s items hER hf]
    | call id u recv args =>
      simp only [fresh, Bool.and_eq_true] at hf
      have h2 := fun s1 => ih.lst act env env' s1 args hER hf.2
      simp only [ren, eval, ih.ev act env env' s recv hER hf.1, h2, ih.app]
    | lambda id u ps body => simp only [ren, eval, Bool.false_eq_true, if_false]
    | paren id u x =>
      simp only [fresh] at hf
      simp only [ren, eval, ih.ev act env env' s x hER hf]
    | invalid id u => simp only [ren, eval]
    | unsup id u w => simp only [ren, eval]
  case seq =>
    intro act env env' s es hER hf
    cases es with
    | nil => simp only [renSeq, evalSeq]
    | cons e rest =>
      simp only [freshSeq, Bool.and_eq_true] at hf
      by_cases hl : isLet e = true
      · obtain ⟨id, u, d, r, rfl⟩ := isLet_iff.mp hl
        simp only [fresh, Bool.and_eq_true] at hf
        simp only [renSeq, ren, actAfter, evalSeq, ih.ev act env env' s r hER hf.1.2]
        congr 1
        funext v s1
        rcases hER.bindDest hc.hx hc.hy (hitNode c id 0) d v s1 hf.1.1 with ⟨k, h1, h2⟩ | ⟨e1, e1', s2, h1, h2, hER'⟩
        · simp only [h1, h2]
        · simp only [h1, h2, ih.seq _ e1 e1' s2 rest hER' hf.2]
      · have hl' : isLet e = false := by simpa using hl
        have hl2 : isLet (ren c act e) = false := by rw [isLet_ren]; exact hl'
        simp only [renSeq, actAfter_nonlet c act hl']
        rw [evalSeq_cons_nonlet _ _ _ _ _ _ hl2, evalSeq_cons_nonlet _ _ _ _ _ _ hl']
        have h2 := fun s1 => ih.seq act env env' s1 rest hER hf.2
        cases rest with
        | nil => simp only [renSeq, ih.ev act env env' s e hER hf.1]
        | cons e2 rest2 =>
          simp only [renSeq] at h2 ⊢
          simp only [ih.ev act env env' s e hER hf.1, h2]
  case lst =>
    intro act env env' s es hER hf
    cases es with
    | nil => simp only [renList, evalList]
    | cons e rest =>
      simp only [freshSeq, Bool.and_eq_true] at hf
      have h2 := fun s1 => ih.lst act env env' s1 rest hER hf.2
      simp only [renList, evalList, ih.ev act env env' s e hER hf.1, h2]
  case whl =>
    intro act env env' s cnd body hER hf1 hf2
    have h2 := fun s1 => ih.seq act env env' s1 body hER hf2
    have h3 := fun s1 => ih.whl act env env' s1 cnd body hER hf1 hf2
    simp only [evalWhile, ih.ev act env env' s cnd hER hf1, h2, h3]
  case for_ =>
    intro act env env' s hit dest items body hER hf1 hf2
    cases items with
    | nil => simp only [evalFor]
    | cons it rest =>
      simp only [evalFor]
      have h3 := fun s1 => ih.for_ act env env' s1 hit dest rest body hER hf1 hf2
      rcases hER.bindDest hc.hx hc.hy hit dest it s hf1 with ⟨k, h1, h2⟩ | ⟨e1, e1', s2, h1, h2, hER'⟩
      · simp only [h1, h2]
      · simp only [h1, h2, ih.seq _ e1 e1' s2 body hER' hf2, h3]
  case cases =>
    intro act env env' s ty idx pl id k cs hER hf
    cases cs with
    | nil => simp only [renCases, evalCases]
    | cons cs0 rest =>
      simp only [freshCases, Bool.and_eq_true] at hf
      have h3 := ih.cases act env env' s ty idx pl id (k + 1) rest hER hf.2
      obtain ⟨variant, dest, body⟩ := cs0
      cases dest with
      | none =>
        simp only [freshCase] at hf
        simp only [renCases, renCase, evalCases, hc.patKey, ih.seq act env env' s body hER hf.1, h3]
      | some d =>
        simp only [freshCase, Bool.and_eq_true] at hf
        simp only [renCases, renCase, evalCases, hc.patKey, h3]
        cases pl with
        | none => simp only []
        | some v =>
          rcases hER.bindDest hc.hx hc.hy (hitNode c id k) d v s hf.1.1 with ⟨k', h1, h2⟩ | ⟨e1, e1', s2, h1, h2, hER'⟩
          · simp only [h1, h2]
          · simp only [h1, h2, ih.seq _ e1 e1' s2 body hER' hf.1.2]
  case app =>
    intro s f args
    cases f with
    | closure cenv ps body => simp only [applyVal, Bool.not_false, if_true]
    | fn name =>
      simp only [applyVal, hc.funs, List.find?_map]
      cases hfind : p.funs.find? (fun d => d.name == name) with
      | none =>
        have : List.find? ((fun d => d.name == name) ∘ renFun c) p.funs = none := by
          simpa [Function.comp_def, renFun] using hfind
        simp only [this, Option.map_none]
      | some d =>
        have : List.find? ((fun d => d.name == name) ∘ renFun c) p.funs = some d := by
          simpa [Function.comp_def, renFun] using hfind
        simp only [this, Option.map_some]
        have hmem : d ∈ p.funs := List.mem_of_find?_eq_some hfind
        have hfr := hc.freshFuns d hmem
        simp only [freshFun, Bool.and_eq_true] at hfr
        simp only [renFun, renNames_fst_length]
        by_cases hl : d.params.length = args.length
        · have hb := ER.bindNames hc.hx hc.hy (hitFun c d.name) d.params args false 0 [] [] s ER.nil hfr.1 hl.symm
          have hl' : (d.params.length != args.length) = false := by simpa using hl
          simp only [hl', Bool.false_eq_true, if_false]
          rw [show RefSem.bindNames (renNames c (hitFun c d.name) false 0 d.params).1 args [] s
                = ((RefSem.bindNames (renNames c (hitFun c d.name) false 0 d.params).1 args [] s).1,
                   (RefSem.bindNames d.params args [] s).2) by rw [← hb.2]]
          simp only [ih.seq _ _ _ _ d.body hb.1 hfr.2]
        · have hl' : (d.params.length != args.length) = true := by simpa using hl
          simp only [hl', if_true]
    | builtin name => simp only [applyVal, applyBuiltin, hc.enums]
    | int v => simp only [applyVal]
    | str v => simp only [applyVal]
    | list v => simp only [applyVal]
    | tuple v => simp only [applyVal]
    | enumV a b c => simp only [applyVal]
    | enumC a b => simp only [applyVal]

theorem sound_all {c : RenCfg} {p p' : Program} (hc : RCtx c p p') : ∀ n, Sound c p p' n
  | 0 => sound_zero c p p'
  | n + 1 => sound_succ hc n (sound_all hc n)

end Validators
