import GardenVerif.Model.Nrepl
/-!
Invariant of M10 used by C30 and C31, and its proof of inductiveness (`Inv_init`, `Inv_step`).
-/

namespace Nrepl

/-! ## Observations on the response queue -/

inductive Phase where
  | open | closed | bad
  deriving DecidableEq, Repr

/-- One step of the per-id protocol automaton: `open` until the first `done`, then `closed`;
anything with that id after `done` is `bad`. -/
def stepPhase (r : Nat) (p : Phase) (m : Msg) : Phase :=
  if m.rid = r then
    match p with
    | .open => if m.isDone then .closed else .open
    | _ => .bad
  else p

def phase (r : Nat) (q : List Msg) : Phase := q.foldl (stepPhase r) .open

def chunkOf (k : Stream) (r : Nat) : Msg → Data
  | .chunk k' r' d => if k' = k ∧ r' = r then d else []
  | _ => []

/-- Concatenation of the `out` (or `err`) chunks with id `r`, in queue order. -/
def deliv (k : Stream) (r : Nat) : List Msg → Data
  | [] => []
  | m :: q => chunkOf k r m ++ deliv k r q

theorem phase_append (r : Nat) (q : List Msg) (m : Msg) :
    phase r (q ++ [m]) = stepPhase r (phase r q) m := by
  simp [phase, List.foldl_append]

theorem deliv_append (k : Stream) (r : Nat) (q q' : List Msg) :
    deliv k r (q ++ q') = deliv k r q ++ deliv k r q' := by
  induction q with
  | nil => simp [deliv]
  | cons m q ih => simp [deliv, ih]

theorem phase_append_ne {r : Nat} {q : List Msg} {m : Msg} (h : m.rid ≠ r) :
    phase r (q ++ [m]) = phase r q := by
  simp [phase_append, stepPhase, h]

theorem deliv_append_ne {k : Stream} {r : Nat} {q : List Msg} {m : Msg} (h : m.rid ≠ r) :
    deliv k r (q ++ [m]) = deliv k r q := by
  rw [deliv_append]
  cases m <;> simp_all [deliv, chunkOf, Msg.rid]

theorem phase_sendChunk_ne {r r' : Nat} {q : List Msg} {k : Stream} {d : Data} (h : r' ≠ r) :
    phase r (sendChunk q k r' d) = phase r q := by
  unfold sendChunk
  split
  · rfl
  · exact phase_append_ne (by simpa [Msg.rid] using h)

theorem deliv_sendChunk_ne {k' : Stream} {r r' : Nat} {q : List Msg} {k : Stream} {d : Data}
    (h : r' ≠ r) : deliv k' r (sendChunk q k r' d) = deliv k' r q := by
  unfold sendChunk
  split
  · rfl
  · exact deliv_append_ne (by simpa [Msg.rid] using h)

theorem phase_sendChunk_open {r : Nat} {q : List Msg} {k : Stream} {d : Data}
    (h : phase r q = .open) : phase r (sendChunk q k r d) = .open := by
  unfold sendChunk
  split
  · exact h
  · simp [phase_append, stepPhase, h, Msg.rid, Msg.isDone]

theorem deliv_sendChunk (k' k : Stream) (r : Nat) (q : List Msg) (d : Data) :
    deliv k' r (sendChunk q k r d) = deliv k' r q ++ (if k = k' then d else []) := by
  unfold sendChunk
  split
  · next h => simp [h]
  · simp [deliv_append, deliv, chunkOf]

theorem phase_res_open {r : Nat} {q : List Msg} {b : Body} (h : phase r q = .open) :
    phase r (q ++ [.res r b]) = .open := by
  simp [phase_append, stepPhase, h, Msg.rid, Msg.isDone]

theorem phase_done_closed {r : Nat} {q : List Msg} {st : Status} (h : phase r q = .open) :
    phase r (q ++ [.done r st]) = .closed := by
  simp [phase_append, stepPhase, h, Msg.rid, Msg.isDone]

/-! ## The invariant -/

def fRid : FPc → Option Nat
  | .waiting r | .tookOut r _ | .mid r | .tookErr r _ => some r
  | .none | .exited => none

/-- Output taken from a buffer by the flusher and not yet sent. -/
def inflF (k : Stream) : FPc → Data
  | .tookOut _ d => if k = .out then d else []
  | .tookErr _ d => if k = .err then d else []
  | _ => []

/-- Output taken from a buffer by the worker's final drain and not yet sent. -/
def inflW (k : Stream) : WPc → Data
  | .tookOut _ _ d => if k = .out then d else []
  | .tookErr _ _ d => if k = .err then d else []
  | _ => []

/-- `msgs` is `res r*` followed by exactly one `done r`. -/
def msgsOk (r : Nat) : List Msg → Bool
  | [] => false
  | [.done r' _] => r' == r
  | (.res r' _) :: rest => r' == r && msgsOk r rest
  | _ => false

def PcOk (ss : Sess) : Prop :=
  match ss.wpc with
  | .idle | .exited | .dequeued _ | .ready _ | .parsed _ =>
    ss.fpc = .none ∧ ss.outBuf = [] ∧ ss.errBuf = [] ∧ ss.stop = false
  | .evaluating r | .running r | .flagSeen r | .evalDone r _ => fRid ss.fpc = some r ∧ ss.stop = false
  | .stopRequested r _ => (fRid ss.fpc = some r ∨ ss.fpc = .exited) ∧ ss.stop = true
  | .joined _ _ => ss.fpc = .exited
  | .tookOut _ _ _ | .drainedOut _ _ => ss.fpc = .exited ∧ ss.outBuf = []
  | .tookErr _ _ _ => ss.fpc = .exited ∧ ss.outBuf = [] ∧ ss.errBuf = []
  | .sending r msgs =>
    (ss.fpc = .exited ∨ ss.fpc = .none) ∧ ss.outBuf = [] ∧ ss.errBuf = [] ∧ msgsOk r msgs = true

/-- Per request id. `produced = delivered ++ in flight (flusher) ++ in flight (drain) ++ buffered`. -/
def RInv (s : State) (r : Nat) : Prop :=
  match s.rstat r with
  | .unseen | .queued _ | .direct =>
    phase r s.respQ = .open ∧ ∀ k, deliv k r s.respQ = [] ∧ s.produced k r = []
  | .active i =>
    cur (s.sess i).wpc = some r ∧ phase r s.respQ = .open ∧
    ∀ k, s.produced k r =
      deliv k r s.respQ ++ inflF k (s.sess i).fpc ++ inflW k (s.sess i).wpc ++ (s.sess i).buf k
  | .finished => phase r s.respQ = .closed ∧ ∀ k, s.produced k r = deliv k r s.respQ

structure SInv (s : State) (i : Nat) : Prop where
  queued : ∀ q ∈ (s.sess i).queue, s.rstat q.rid = .queued i
  nodup : ((s.sess i).queue.map Req.rid).Nodup
  curr : ∀ r, cur (s.sess i).wpc = some r → s.rstat r = .active i
  pc : PcOk (s.sess i)

def RpcOk (s : State) : Prop :=
  match s.rpc with
  | .idle => True
  | .closing _ r => s.rstat r = .direct
  | .reply m => m.isDone = true ∧ s.rstat m.rid = .direct

structure Inv (s : State) : Prop where
  fresh : ∀ r, s.nextRid ≤ r → s.rstat r = .unseen
  unborn : ∀ j, s.nextSess < j → (s.sess j).wpc = .exited
  rpc : RpcOk s
  sess : ∀ i, SInv s i
  req : ∀ r, RInv s r

/-- The parts of a session record the invariant looks at (everything but `live`, `flag`, `defs`). -/
def SameCore (a b : Sess) : Prop :=
  a.queue = b.queue ∧ a.wpc = b.wpc ∧ a.fpc = b.fpc ∧ a.stop = b.stop ∧ a.outBuf = b.outBuf ∧
    a.errBuf = b.errBuf

theorem SameCore.rfl' {a : Sess} : SameCore a a := ⟨rfl, rfl, rfl, rfl, rfl, rfl⟩

theorem SameCore.of_eq {a b : Sess} (h : a = b) : SameCore a b := h ▸ SameCore.rfl'

theorem RInv_frame {s s' : State} {r : Nat} (h : RInv s r)
    (hst : s'.rstat r = s.rstat r)
    (hprod : ∀ k, s'.produced k r = s.produced k r)
    (hsess : ∀ i, s.rstat r = .active i → SameCore (s'.sess i) (s.sess i))
    (hph : phase r s'.respQ = phase r s.respQ)
    (hdl : ∀ k, deliv k r s'.respQ = deliv k r s.respQ) : RInv s' r := by
  unfold RInv at *
  rw [hst]
  split
  · simp_all
  · simp_all
  · simp_all
  · rename_i i hi
    obtain ⟨_, h2, h3, _, h5, h6⟩ := hsess i hi
    simp only [hi] at h
    refine ⟨by rw [h2]; exact h.1, by rw [hph]; exact h.2.1, ?_⟩
    intro k
    rw [hprod, hdl, h2, h3, h.2.2 k]
    cases k <;> simp [Sess.buf, h5, h6]
  · simp_all

theorem SInv_same {s s' : State} {j : Nat} (h : SInv s j)
    (hsess : SameCore (s'.sess j) (s.sess j))
    (hst : ∀ r, s.rstat r = .queued j ∨ s.rstat r = .active j → s'.rstat r = s.rstat r) :
    SInv s' j := by
  obtain ⟨h1, h2, h3, h4, h5, h6⟩ := hsess
  refine ⟨?_, ?_, ?_, ?_⟩
  · rw [h1]; intro q hq
    have := h.queued q hq
    rw [hst _ (Or.inl this)]; exact this
  · rw [h1]; exact h.nodup
  · rw [h2]; intro r hr
    have := h.curr r hr
    rw [hst _ (Or.inr this)]; exact this
  · have := h.pc
    unfold PcOk at *
    rw [h2, h3, h4, h5, h6]; exact this

theorem Inv_init : Inv init := by
  refine ⟨?_, ?_, ?_, ?_, ?_⟩
  · intro r _; rfl
  · intro j _; rfl
  · simp [RpcOk, init]
  · intro i
    refine ⟨?_, ?_, ?_, ?_⟩ <;> simp [init, cur, PcOk]
  · intro r
    simp [RInv, init, phase, deliv]

/-! ## Inductiveness: generic helpers -/

theorem upd_same {α : Type} (f : Nat → α) (i : Nat) (v : α) : upd f i v i = v := by simp [upd]
theorem upd_ne {α : Type} (f : Nat → α) {i j : Nat} (v : α) (h : j ≠ i) : upd f i v j = f j := by
  simp [upd, h]

/-- The invariant does not mention the C31 ghost fields. -/
theorem Inv_ghost {s : State} (h : Inv s) (f g : Nat → Bool) :
    Inv { s with intr := f, sawFlag := g } := by
  obtain ⟨h1, h0, h2, h3, h4⟩ := h
  exact ⟨h1, h0, h2, fun i => ⟨(h3 i).1, (h3 i).2, (h3 i).3, (h3 i).4⟩, h4⟩

/-- If `r` is active in `j` and `r'` is current in `i`, then `r ≠ r'` or `j = i`. -/
theorem active_cur {s : State} (h : Inv s) {i j r : Nat} (hcur : cur (s.sess i).wpc = some r)
    (hj : s.rstat r = .active j) : j = i := by
  have := (h.sess i).curr r hcur
  rw [hj] at this
  exact RStat.active.inj this

theorem active_is_cur {s : State} (h : Inv s) {j r : Nat} (hj : s.rstat r = .active j) :
    cur (s.sess j).wpc = some r := by
  have := h.req r
  unfold RInv at this
  simp only [hj] at this
  exact this.1

/-- A step of session `i` that touches only its own `Sess`, keeps the queue and the current
request, and moves output only between buffer / in-flight slots. -/
theorem Inv_setSess {s : State} {i : Nat} {ss' : Sess} (h : Inv s)
    (hq : ss'.queue = (s.sess i).queue) (hcur : cur ss'.wpc = cur (s.sess i).wpc)
    (hex : (s.sess i).wpc = .exited → ss'.wpc = .exited)
    (hpc : PcOk ss')
    (hsum : ∀ k, inflF k ss'.fpc ++ inflW k ss'.wpc ++ ss'.buf k =
      inflF k (s.sess i).fpc ++ inflW k (s.sess i).wpc ++ (s.sess i).buf k) :
    Inv (setSess s i ss') := by
  obtain ⟨h1, h0, h2, h3, h4⟩ := h
  refine ⟨h1, ?_, h2, ?_, ?_⟩
  · intro j hj
    by_cases hji : j = i
    · subst hji; simp only [setSess, upd_same]; exact hex (h0 j hj)
    · simp only [setSess, upd_ne _ _ hji]; exact h0 j hj
  · intro j
    by_cases hj : j = i
    · subst hj
      have := h3 j
      refine ⟨?_, ?_, ?_, ?_⟩ <;> simp only [setSess, upd_same]
      · rw [hq]; exact this.queued
      · rw [hq]; exact this.nodup
      · rw [hcur]; exact this.curr
      · exact hpc
    · exact SInv_same (h3 j) (SameCore.of_eq (by simp [setSess, upd_ne _ _ hj])) (fun _ _ => rfl)
  · intro r
    have hr := h4 r
    unfold RInv at *
    simp only [setSess]
    split <;> rename_i heq <;> simp only [heq] at hr
    · exact hr
    · exact hr
    · exact hr
    · rename_i j
      by_cases hj : j = i
      · subst hj
        simp only [upd_same]
        refine ⟨by rw [hcur]; exact hr.1, hr.2.1, ?_⟩
        intro k
        rw [hr.2.2 k]
        simp only [List.append_assoc] at hsum ⊢
        rw [hsum k]
      · simp only [upd_ne _ _ hj]
        exact hr
    · exact hr

/-- Session `i` (worker or flusher) appends to the response queue on behalf of its current
request `r`, which stays current. -/
theorem Inv_send {s : State} {i r : Nat} {ss' : Sess} {q' : List Msg} (h : Inv s)
    (hcur0 : cur (s.sess i).wpc = some r)
    (hq : ss'.queue = (s.sess i).queue) (hcur : cur ss'.wpc = some r)
    (hpc : PcOk ss')
    (hph : phase r s.respQ = .open → phase r q' = .open)
    (hne : ∀ r', r' ≠ r → phase r' q' = phase r' s.respQ ∧ ∀ k, deliv k r' q' = deliv k r' s.respQ)
    (hsum : ∀ k, deliv k r q' ++ inflF k ss'.fpc ++ inflW k ss'.wpc ++ ss'.buf k =
      deliv k r s.respQ ++ inflF k (s.sess i).fpc ++ inflW k (s.sess i).wpc ++ (s.sess i).buf k) :
    Inv { setSess s i ss' with respQ := q' } := by
  have hact : s.rstat r = .active i := (h.sess i).curr r hcur0
  have hI := h
  obtain ⟨h1, h0, h2, h3, h4⟩ := h
  refine ⟨h1, ?_, h2, ?_, ?_⟩
  · intro j hj
    by_cases hji : j = i
    · subst hji
      have := h0 j hj
      rw [this] at hcur0; cases hcur0
    · simp only [setSess, upd_ne _ _ hji]; exact h0 j hj
  · intro j
    by_cases hj : j = i
    · subst hj
      have := h3 j
      refine ⟨?_, ?_, ?_, ?_⟩ <;> simp only [setSess, upd_same]
      · rw [hq]; exact this.queued
      · rw [hq]; exact this.nodup
      · rw [hcur]; intro r' hr'; cases hr'; exact hact
      · exact hpc
    · exact SInv_same (h3 j) (SameCore.of_eq (by simp [setSess, upd_ne _ _ hj])) (fun _ _ => rfl)
  · intro r'
    have hr := h4 r'
    by_cases hrr : r' = r
    · subst hrr
      unfold RInv at *
      simp only [setSess, hact, upd_same] at hr ⊢
      refine ⟨hcur, hph hr.2.1, ?_⟩
      intro k
      rw [hr.2.2 k, hsum k]
    · refine RInv_frame hr rfl (fun _ => rfl) ?_ (hne r' hrr).1 (hne r' hrr).2
      intro j hj
      have : j ≠ i := by
        intro hji; subst hji
        have := active_is_cur hI hj
        rw [hcur0] at this
        exact hrr (Option.some.inj this).symm
      exact SameCore.of_eq (by simp [setSess, upd_ne _ _ this])

macro "internal_step" h:ident hs:ident i:ident : tactic => `(tactic| (
  simp only [step] at $hs:ident
  have hp := (Inv.sess $h $i).pc
  unfold PcOk at hp
  split at $hs:ident <;> (try split at $hs:ident) <;> (try split at $hs:ident) <;> (try (simp only [reduceCtorEq] at $hs:ident; done))
  all_goals (
    cases $hs:ident
    apply Inv_setSess $h <;> (try intro k; cases k) <;> simp_all [cur, PcOk, inflF, inflW, Sess.buf, fRid, msgsOk, resMsgs])))

macro "internal_fstep" h:ident hs:ident i:ident : tactic => `(tactic| (
  simp only [step] at $hs:ident
  have hp := (Inv.sess $h $i).pc
  unfold PcOk at hp
  split at $hs:ident <;> (try split at $hs:ident) <;> (try (simp only [reduceCtorEq] at $hs:ident; done))
  all_goals (
    cases $hs:ident
    cases hw : (Sess.wpc (State.sess _ $i)) <;> simp only [hw] at hp <;>
    apply Inv_setSess $h <;> (try intro k; cases k) <;> simp_all [cur, PcOk, inflF, inflW, Sess.buf, fRid, msgsOk, resMsgs])))

theorem hne_chunk {q : List Msg} {k : Stream} {r : Nat} {d : Data} :
    ∀ r', r' ≠ r → phase r' (sendChunk q k r d) = phase r' q ∧
      ∀ k', deliv k' r' (sendChunk q k r d) = deliv k' r' q :=
  fun _ hr' => ⟨phase_sendChunk_ne (Ne.symm hr'), fun _ => deliv_sendChunk_ne (Ne.symm hr')⟩

theorem hne_msg {q : List Msg} {m : Msg} {r : Nat} (hm : m.rid = r) :
    ∀ r', r' ≠ r → phase r' (q ++ [m]) = phase r' q ∧ ∀ k', deliv k' r' (q ++ [m]) = deliv k' r' q :=
  fun _ hr' => ⟨phase_append_ne (by rw [hm]; exact Ne.symm hr'), fun _ => deliv_append_ne (by rw [hm]; exact Ne.symm hr')⟩

theorem deliv_res (k : Stream) (r r' : Nat) (q : List Msg) (b : Body) :
    deliv k r (q ++ [.res r' b]) = deliv k r q := by simp [deliv_append, deliv, chunkOf]

theorem deliv_done (k : Stream) (r r' : Nat) (q : List Msg) (st : Status) :
    deliv k r (q ++ [.done r' st]) = deliv k r q := by simp [deliv_append, deliv, chunkOf]

theorem Inv_produce {s : State} {i r : Nat} {ss' : Sess} {k0 : Stream} {d : Data} (h : Inv s)
    (hcur0 : cur (s.sess i).wpc = some r)
    (hq : ss'.queue = (s.sess i).queue) (hcur : cur ss'.wpc = some r)
    (hpc : PcOk ss')
    (hsum : ∀ k, inflF k ss'.fpc ++ inflW k ss'.wpc ++ ss'.buf k =
      inflF k (s.sess i).fpc ++ inflW k (s.sess i).wpc ++ (s.sess i).buf k ++ (if k = k0 then d else [])) :
    Inv { setSess s i ss' with
          produced := fun k r' => if k = k0 ∧ r' = r then s.produced k r' ++ d else s.produced k r' } := by
  have hact : s.rstat r = .active i := (h.sess i).curr r hcur0
  have hI := h
  obtain ⟨h1, h0, h2, h3, h4⟩ := h
  refine ⟨h1, ?_, h2, ?_, ?_⟩
  · intro j hj
    by_cases hji : j = i
    · subst hji
      have := h0 j hj
      rw [this] at hcur0; cases hcur0
    · simp only [setSess, upd_ne _ _ hji]; exact h0 j hj
  · intro j
    by_cases hj : j = i
    · subst hj
      have := h3 j
      refine ⟨?_, ?_, ?_, ?_⟩ <;> simp only [setSess, upd_same]
      · rw [hq]; exact this.queued
      · rw [hq]; exact this.nodup
      · rw [hcur]; intro r' hr'; cases hr'; exact hact
      · exact hpc
    · exact SInv_same (h3 j) (SameCore.of_eq (by simp [setSess, upd_ne _ _ hj])) (fun _ _ => rfl)
  · intro r'
    have hr := h4 r'
    by_cases hrr : r' = r
    · subst hrr
      unfold RInv at *
      simp only [setSess, hact, upd_same] at hr ⊢
      refine ⟨hcur, hr.2.1, ?_⟩
      intro k
      have := hsum k
      simp only [List.append_assoc] at this ⊢
      rw [this, hr.2.2 k]
      by_cases hk : k = k0 <;> simp [hk]
    · refine RInv_frame hr rfl (fun k => by simp [hrr]) ?_ rfl (fun _ => rfl)
      intro j hj
      have : j ≠ i := by
        intro hji; subst hji
        have := active_is_cur hI hj
        rw [hcur0] at this
        exact hrr (Option.some.inj this).symm
      exact SameCore.of_eq (by simp [setSess, upd_ne _ _ this])

theorem RInv_finish {s s' : State} {r : Nat} {st : Status}
    (hq : s'.respQ = s.respQ ++ [.done r st]) (hst : s'.rstat r = .finished)
    (hprod : ∀ k, s'.produced k r = s.produced k r)
    (hph : phase r s.respQ = .open) (hd : ∀ k, s.produced k r = deliv k r s.respQ) : RInv s' r := by
  unfold RInv
  rw [hst, hq]
  exact ⟨phase_done_closed hph, fun k => by rw [hprod, deliv_done, hd]⟩

/-- Frame for all ids other than the one a `done r` was appended for. -/
theorem RInv_other_done {s s' : State} {r r' : Nat} {st : Status} (hI : Inv s) (hrr : r' ≠ r)
    (hq : s'.respQ = s.respQ ++ [.done r st]) (hst : s'.rstat r' = s.rstat r')
    (hprod : ∀ k, s'.produced k r' = s.produced k r')
    (hsess : ∀ i, s.rstat r' = .active i → SameCore (s'.sess i) (s.sess i)) : RInv s' r' := by
  refine RInv_frame (hI.req r') hst hprod hsess ?_ ?_
  · rw [hq]; exact phase_append_ne (by simpa [Msg.rid] using Ne.symm hrr)
  · intro k; rw [hq]; exact deliv_append_ne (by simpa [Msg.rid] using Ne.symm hrr)

theorem RpcOk_of {s s' : State} (h : RpcOk s) (hr : s'.rpc = s.rpc)
    (hst : ∀ r, s.rstat r = .direct → s'.rstat r = .direct) : RpcOk s' := by
  unfold RpcOk at *
  rw [hr]
  split <;> simp_all

def SameOut (a b : Sess) : Prop :=
  a.wpc = b.wpc ∧ a.fpc = b.fpc ∧ a.outBuf = b.outBuf ∧ a.errBuf = b.errBuf

theorem RInv_frame' {s s' : State} {r : Nat} (h : RInv s r)
    (hst : s'.rstat r = s.rstat r)
    (hprod : ∀ k, s'.produced k r = s.produced k r)
    (hsess : ∀ i, s.rstat r = .active i → SameOut (s'.sess i) (s.sess i))
    (hph : phase r s'.respQ = phase r s.respQ)
    (hdl : ∀ k, deliv k r s'.respQ = deliv k r s.respQ) : RInv s' r := by
  unfold RInv at *
  rw [hst]
  split
  · simp_all
  · simp_all
  · simp_all
  · rename_i i hi
    obtain ⟨h2, h3, h5, h6⟩ := hsess i hi
    simp only [hi] at h
    refine ⟨by rw [h2]; exact h.1, by rw [hph]; exact h.2.1, ?_⟩
    intro k
    rw [hprod, hdl, h2, h3, h.2.2 k]
    cases k <;> simp [Sess.buf, h5, h6]
  · simp_all

/-- Reader steps: every id other than the request being handled is untouched. -/
theorem req_reader {s s' : State} {r0 : Nat} (h : Inv s)
    (hst : ∀ r, r ≠ r0 → s'.rstat r = s.rstat r) (hprod : s'.produced = s.produced)
    (hcore : ∀ j r, s.rstat r = .active j → SameOut (s'.sess j) (s.sess j))
    (hq : s'.respQ = s.respQ ∨ ∃ m, m.rid = r0 ∧ s'.respQ = s.respQ ++ [m]) :
    ∀ r, r ≠ r0 → RInv s' r := by
  intro r hr
  refine RInv_frame' (h.req r) (hst r hr) (fun k => by rw [hprod]) (fun j hj => hcore j r hj) ?_ ?_
  · rcases hq with hq | ⟨m, hm, hq⟩ <;> rw [hq]
    exact phase_append_ne (by rw [hm]; exact Ne.symm hr)
  · intro k
    rcases hq with hq | ⟨m, hm, hq⟩ <;> rw [hq]
    exact deliv_append_ne (by rw [hm]; exact Ne.symm hr)

theorem rstat_ne_of_session {s : State} {j r r0 : Nat}
    (h0 : s.rstat r0 = .unseen ∨ s.rstat r0 = .direct)
    (hr : s.rstat r = .queued j ∨ s.rstat r = .active j) : r ≠ r0 := by
  intro hh; subst hh
  rcases h0 with h0 | h0 <;> rcases hr with hr | hr <;> rw [h0] at hr <;> cases hr

theorem Inv_direct {s : State} (h : Inv s) (hrpc : s.rpc = .idle) (st : Status) :
    Inv { s with nextRid := s.nextRid + 1, respQ := s.respQ ++ [.done s.nextRid st],
                 rstat := upd s.rstat s.nextRid .finished } := by
  have h0 : s.rstat s.nextRid = .unseen := h.fresh _ (Nat.le_refl _)
  have hreq := h.req s.nextRid
  unfold RInv at hreq
  simp only [h0] at hreq
  refine ⟨?_, h.unborn, ?_, ?_, ?_⟩
  · intro r hr
    have hne : r ≠ s.nextRid := by simp at hr; omega
    simp only [upd_ne _ _ hne]
    exact h.fresh r (by simp at hr; omega)
  · simp [RpcOk, hrpc]
  · intro j
    refine SInv_same (h.sess j) SameCore.rfl' ?_
    intro r hr
    simp [upd_ne _ _ (rstat_ne_of_session (Or.inl h0) hr)]
  · intro r
    by_cases hrr : r = s.nextRid
    · subst hrr
      refine RInv_finish (s := s) rfl (by simp [upd_same]) (fun _ => rfl) hreq.1 ?_
      intro k; rw [(hreq.2 k).1, (hreq.2 k).2]
    · refine req_reader (s := s) (r0 := s.nextRid) h ?_ ?_ ?_ ?_ r hrr
      · intro r hr; simp [upd_ne _ _ hr]
      · rfl
      · intro _ _ _; exact ⟨rfl, rfl, rfl, rfl⟩
      · exact Or.inr ⟨_, rfl, rfl⟩

theorem Inv_newSess {s : State} (h : Inv s) :
    Inv { s with nextSess := s.nextSess + 1,
                 sess := upd s.sess (s.nextSess + 1) { live := true, wpc := .idle } } := by
  have hex : (s.sess (s.nextSess + 1)).wpc = .exited := h.unborn _ (Nat.lt_succ_self _)
  refine ⟨h.fresh, ?_, RpcOk_of h.rpc rfl (fun _ hr => hr), ?_, ?_⟩
  · intro j hj
    have hne : j ≠ s.nextSess + 1 := by simp at hj; omega
    simp only [upd_ne _ _ hne]
    exact h.unborn j (by simp at hj; omega)
  · intro j
    by_cases hj : j = s.nextSess + 1
    · subst hj
      refine ⟨?_, ?_, ?_, ?_⟩ <;> simp [upd_same, cur, PcOk]
    · exact SInv_same (h.sess j) (SameCore.of_eq (by simp [upd_ne _ _ hj])) (fun _ _ => rfl)
  · intro r
    refine RInv_frame' (h.req r) rfl (fun _ => rfl) ?_ rfl (fun _ => rfl)
    intro j hj
    have : j ≠ s.nextSess + 1 := by
      intro hh; subst hh
      have := active_is_cur h hj
      rw [hex] at this; simp [cur] at this
    simp [upd_ne _ _ this, SameOut]

/-- `close` / `interrupt` on a live session: flag store, the reply is pending. -/
theorem Inv_flagset {s : State} (h : Inv s) (i : Nat) (p : RPc) (f : Nat → Bool)
    (hp : match p with
      | .idle => True
      | .closing _ r => r = s.nextRid
      | .reply m => m.isDone = true ∧ m.rid = s.nextRid) :
    Inv { s with nextRid := s.nextRid + 1,
                 sess := upd s.sess i { s.sess i with flag := true },
                 rpc := p, rstat := upd s.rstat s.nextRid .direct, intr := f } := by
  have h0 : s.rstat s.nextRid = .unseen := h.fresh _ (Nat.le_refl _)
  have hreq := h.req s.nextRid
  unfold RInv at hreq
  simp only [h0] at hreq
  have hsame : ∀ j, SameCore (upd s.sess i { s.sess i with flag := true } j) (s.sess j) := by
    intro j
    by_cases hj : j = i
    · subst hj; simp [upd_same, SameCore]
    · simp [upd_ne _ _ hj, SameCore]
  refine ⟨?_, ?_, ?_, ?_, ?_⟩
  · intro r hr
    have hne : r ≠ s.nextRid := by simp at hr; omega
    simp only [upd_ne _ _ hne]
    exact h.fresh r (by simp at hr; omega)
  · intro j hj
    have := h.unborn j hj
    rw [← (hsame j).2.1] at this; exact this
  · unfold RpcOk
    cases p <;> simp_all [upd_same]
  · intro j
    refine SInv_same (h.sess j) (hsame j) ?_
    intro r hr
    simp [upd_ne _ _ (rstat_ne_of_session (Or.inl h0) hr)]
  · intro r
    by_cases hrr : r = s.nextRid
    · subst hrr
      unfold RInv
      simp only [upd_same]
      exact hreq
    · refine req_reader (s := s) (r0 := s.nextRid) h ?_ ?_ ?_ ?_ r hrr
      · intro r hr; simp [upd_ne _ _ hr]
      · rfl
      · intro j _ _
        exact ⟨(hsame j).2.1, (hsame j).2.2.1, (hsame j).2.2.2.2.1, (hsame j).2.2.2.2.2⟩
      · exact Or.inl rfl

theorem Inv_enqueue {s : State} (h : Inv s) (i : Nat) (kind : ReqKind) :
    Inv { s with nextRid := s.nextRid + 1,
                 sess := upd s.sess i { s.sess i with queue := (s.sess i).queue ++ [⟨s.nextRid, kind⟩] },
                 rstat := upd s.rstat s.nextRid (.queued i) } := by
  have h0 : s.rstat s.nextRid = .unseen := h.fresh _ (Nat.le_refl _)
  have hreq := h.req s.nextRid
  unfold RInv at hreq
  simp only [h0] at hreq
  have hout : ∀ j, SameOut (upd s.sess i
      { s.sess i with queue := (s.sess i).queue ++ [⟨s.nextRid, kind⟩] } j) (s.sess j) := by
    intro j
    by_cases hj : j = i
    · subst hj; simp [upd_same, SameOut]
    · simp [upd_ne _ _ hj, SameOut]
  refine ⟨?_, ?_, ?_, ?_, ?_⟩
  · intro r hr
    have hne : r ≠ s.nextRid := by simp at hr; omega
    simp only [upd_ne _ _ hne]
    exact h.fresh r (by simp at hr; omega)
  · intro j hj
    have := h.unborn j hj
    rw [← (hout j).1] at this; exact this
  · refine RpcOk_of h.rpc rfl ?_
    intro r hr
    have : r ≠ s.nextRid := by intro hh; subst hh; rw [h0] at hr; cases hr
    simp [upd_ne _ _ this, hr]
  · intro j
    by_cases hj : j = i
    · subst hj
      have hsj := h.sess j
      refine ⟨?_, ?_, ?_, ?_⟩ <;> simp only [upd_same]
      · intro q hq
        simp only [List.mem_append, List.mem_singleton] at hq
        rcases hq with hq | hq
        · have := hsj.queued q hq
          simpa [upd_ne _ _ (rstat_ne_of_session (Or.inl h0) (Or.inl this))] using this
        · subst hq; simp [upd_same]
      · simp only [List.map_append, List.map_cons, List.map_nil]
        refine List.nodup_append.mpr ⟨hsj.nodup, by simp, ?_⟩
        intro a ha b hb
        simp only [List.mem_singleton] at hb
        subst hb
        obtain ⟨q, hq, hqa⟩ := List.mem_map.mp ha
        subst hqa
        exact rstat_ne_of_session (Or.inl h0) (Or.inl (hsj.queued q hq))
      · intro r hr
        have := hsj.curr r hr
        simpa [upd_ne _ _ (rstat_ne_of_session (Or.inl h0) (Or.inr this))] using this
      · simpa [PcOk] using hsj.pc
    · refine SInv_same (h.sess j) (SameCore.of_eq (by simp [upd_ne _ _ hj])) ?_
      intro r hr
      simp [upd_ne _ _ (rstat_ne_of_session (Or.inl h0) hr)]
  · intro r
    by_cases hrr : r = s.nextRid
    · subst hrr
      unfold RInv
      simp only [upd_same]
      exact hreq
    · refine req_reader (s := s) (r0 := s.nextRid) h ?_ ?_ ?_ ?_ r hrr
      · intro r hr; simp [upd_ne _ _ hr]
      · rfl
      · intro j _ _; exact hout j
      · exact Or.inl rfl

set_option linter.unusedSimpArgs false in
theorem Inv_step {s s' : State} {l : Label} (h : Inv s) (hs : step s l = some s') : Inv s' := by
  cases l with
  | wReset i => internal_step h hs i
  | wExit i => internal_step h hs i
  | wSpawn i => internal_step h hs i
  | wClear i => internal_step h hs i
  | wFinish i v => internal_step h hs i
  | wStop i => internal_step h hs i
  | wJoin i => internal_step h hs i
  | wTakeOut i => internal_step h hs i
  | wTakeErr i => internal_step h hs i
  | fTakeOut i => internal_fstep h hs i
  | fTakeErr i => internal_fstep h hs i
  | fStop i => internal_fstep h hs i
  | wTest i =>
    simp only [step] at hs
    have hp := (h.sess i).pc
    unfold PcOk at hp
    split at hs <;> (try split at hs) <;> (try (simp only [reduceCtorEq] at hs; done))
    · cases hs
      refine Inv_ghost (s := setSess s i _) ?_ _ _
      apply Inv_setSess h <;> (try intro k; cases k) <;> simp_all [cur, PcOk, inflF, inflW, Sess.buf, fRid]
    · cases hs
      apply Inv_setSess h <;> (try intro k; cases k) <;> simp_all [cur, PcOk, inflF, inflW, Sess.buf, fRid]
  | wSendOut i =>
    simp only [step] at hs
    have hp := (h.sess i).pc
    unfold PcOk at hp
    split at hs <;> (try (simp only [reduceCtorEq] at hs; done))
    rename_i r res d heq
    cases hs
    simp only [heq] at hp
    refine Inv_send h (r := r) (by simp [heq, cur]) rfl (by simp [cur]) (by simp_all [PcOk]) phase_sendChunk_open hne_chunk ?_
    intro k
    rw [deliv_sendChunk]
    cases k <;> simp_all [inflF, inflW, Sess.buf]
  | wSendErr i =>
    simp only [step] at hs
    have hp := (h.sess i).pc
    unfold PcOk at hp
    split at hs <;> (try (simp only [reduceCtorEq] at hs; done))
    rename_i r res d heq
    cases hs
    simp only [heq] at hp
    refine Inv_send h (r := r) (by simp [heq, cur]) rfl (by simp [cur]) ?_ phase_sendChunk_open hne_chunk ?_
    · cases res <;> simp_all [PcOk, resMsgs, msgsOk]
    · intro k
      rw [deliv_sendChunk]
      cases k <;> simp_all [inflF, inflW, Sess.buf]
  | fSendOut i =>
    simp only [step] at hs
    split at hs <;> (try (simp only [reduceCtorEq] at hs; done))
    rename_i r d heq
    cases hs
    have hp := (h.sess i).pc
    unfold PcOk at hp
    have hcur : cur (s.sess i).wpc = some r := by
      cases hw : (s.sess i).wpc <;> simp_all [fRid, cur]
    refine Inv_send h (r := r) hcur rfl hcur ?_ phase_sendChunk_open hne_chunk ?_
    · unfold PcOk; cases hw : (s.sess i).wpc <;> simp_all [fRid]
    · intro k
      rw [deliv_sendChunk]
      cases k <;> simp_all [inflF, inflW, Sess.buf]
  | fSendErr i =>
    simp only [step] at hs
    split at hs <;> (try (simp only [reduceCtorEq] at hs; done))
    rename_i r d heq
    cases hs
    have hp := (h.sess i).pc
    unfold PcOk at hp
    have hcur : cur (s.sess i).wpc = some r := by
      cases hw : (s.sess i).wpc <;> simp_all [fRid, cur]
    refine Inv_send h (r := r) hcur rfl hcur ?_ phase_sendChunk_open hne_chunk ?_
    · unfold PcOk; cases hw : (s.sess i).wpc <;> simp_all [fRid]
    · intro k
      rw [deliv_sendChunk]
      cases k <;> simp_all [inflF, inflW, Sess.buf]
  | wAct i a =>
    simp only [step] at hs
    have hp := (h.sess i).pc
    unfold PcOk at hp
    split at hs <;> (try (simp only [reduceCtorEq] at hs; done))
    rename_i r heq
    simp only [heq] at hp
    split at hs
    · cases hs
      refine Inv_produce h (r := r) (k0 := .out) (by simp [heq, cur]) rfl (by simp [cur]) (by simp_all [PcOk]) ?_
      intro k; cases k <;> simp_all [inflF, inflW, Sess.buf]
    · cases hs
      refine Inv_produce h (r := r) (k0 := .err) (by simp [heq, cur]) rfl (by simp [cur]) (by simp_all [PcOk]) ?_
      intro k; cases k <;> simp_all [inflF, inflW, Sess.buf]
    all_goals (
      cases hs
      apply Inv_setSess h <;> (try intro k; cases k) <;> simp_all [cur, PcOk, inflF, inflW, Sess.buf, fRid])
  | wStart i o =>
    simp only [step] at hs
    have hp := (h.sess i).pc
    unfold PcOk at hp
    split at hs <;> (try (simp only [reduceCtorEq] at hs; done))
    rename_i q heq
    simp only [heq] at hp
    split at hs <;> (try (simp only [reduceCtorEq] at hs; done))
    · cases hs
      apply Inv_setSess h <;> (try intro k; cases k) <;> simp_all [cur, PcOk, inflF, inflW, Sess.buf, fRid, msgsOk]
    · cases hs
      apply Inv_setSess h <;> (try intro k; cases k) <;> simp_all [cur, PcOk, inflF, inflW, Sess.buf, fRid, msgsOk]
    · cases hs
      apply Inv_setSess h <;> (try intro k; cases k) <;> simp_all [cur, PcOk, inflF, inflW, Sess.buf, fRid, msgsOk]
    · cases hs
      refine Inv_send h (r := q.rid) (by simp [heq, cur]) rfl (by simp [cur]) (by simp_all [PcOk]) phase_res_open (hne_msg rfl) ?_
      intro k
      rw [deliv_res]
      cases k <;> simp_all [inflF, inflW, Sess.buf]
  | wSend i =>
    simp only [step] at hs
    have hp := (h.sess i).pc
    unfold PcOk at hp
    split at hs <;> (try (simp only [reduceCtorEq] at hs; done))
    · rename_i r m m' rest heq
      cases hs
      simp only [heq] at hp
      cases m <;> simp [msgsOk] at hp
      rename_i r' b
      obtain ⟨hp1, hp2, hp3, hp4, hp5⟩ := hp
      subst hp4
      refine Inv_send h (r := r') (by simp [heq, cur]) rfl (by simp [cur]) ?_ phase_res_open (hne_msg rfl) ?_
      · simp_all [PcOk]
      · intro k
        rw [deliv_res]
        cases k <;> simp_all [inflF, inflW, Sess.buf]
    · rename_i r m heq
      cases hs
      simp only [heq] at hp
      cases m <;> simp [msgsOk] at hp
      rename_i r' st
      obtain ⟨hp1, hp2, hp3, hp4⟩ := hp
      subst hp4
      have hcur : cur (s.sess i).wpc = some r' := by simp [heq, cur]
      have hact : s.rstat r' = .active i := (h.sess i).curr r' hcur
      have hreq := h.req r'
      unfold RInv at hreq
      simp only [hact] at hreq
      refine ⟨?_, ?_, ?_, ?_, ?_⟩
      · intro r hr
        have := h.fresh r hr
        by_cases hrr : r = r'
        · subst hrr; rw [hact] at this; cases this
        · simpa [setSess, upd_ne _ _ hrr] using this
      · intro j hj
        by_cases hji : j = i
        · subst hji; have := h.unborn j hj; rw [heq] at this; cases this
        · simpa [setSess, upd_ne _ _ hji] using h.unborn j hj
      · have := h.rpc
        unfold RpcOk at *
        simp only [setSess]
        split <;> rename_i hrpc <;> simp only [hrpc] at this
        · trivial
        · rename_i j r
          by_cases hrr : r = r'
          · subst hrr; rw [hact] at this; cases this
          · simpa [upd_ne _ _ hrr] using this
        · rename_i m
          by_cases hrr : m.rid = r'
          · rw [hrr, hact] at this; cases this.2
          · simpa [upd_ne _ _ hrr] using this
      · intro j
        by_cases hj : j = i
        · subst hj
          have hsj := h.sess j
          refine ⟨?_, ?_, ?_, ?_⟩ <;> simp only [setSess, upd_same]
          · intro q hq
            have := hsj.queued q hq
            have hne : q.rid ≠ r' := by intro hh; rw [hh, hact] at this; cases this
            simpa [upd_ne _ _ hne] using this
          · exact hsj.nodup
          · intro r hr; simp [cur] at hr
          · simp [PcOk, hp2, hp3]
        · refine SInv_same (h.sess j) (SameCore.of_eq (by simp [setSess, upd_ne _ _ hj])) ?_
          intro r hr
          have hne : r ≠ r' := by
            intro hh; subst hh; rw [hact] at hr
            rcases hr with hr | hr
            · cases hr
            · exact hj (RStat.active.inj hr).symm
          simp [setSess, upd_ne _ _ hne]
      · intro r
        by_cases hrr : r = r'
        · subst hrr
          refine RInv_finish (s := s) rfl (by simp [setSess, upd_same]) (fun _ => rfl) hreq.2.1 ?_
          intro k
          rw [hreq.2.2 k]
          rcases hp1 with hp1 | hp1 <;> cases k <;> simp [hp1, heq, inflF, inflW, Sess.buf, hp2, hp3]
        · refine RInv_other_done h hrr rfl (by simp [setSess, upd_ne _ _ hrr]) (fun _ => rfl) ?_
          intro j hj
          have : j ≠ i := by
            intro hji; subst hji
            have := active_is_cur h hj
            rw [hcur] at this
            exact hrr (Option.some.inj this).symm
          exact SameCore.of_eq (by simp [setSess, upd_ne _ _ this])
  | wDequeue i =>
    simp only [step] at hs
    have hp := (h.sess i).pc
    unfold PcOk at hp
    split at hs <;> (try (simp only [reduceCtorEq] at hs; done))
    rename_i q rest hw hqu
    cases hs
    simp only [hw] at hp
    have hsi := h.sess i
    have hqd : s.rstat q.rid = .queued i := hsi.queued q (by simp [hqu])
    have hreq := h.req q.rid
    unfold RInv at hreq
    simp only [hqd] at hreq
    refine ⟨?_, ?_, ?_, ?_, ?_⟩
    · intro r hr
      have := h.fresh r hr
      by_cases hrr : r = q.rid
      · subst hrr; rw [hqd] at this; cases this
      · simpa [upd_ne _ _ hrr] using this
    · intro j hj
      by_cases hji : j = i
      · subst hji; have := h.unborn j hj; rw [hw] at this; cases this
      · simpa [upd_ne _ _ hji] using h.unborn j hj
    · refine RpcOk_of h.rpc rfl ?_
      intro r hr
      have : r ≠ q.rid := by intro hh; subst hh; rw [hqd] at hr; cases hr
      simp [upd_ne _ _ this, hr]
    · intro j
      by_cases hj : j = i
      · subst hj
        have hnd := hsi.nodup
        rw [hqu] at hnd
        simp only [List.map_cons, List.nodup_cons] at hnd
        refine ⟨?_, ?_, ?_, ?_⟩ <;> (try simp only [upd_same])
        · intro q' hq'
          have := hsi.queued q' (by simp [hqu, hq'])
          have hne : q'.rid ≠ q.rid := by
            intro hh; exact hnd.1 (by rw [← hh]; exact List.mem_map_of_mem hq')
          simpa [upd_ne _ _ hne] using this
        · exact hnd.2
        · intro r hr; simp [cur] at hr; subst hr; simp [upd_same]
        · simp_all [PcOk]
      · refine SInv_same (h.sess j) (SameCore.of_eq (by simp [upd_ne _ _ hj])) ?_
        intro r hr
        have hne : r ≠ q.rid := by
          intro hh; subst hh; rw [hqd] at hr
          rcases hr with hr | hr
          · exact hj (RStat.queued.inj hr).symm
          · cases hr
        simp [upd_ne _ _ hne]
    · intro r
      by_cases hrr : r = q.rid
      · subst hrr
        unfold RInv
        simp only [upd_same]
        refine ⟨by simp [cur], hreq.1, ?_⟩
        intro k
        rw [(hreq.2 k).1, (hreq.2 k).2]
        cases k <;> simp [inflF, inflW, Sess.buf, hp.1, hp.2.1, hp.2.2.1]
      · refine RInv_frame (h.req r) (by simp [upd_ne _ _ hrr]) (fun _ => rfl) ?_ rfl (fun _ => rfl)
        intro j hj
        have : j ≠ i := by
          intro hji; subst hji
          have := active_is_cur h hj
          rw [hw] at this; simp [cur] at this
        exact SameCore.of_eq (by simp [upd_ne _ _ this])
  | client m =>
    simp only [step] at hs
    split at hs <;> (try (simp only [reduceCtorEq] at hs; done))
    rename_i hrpc
    split at hs
    · cases hs; exact Inv_direct h hrpc _
    · cases hs; exact Inv_direct h hrpc _
    · cases hs; exact Inv_direct h hrpc _
    · cases hs
      exact Inv_newSess (Inv_direct h hrpc _)
    · split at hs
      · cases hs; exact Inv_flagset h _ _ _ (by simp)
      · cases hs; exact Inv_direct h hrpc _
    · split at hs
      · cases hs; exact Inv_flagset h _ _ _ (by simp [Msg.isDone, Msg.rid])
      · cases hs; exact Inv_direct h hrpc _
    · split at hs
      · cases hs; exact Inv_enqueue h _ _
      · cases hs; exact Inv_direct h hrpc _
  | reader =>
    simp only [step] at hs
    split at hs <;> (try (simp only [reduceCtorEq] at hs; done))
    · rename_i i r hrpc
      cases hs
      have hr := h.rpc
      unfold RpcOk at hr
      simp only [hrpc] at hr
      have hsame : ∀ j, SameCore (upd s.sess i { s.sess i with live := false } j) (s.sess j) := by
        intro j
        by_cases hj : j = i
        · subst hj; simp [upd_same, SameCore]
        · simp [upd_ne _ _ hj, SameCore]
      refine ⟨h.fresh, ?_, ?_, ?_, ?_⟩
      · intro j hj
        have := h.unborn j hj
        rw [← (hsame j).2.1] at this; exact this
      · simp [RpcOk, Msg.isDone, Msg.rid, hr]
      · intro j
        exact SInv_same (h.sess j) (hsame j) (fun _ _ => rfl)
      · intro r'
        refine RInv_frame (h.req r') rfl (fun _ => rfl) (fun j _ => hsame j) rfl (fun _ => rfl)
    · rename_i m hrpc
      cases hs
      have hr := h.rpc
      unfold RpcOk at hr
      simp only [hrpc] at hr
      cases m <;> simp [Msg.isDone] at hr
      rename_i r st
      simp only [Msg.rid] at hr ⊢
      have hreq := h.req r
      unfold RInv at hreq
      simp only [hr] at hreq
      refine ⟨?_, h.unborn, by simp [RpcOk], ?_, ?_⟩
      · intro r' hr'
        have := h.fresh r' hr'
        have hne : r' ≠ r := by intro hh; subst hh; rw [hr] at this; cases this
        simpa [upd_ne _ _ hne] using this
      · intro j
        refine SInv_same (h.sess j) SameCore.rfl' ?_
        intro r' hr'
        simp [upd_ne _ _ (rstat_ne_of_session (Or.inr hr) hr')]
      · intro r'
        by_cases hrr : r' = r
        · subst hrr
          refine RInv_finish (s := s) rfl (by simp [upd_same]) (fun _ => rfl) hreq.1 ?_
          intro k; rw [(hreq.2 k).1, (hreq.2 k).2]
        · refine req_reader (s := s) (r0 := r) h ?_ ?_ ?_ ?_ r' hrr
          · intro r hr; simp [upd_ne _ _ hr]
          · rfl
          · intro _ _ _; exact ⟨rfl, rfl, rfl, rfl⟩
          · exact Or.inr ⟨_, rfl, rfl⟩

theorem Inv_reachable {s : State} (h : Reachable s) : Inv s := by
  induction h with
  | init => exact Inv_init
  | step _ hs ih => exact Inv_step ih hs

end Nrepl
