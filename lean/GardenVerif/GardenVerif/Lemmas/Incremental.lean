import GardenVerif.Lemmas.Resume
/-!
Helper lemmas for C11 (incremental = batch): **frame parametricity of the evaluator**.

`fx T R f` = the frame `f` with further pending entries `T` BELOW its own and further values `R`
BELOW its own. `dispatch_fx`: one `eval_expr` dispatch that does not crash on `f` does the same on
`fx T R f` and leaves `T` and `R` alone — unless it is one of the three steps that drop the rest of the
frame's pending entries (`escapes`: a `return` continuation, a `break` / `continue` that finds no
running loop); with `T = []` there is no exception. This is what makes "the later inputs of the
concatenated request are waiting below" and "earlier requests left values on frame 0's value stack"
unobservable to the current input.
-/
set_option linter.unusedVariables false
set_option linter.unusedSimpArgs false

namespace Incr
open Machine Resume

/-- `f` with `T` below its pending entries and `R` below its values. -/
def fx (T : List (St × Expr)) (R : List Value) (f : Frame) : Frame :=
  { f with exprs := f.exprs ++ T, values := f.values ++ R }

def mapF (g : Frame → Frame) : Disp → Disp
  | .ok f => .ok (g f)
  | .okOut f o => .okOut (g f) o
  | .newFrame f c => .newFrame (g f) c
  | .err f st vals e => .err (g f) st vals e
  | .panic site => .panic site
  | .unsupported w => .unsupported w

def isPanic : Disp → Bool
  | .panic _ => true
  | _ => false

/-- Steps that drop the REST of the frame's pending entries. -/
def escapes (f : Frame) (st : St) (e : Expr) : Bool :=
  match e with
  | .ret .. => st == St.E
  | .brk .. =>
    match evalBreakLoop f.exprs f.values f.blocks with
    | some ([], _, _) => true
    | _ => false
  | .cont .. =>
    match evalContinueLoop f.exprs f.values f.blocks with
    | some ([], _, _) => true
    | _ => false
  | _ => false

def isForE : Expr → Bool
  | .forE .. => true
  | _ => false

variable (T : List (St × Expr)) (R : List Value)

@[simp] theorem fx_exprs (f : Frame) : (fx T R f).exprs = f.exprs ++ T := rfl
@[simp] theorem fx_values (f : Frame) : (fx T R f).values = f.values ++ R := rfl
@[simp] theorem fx_blocks (f : Frame) : (fx T R f).blocks = f.blocks := rfl
@[simp] theorem fx_nextBlock (f : Frame) : (fx T R f).nextBlock = f.nextBlock := rfl
@[simp] theorem fx_callerUses (f : Frame) : (fx T R f).callerUses = f.callerUses := rfl
@[simp] theorem fx_callerId (f : Frame) : (fx T R f).callerId = f.callerId := rfl
@[simp] theorem fx_kind (f : Frame) : (fx T R f).kind = f.kind := rfl

theorem fx_pushE (f : Frame) (st : St) (e : Expr) : (fx T R f).pushE st e = fx T R (f.pushE st e) := by
  simp [fx, Frame.pushE]

theorem fx_pushV (f : Frame) (v : Value) : (fx T R f).pushV v = fx T R (f.pushV v) := by
  simp [fx, Frame.pushV]

theorem fx_pushVIf (f : Frame) (c : Bool) (v : Value) :
    (fx T R f).pushVIf c v = fx T R (f.pushVIf c v) := by
  unfold Frame.pushVIf; split <;> simp [fx_pushV]

theorem fx_setValues (f : Frame) (vals : List Value) :
    ({ fx T R f with values := vals ++ R } : Frame) = fx T R { f with values := vals } := by
  simp [fx]

theorem fx_setBlocks (f : Frame) (bs : List Block) :
    ({ fx T R f with blocks := bs } : Frame) = fx T R { f with blocks := bs } := by
  simp [fx]

theorem fx_setNext (f : Frame) (bs : Block) :
    ({ fx T R f with nextBlock := bs } : Frame) = fx T R { f with nextBlock := bs } := by
  simp [fx]

theorem fx_evalBlock (f : Frame) (u : Bool) (body : List Expr) :
    evalBlock (fx T R f) u body = fx T R (evalBlock f u body) := by
  unfold evalBlock
  simp only [fx_blocks, fx_nextBlock, fx_exprs]
  split <;> simp [fx, Frame.pushV]

theorem fx_popBlock (f : Frame) : popBlock (fx T R f) = (popBlock f).map (fx T R) := by
  unfold popBlock
  simp only [fx_blocks]
  split <;> simp [fx]

theorem fx_foldl_pushN (items : List Expr) : ∀ (f : Frame),
    items.foldl (fun f x => f.pushE .N x) (fx T R f) = fx T R (items.foldl (fun f x => f.pushE .N x) f) := by
  induction items with
  | nil => intro f; rfl
  | cons x xs ih => intro f; simp only [List.foldl]; rw [fx_pushE, ih]

theorem popN_app : ∀ (n : Nat) (V got rest : List Value), popN n V = some (got, rest) →
    popN n (V ++ R) = some (got, rest ++ R) := by
  intro n
  induction n with
  | zero => intro V got rest h; simp [popN] at h ⊢; obtain ⟨h1, h2⟩ := h; subst h1 h2; simp
  | succ n ih =>
    intro V got rest h
    cases V with
    | nil => simp [popN] at h
    | cons v vs =>
      simp only [popN, List.cons_append] at h ⊢
      cases hp : popN n vs with
      | none => simp [hp] at h
      | some pr =>
        obtain ⟨g, r⟩ := pr
        simp [hp] at h
        obtain ⟨h1, h2⟩ := h
        subst h1 h2
        simp [ih vs g r hp]

theorem getVar_fx (p : Program) (f : Frame) (n : String) : getVar p (fx T R f) n = getVar p f n := rfl

theorem matchCases_fx (p : Program) (used : Bool) (ty : String) (idx : Nat) (pl : Option Value) :
    ∀ (cases : List Case) (f : Frame),
    matchCases p (fx T R f) used ty idx pl cases = (matchCases p f used ty idx pl cases).map (fx T R) := by
  intro cases
  induction cases with
  | nil => intro f; simp [matchCases, Except.map]
  | cons c rest ih =>
    intro f
    cases c with
    | mk variant dest body =>
      unfold matchCases
      simp only [getVar_fx]
      split
      · simp [Except.map, fx_evalBlock]
      · split
        · simp [Except.map]
        · split
          · simp [Except.map]
          · split
            · split
              · rename_i bs hb
                have := fx_evalBlock T R { f with nextBlock := bs } used body
                simpa [fx, Except.map] using this
              · simp [Except.map]
              · exact ih f
            · exact ih f

-- ------------------------------------------------------------------ break / continue

theorem breakLoop_fx : ∀ (K : List (St × Expr)) (V : List Value) (B : List Block)
    (K' : List (St × Expr)) (V' : List Value) (B' : List Block),
    evalBreakLoop K V B = some (K', V', B') → (T = [] ∨ K' ≠ []) →
    evalBreakLoop (K ++ T) (V ++ R) B = some (K' ++ T, V' ++ R, B')
  | [], V, B, K', V', B', h, hT => by
    simp [evalBreakLoop] at h
    obtain ⟨h1, h2, h3⟩ := h
    subst h1 h2 h3
    rcases hT with hT | hT
    · subst hT; simp [evalBreakLoop]
    · exact absurd rfl hT
  | (st, e) :: rest, V, B, K', V', B', h, hT => by
    have ih := breakLoop_fx rest
    cases e
    case whileE id u c body =>
      simp only [evalBreakLoop, List.cons_append] at h ⊢
      split at h
      · rename_i hs; simp only [hs, if_true]; exact ih _ _ _ _ _ h hT
      · rename_i hs; simp only [hs, if_false]
        split at h
        · rename_i hs2; simp only [hs2, if_true]
          cases hb : popBlocks1 B with
          | none => simp [hb] at h
          | some bs =>
            simp [hb] at h ⊢
            obtain ⟨h1, h2, h3⟩ := h; subst h1 h2 h3; simp
        · rename_i hs2; simp only [hs2, if_false]
          simp at h ⊢
          obtain ⟨h1, h2, h3⟩ := h; subst h1 h2 h3; simp
    case forE id u d it body =>
      simp only [evalBreakLoop, List.cons_append] at h ⊢
      split at h
      · rename_i hs; simp only [hs, if_true]; exact ih _ _ _ _ _ h hT
      · rename_i hs; simp only [hs, if_false]
        split at h
        · rename_i hs2; simp only [hs2, if_true]
          cases V with
          | nil => simp at h
          | cons v vs => simp only [List.cons_append] at h ⊢; exact ih _ _ _ _ _ h hT
        · rename_i hs2; simp only [hs2, if_false]
          match V, h with
          | [], h => simp at h
          | [_], h => simp at h
          | _ :: _ :: vs, h =>
            simp at h ⊢
            obtain ⟨h1, h2, h3⟩ := h; subst h1 h2 h3; simp
    all_goals (
      simp only [evalBreakLoop, List.cons_append] at h ⊢
      split at h
      · rename_i ho; simp only [ho, if_true]
        cases hb : popBlocks1 B with
        | none => simp [hb] at h
        | some bs => simp only [hb] at h ⊢; exact ih _ _ _ _ _ h hT
      · rename_i ho; simp only [ho, if_false]; exact ih _ _ _ _ _ h hT)

theorem continueLoop_fx : ∀ (K : List (St × Expr)) (V : List Value) (B : List Block)
    (K' : List (St × Expr)) (V' : List Value) (B' : List Block),
    evalContinueLoop K V B = some (K', V', B') → (T = [] ∨ K' ≠ []) →
    evalContinueLoop (K ++ T) (V ++ R) B = some (K' ++ T, V' ++ R, B')
  | [], V, B, K', V', B', h, hT => by
    simp [evalContinueLoop] at h
    obtain ⟨h1, h2, h3⟩ := h
    subst h1 h2 h3
    rcases hT with hT | hT
    · subst hT; simp [evalContinueLoop]
    · exact absurd rfl hT
  | (st, e) :: rest, V, B, K', V', B', h, hT => by
    have ih := continueLoop_fx rest
    cases e
    case whileE id u c body =>
      cases st <;> simp [evalContinueLoop, Expr.isLoop] at h ⊢ <;>
        first
        | exact ih _ _ _ _ _ h hT
        | (obtain ⟨a, b, c⟩ := h; subst a b c; simp)
    case forE id u d it body =>
      cases st <;> simp [evalContinueLoop, Expr.isLoop] at h ⊢
      case N => exact ih _ _ _ _ _ h hT
      case PW =>
        cases V with
        | nil => simp at h
        | cons v vs => simp only [List.cons_append] at h ⊢; exact ih _ _ _ _ _ h hT
      all_goals (obtain ⟨a, b, c⟩ := h; subst a b c; simp)
    all_goals (
      simp only [evalContinueLoop, Expr.isLoop, List.cons_append, Bool.false_and, Bool.false_eq_true, if_false] at h ⊢
      split at h
      · rename_i c4; rw [if_pos c4]
        cases hb : popBlocks1 B with
        | none => simp [hb] at h
        | some bs => simp only [hb] at h ⊢; exact ih _ _ _ _ _ h hT
      · rename_i c4; rw [if_neg c4]; exact ih _ _ _ _ _ h hT)

-- ------------------------------------------------------------------ calls

theorem evalCall_fx (p : Program) (f : Frame) (cid : Nat) (u : Bool) (n : Nat)
    (h : isPanic (evalCall p f cid u n) = false) :
    evalCall p (fx T R f) cid u n = mapF (fx T R) (evalCall p f cid u n) := by
  unfold evalCall at h ⊢
  cases hp : popN n f.values with
  | none => simp [hp, isPanic] at h
  | some pr =>
    obtain ⟨args, vals⟩ := pr
    simp only [fx_values, popN_app R n _ _ _ hp]
    simp only [hp] at h
    cases vals with
    | nil => simp [isPanic] at h
    | cons recv vals =>
      simp only [List.cons_append]
      have hg : ({ fx T R f with values := vals ++ R } : Frame) = fx T R { f with values := vals } := by
        simp [fx]
      simp only [hg]
      generalize ({ f with values := vals } : Frame) = g
      generalize hm : mapF (fx T R) = M
      clear h hg hp
      repeat' split
      all_goals (subst hm; simp [mapF, fx_pushVIf])

-- ------------------------------------------------------------------ one dispatch

theorem fx_setValues' (f : Frame) (vals : List Value) :
    ({ exprs := f.exprs ++ T, values := vals ++ R, blocks := f.blocks, nextBlock := f.nextBlock,
       callerUses := f.callerUses, kind := f.kind, callerId := f.callerId } : Frame) =
    fx T R { f with values := vals } := rfl

macro "fx_fin" : tactic => `(tactic| (
  generalize hm : mapF (fx T R) = M
  repeat' split
  all_goals (subst hm; (try simp only [mapF, fx_pushVIf, fx_pushE, fx_pushV, fx_evalBlock]); (try rfl);
             (try (simp [fx, Frame.pushVIf, Frame.pushV, Frame.pushE, evalBlock])); (try (split <;> simp)))))

macro "fx_fin'" h:ident : tactic => `(tactic| (
  revert $h:ident
  generalize hm : mapF (fx T R) = M
  repeat' split
  all_goals (intro $h:ident; subst hm)
  all_goals (first
    | (simp [isPanic] at $h:ident; done)
    | ((try simp only [mapF, fx_pushVIf, fx_pushE, fx_pushV, fx_evalBlock]); (try rfl);
       (try (simp [fx, Frame.pushVIf, Frame.pushV, Frame.pushE, evalBlock])); (try (split <;> simp))))))

/-- **Frame parametricity of `eval_expr`.** -/
theorem dispatch_fx (p : Program) (f : Frame) (st : St) (e : Expr)
    (hp : isPanic (dispatch p f st e) = false) (hesc : T = [] ∨ escapes f st e = false) :
    dispatch p (fx T R f) st e = mapF (fx T R) (dispatch p f st e) := by
  cases e
  case int => simp [dispatch, mapF, fx_pushVIf, Expr.used]
  case str => simp [dispatch, mapF, fx_pushVIf, Expr.used]
  case lambda => simp [dispatch, mapF, fx_pushVIf, Expr.used]
  case paren => simp [dispatch, mapF, fx_pushE]
  case invalid => simp [dispatch, mapF]
  case unsup => simp [dispatch, mapF]
  case var id u n =>
    simp only [dispatch, getVar_fx]
    cases getVar p f n <;> simp [mapF, fx_pushVIf]
  case binop id u op l r =>
    simp only [dispatch] at hp ⊢
    by_cases hs : (st != St.E) = true
    · simp [hs, mapF, fx_pushE]
    · simp only [hs, if_false, Bool.false_eq_true] at hp ⊢
      match hv : f.values, hp with
      | [], hp => simp [isPanic] at hp
      | [_], hp => simp [isPanic] at hp
      | rv :: lv :: vals, hp =>
        simp only [fx_values, hv, List.cons_append]
        have hg : ({ fx T R f with values := vals ++ R } : Frame) = fx T R { f with values := vals } := by
          simp [fx]
        simp only [hg]
        generalize ({ f with values := vals } : Frame) = g
        clear hp hg hv
        fx_fin
  case letE id u dest inner =>
    simp only [dispatch] at hp ⊢
    by_cases hs : (st != St.E) = true
    · simp [hs, mapF, fx_pushE]
    · simp only [hs, if_false, Bool.false_eq_true] at hp ⊢
      match hv : f.values, hp with
      | [], hp => simp [isPanic] at hp
      | v :: vals, hp =>
        simp only [fx_values, hv, List.cons_append]
        have hg : ({ fx T R f with values := vals ++ R } : Frame) = fx T R { f with values := vals } := by
          simp [fx]
        simp only [hg]
        generalize hgg : ({ f with values := vals } : Frame) = g
        clear hp hg hv
        fx_fin
  case assign id u name inner =>
    simp only [dispatch, fx_blocks] at hp ⊢
    cases hv : f.values with
    | nil => simp only [fx_values, hv, List.nil_append] at hp ⊢; fx_fin' hp
    | cons v vals => simp only [fx_values, hv, List.cons_append] at hp ⊢; fx_fin' hp
  case update id u isAdd name inner =>
    simp only [dispatch, fx_blocks, getVar_fx] at hp ⊢
    cases hv : f.values with
    | nil => simp only [fx_values, hv, List.nil_append] at hp ⊢; fx_fin' hp
    | cons v vals => simp only [fx_values, hv, List.cons_append] at hp ⊢; fx_fin' hp
  case whileE id u c body =>
    simp only [dispatch] at hp ⊢
    cases hpb : popBlock f <;> simp only [fx_popBlock, hpb, Option.map] at hp ⊢ <;>
    (cases hv : f.values with
     | nil => simp only [fx_values, hv, List.nil_append] at hp ⊢; fx_fin' hp
     | cons v vals => simp only [fx_values, hv, List.cons_append] at hp ⊢; fx_fin' hp)
  case ifE id u c thn els =>
    simp only [dispatch] at hp ⊢
    cases hpb : popBlock f <;> simp only [fx_popBlock, hpb, Option.map] at hp ⊢ <;>
    (cases hv : f.values with
     | nil => simp only [fx_values, hv, List.nil_append] at hp ⊢; fx_fin' hp
     | cons v vals => simp only [fx_values, hv, List.cons_append] at hp ⊢; fx_fin' hp)
  case forE id u dest iter body =>
    simp only [dispatch] at hp ⊢
    cases hpb : popBlock f <;> simp only [fx_popBlock, hpb, Option.map] at hp ⊢ <;>
    (match hv : f.values with
     | [] => simp only [fx_values, hv, List.nil_append] at hp ⊢; fx_fin' hp
     | [a] => simp only [fx_values, hv, List.cons_append, List.nil_append] at hp ⊢; fx_fin' hp
     | a :: b :: vals => simp only [fx_values, hv, List.cons_append] at hp ⊢; fx_fin' hp)
  case ret id u inner =>
    simp only [dispatch] at hp ⊢
    by_cases hs : (st == St.E) = true
    · have hT : T = [] := by
        rcases hesc with h | h
        · exact h
        · simp [escapes, hs] at h
      subst hT
      simp [hs, mapF, fx]
    · simp only [hs, if_false, Bool.false_eq_true]
      cases inner <;> simp [mapF, fx_pushE, fx_pushV]
  case list id u items =>
    simp only [dispatch] at hp ⊢
    by_cases hs : (st != St.E) = true
    · simp [hs, mapF, fx_pushE, fx_foldl_pushN]
    · simp only [hs, if_false, Bool.false_eq_true] at hp ⊢
      cases hpn : popN items.length f.values with
      | none => simp [hpn, isPanic] at hp
      | some pr =>
        obtain ⟨got, vals⟩ := pr
        simp only [fx_values, popN_app R _ _ _ _ hpn, hpn]
        clear hp
        fx_fin
  case tuple id u items =>
    simp only [dispatch] at hp ⊢
    by_cases hs : (st != St.E) = true
    · simp [hs, mapF, fx_pushE, fx_foldl_pushN]
    · simp only [hs, if_false, Bool.false_eq_true] at hp ⊢
      cases hpn : popN items.length f.values with
      | none => simp [hpn, isPanic] at hp
      | some pr =>
        obtain ⟨got, vals⟩ := pr
        simp only [fx_values, popN_app R _ _ _ _ hpn, hpn]
        clear hp
        fx_fin
  case call id u recv args =>
    simp only [dispatch] at hp ⊢
    cases st <;> simp only at hp ⊢
    case N => simp [mapF, fx_pushE]
    case E => exact evalCall_fx T R p f _ _ _ hp
    all_goals simp [mapF, fx_pushE, fx_foldl_pushN]
  case brk id u =>
    simp only [dispatch, fx_exprs, fx_values, fx_blocks] at hp ⊢
    cases hb : evalBreakLoop f.exprs f.values f.blocks with
    | none => simp [hb, isPanic] at hp
    | some r =>
      obtain ⟨K', V', B'⟩ := r
      have hT : T = [] ∨ K' ≠ [] := by
        rcases hesc with h | h
        · exact Or.inl h
        · right; intro hk; subst hk; simp [escapes, hb] at h
      rw [breakLoop_fx T R _ _ _ _ _ _ hb hT]
      simp only [mapF]
      cases K' with
      | nil =>
        rcases hT with h | h
        · subst h; simp [fx, Frame.pushVIf]
        · exact absurd rfl h
      | cons x xs => obtain ⟨sx, ex⟩ := x; simp [fx, Frame.pushVIf, Frame.pushV]; split <;> simp
  case cont id u =>
    simp only [dispatch, fx_exprs, fx_values, fx_blocks] at hp ⊢
    cases hb : evalContinueLoop f.exprs f.values f.blocks with
    | none => simp [hb, isPanic] at hp
    | some r =>
      obtain ⟨K', V', B'⟩ := r
      have hT : T = [] ∨ K' ≠ [] := by
        rcases hesc with h | h
        · exact Or.inl h
        · right; intro hk; subst hk; simp [escapes, hb] at h
      rw [continueLoop_fx T R _ _ _ _ _ _ hb hT]
      simp [mapF, fx]
  case matchE id u scrut cs =>
    simp only [dispatch] at hp ⊢
    cases hpb : popBlock f <;> simp only [fx_popBlock, hpb, Option.map] at hp ⊢ <;>
    (cases hv : f.values with
     | nil => simp only [fx_values, hv, List.nil_append] at hp ⊢; fx_fin' hp
     | cons sv vals =>
       simp only [fx_values, hv, List.cons_append] at hp ⊢
       have hg : ({ fx T R f with values := vals ++ R } : Frame) = fx T R { f with values := vals } := by
         simp [fx]
       simp only [hg, fx_pushE, matchCases_fx]
       generalize ({ f with values := vals } : Frame) = g
       cases st <;> simp only [mapF] <;> (try rfl) <;>
       (cases sv <;> simp only [mapF] <;> (try rfl) <;>
        (cases matchCases p (g.pushE St.E (Expr.matchE id u scrut cs)) (Expr.matchE id u scrut cs).used _ _ _ cs <;>
          simp [Except.map, mapF])))

end Incr
