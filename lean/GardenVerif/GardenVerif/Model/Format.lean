/-!
M11 `Format` — the formatter seen from the validator's side (DESIGN §3 (V), §6 M11, §7 C17/C18).

Import-free. Three layers:

1. **Marked texts.** A text is a list of bytes, each carrying a mark: `0` for a byte that lies
   between tokens (a *gap* byte), `k+1` for a byte of the `k`-th token or comment of the text (the
   marks are computed from the REAL lexer's token offsets by `markSpans`). The string phases of
   `src/format.rs` (`apply_span_edits`, `apply_indentation_edits`, `normalize_blank_lines`, phase 9)
   are transcribed as total functions on marked texts; bytes they insert are gap bytes.
   `content t` (the marked bytes, in order) is what must never change.

2. **Token/gap view.** `View` = tokens with their attached comments, plus exactly the position
   facts `src/parser.rs` reads on an error-free parse (see `sameTokens`). Built by the driver from
   the real lexer's output for both texts.

3. **Segmentations** (`Segd`): a text given as gap₀ tok₁ gap₁ … tokₙ gapₙ, with `render` and
   `Segd.view`; `LegalGapRewrite` is the relation "only gaps changed, legally".

Whitespace: the Rust uses `char::is_whitespace`/`trim_start` on `char`s; the model uses the ASCII
whitespace bytes 9–13 and 32 (non-ASCII whitespace does not occur outside string literals and
comments in any text the lexer accepts without panicking — C01).
-/

namespace Fmt

structure MByte where
  b : UInt8
  m : Nat
deriving DecidableEq, Repr, Inhabited

abbrev MText := List MByte

def NL : MByte := ⟨10, 0⟩
def SP : MByte := ⟨32, 0⟩
def isNl (x : MByte) : Bool := x.b == 10
def isCr (x : MByte) : Bool := x.b == 13
def isWs (x : MByte) : Bool := x.b == 32 || (9 ≤ x.b && x.b ≤ 13)
def marked (x : MByte) : Bool := x.m != 0

/-- The token and comment bytes of a text, in order, with their token numbers. -/
def content (t : MText) : MText := t.filter marked
def bytes (t : MText) : List UInt8 := t.map (·.b)
def plain (bs : List UInt8) : MText := bs.map (⟨·, 0⟩)
def spaces (n : Nat) : MText := List.replicate n SP

/-- Mark the bytes of `bs`: the `k`-th span `(start, end)` (ascending, disjoint) gets mark `k+1`. -/
def markGo : Nat → Nat → List UInt8 → List (Nat × Nat) → MText
  | _, _, [], _ => []
  | i, k, b :: bs, spans =>
    let dropped := spans.takeWhile (fun p => p.2 ≤ i)
    let spans' := spans.dropWhile (fun p => p.2 ≤ i)
    let k' := k + dropped.length
    match spans' with
    | [] => ⟨b, 0⟩ :: markGo (i + 1) k' bs []
    | (s, e) :: rest =>
      if s ≤ i then ⟨b, k' + 1⟩ :: markGo (i + 1) k' bs ((s, e) :: rest)
      else ⟨b, 0⟩ :: markGo (i + 1) k' bs ((s, e) :: rest)

def markSpans (bs : List UInt8) (spans : List (Nat × Nat)) : MText := markGo 0 0 bs spans

/-! ### `str::lines` -/

/-- A line: its bytes without the terminator, and the terminating `\n` byte if there is one. -/
structure Line where
  body : MText
  term : Option MByte
deriving Repr

def rawLines : MText → List Line
  | [] => []
  | c :: cs =>
    if isNl c then ⟨[], some c⟩ :: rawLines cs
    else match rawLines cs with
      | [] => [⟨[c], none⟩]
      | l :: rest => ⟨c :: l.body, l.term⟩ :: rest

/-- `str::lines` strips one `\r` before a `\n` terminator (and only there). -/
def Line.text (l : Line) : MText :=
  match l.term, l.body.getLast? with
  | some _, some c => if isCr c then l.body.dropLast else l.body
  | _, _ => l.body

/-- the bytes of a line including its terminator -/
def Line.flat (l : Line) : MText := l.body ++ l.term.toList

def endsNl (t : MText) : Bool :=
  match t.getLast? with
  | some c => isNl c
  | none => false

/-! ### Phase 5: `apply_indentation_edits` (format.rs:687) -/

/-- `edits_map.get(&line)`: the map is filled in list order, a later edit for the same line wins. -/
def lookupEdit (edits : List (Nat × Nat)) (i : Nat) : Option Nat :=
  (edits.reverse.find? (fun e => e.1 == i)).map (·.2)

def outLine (edits : List (Nat × Nat)) (n i : Nat) (l : Line) : MText :=
  let sep : MText := if i + 1 < n then [l.term.getD NL] else []
  match lookupEdit edits i with
  | some k =>
    let tr := l.text.dropWhile isWs
    if tr.isEmpty then [NL] else spaces k ++ tr ++ sep
  | none => l.text ++ sep

def indentGo (edits : List (Nat × Nat)) (n : Nat) : Nat → List Line → MText
  | _, [] => []
  | i, l :: ls => outLine edits n i l ++ indentGo edits n (i + 1) ls

def applyIndentationEdits (src : MText) (edits : List (Nat × Nat)) : MText :=
  let ls := rawLines src
  let r := indentGo edits ls.length 0 ls
  if endsNl src && !endsNl r then r ++ [NL] else r

/-! ### Phase 4: `apply_span_edits` (format.rs:734) -/

inductive Res (α : Type) where
  | ok (v : α)
  | panic (site : String)
deriving Repr

structure SpanEdit where
  start : Nat
  stop : Nat
  repl : MText
deriving Repr

/-- `String::replace_range(start..end, repl)`. Panics when the range is decreasing or out of
range. (Rust also panics when an end of the range is not a char boundary; not modelled — the
offsets the formatter uses are token boundaries.) -/
def replaceRange (t : MText) (e : SpanEdit) : Res MText :=
  if e.start > e.stop then .panic "format.rs:744 replace_range start > end"
  else if e.stop > t.length then .panic "format.rs:744 replace_range end > len"
  else .ok (t.take e.start ++ e.repl ++ t.drop e.stop)

def applySorted (t : MText) : List SpanEdit → Res MText
  | [] => .ok t
  | e :: es =>
    match replaceRange t e with
    | .ok t' => applySorted t' es
    | .panic s => .panic s

/-- `sort_by_key(|b| Reverse(b.start_offset))` is a stable sort. -/
def sortDesc (es : List SpanEdit) : List SpanEdit :=
  es.mergeSort (fun a b => a.start ≥ b.start)

def applySpanEdits (t : MText) (es : List SpanEdit) : Res MText :=
  if es.isEmpty then .ok t else applySorted t (sortDesc es)

/-! ### Phase 6: `normalize_blank_lines` (format.rs:754) -/

def isBlank (l : MText) : Bool := l.all isWs

/-- `line.trim_start().starts_with("//")` -/
def startsComment (l : MText) : Bool :=
  match l.dropWhile isWs with
  | a :: b :: _ => a.b == 47 && b.b == 47
  | _ => false

/-- The loop of `normalize_blank_lines`, one line at a time. `prevBlank` = the previous line was
blank (the run has already been accounted for). A run of blank lines emits one `\n` iff a
non-blank line follows it. -/
def nbGo (tl : List Nat) : Nat → Bool → List MText → MText
  | _, _, [] => []
  | i, prevBlank, l :: ls =>
    if isBlank l then
      (if !prevBlank && ls.any (fun x => !isBlank x) then [NL] else []) ++ nbGo tl (i + 1) true ls
    else
      l ++ [NL] ++
        (match ls with
         | nxt :: _ => if !isBlank nxt && tl.contains (i + 1) && !startsComment l then [NL] else []
         | [] => []) ++
        nbGo tl (i + 1) false ls

def normalizeBlankLines (src : MText) (tl : List Nat) : MText :=
  let ls := (rawLines src).map Line.text
  if ls.isEmpty then src else
  let r := nbGo tl 0 false ls
  if endsNl src && !endsNl r then r ++ [NL] else r

/-- Variant of phase 6 after the repair `format-fix-blank-lines-inside-string` (lines that start
inside a token are never blank lines of the program and never get a blank line inserted before
them). A line starts inside a token iff the `\n` that ends the previous line is a marked byte. -/
def insideFlags : Bool → List Line → List Bool
  | _, [] => []
  | p, l :: ls => p :: insideFlags (match l.term with | some c => marked c | none => false) ls

def isBlankS (x : MText × Bool) : Bool := isBlank x.1 && !x.2

def nbGoSkip (tl : List Nat) : Nat → Bool → List (MText × Bool) → MText
  | _, _, [] => []
  | i, prevBlank, l :: ls =>
    if isBlankS l then
      (if !prevBlank && ls.any (fun x => !isBlankS x) then [NL] else []) ++ nbGoSkip tl (i + 1) true ls
    else
      l.1 ++ [NL] ++
        (match ls with
         | nxt :: _ => if !isBlankS nxt && !nxt.2 && tl.contains (i + 1) && !startsComment l.1 then [NL] else []
         | [] => []) ++
        nbGoSkip tl (i + 1) false ls

def normalizeBlankLinesSkip (src : MText) (tl : List Nat) : MText :=
  let raw := rawLines src
  let ls := (raw.map Line.text).zip (insideFlags false raw)
  if ls.isEmpty then src else
  let r := nbGoSkip tl 0 false ls
  if endsNl src && !endsNl r then r ++ [NL] else r

/-! ### Phase 9: final newline (format.rs:79-85), on the reversed text -/

def popNlRev : MText → MText
  | a :: b :: rest => if isNl a && isNl b then popNlRev (b :: rest) else a :: b :: rest
  | l => l

def finalNewlineRev (r : MText) : MText :=
  let r := popNlRev r
  match r with
  | [] => []
  | a :: _ => if isNl a then r else NL :: r

def finalNewline (t : MText) : MText := (finalNewlineRev t.reverse).reverse

/-! ### Preconditions evaluated on the real edit lists -/

/-- Line `i` may be re-indented: the bytes `trim_start` removes are gap bytes, a stripped `\r` is a
gap byte, and when the line's terminator is not re-emitted it is a gap byte. -/
def lineOK (edits : List (Nat × Nat)) (n i : Nat) (l : Line) : Bool :=
  let crOK := content l.text == content l.body
  let termKept := i + 1 < n
  let termOK := match l.term with | some c => !marked c | none => true
  match lookupEdit edits i with
  | some _ =>
    let tr := l.text.dropWhile isWs
    (l.text.takeWhile isWs).all (fun x => !marked x) && crOK &&
      (if tr.isEmpty then termOK else (termKept || termOK))
  | none => crOK && (termKept || termOK)

def linesOK (edits : List (Nat × Nat)) (n : Nat) : Nat → List Line → Bool
  | _, [] => true
  | i, l :: ls => lineOK edits n i l && linesOK edits n (i + 1) ls

/-- `EditsInGaps src edits`: every line edit only rewrites gap bytes of `src`. In particular an
edited line does not begin inside a token. -/
def editsInGaps (src : MText) (edits : List (Nat × Nat)) : Bool :=
  let ls := rawLines src
  linesOK edits ls.length 0 ls

/-- Span edits, in the order they are applied (descending start): each range lies in the part of
the text that earlier edits left alone (`stop ≤ bound`), is increasing, and covers gap bytes only;
the replacement consists of gap bytes. -/
def spansInGaps (t : MText) : Nat → List SpanEdit → Bool
  | _, [] => true
  | bound, e :: es =>
    e.start ≤ e.stop && e.stop ≤ bound &&
      ((t.drop e.start).take (e.stop - e.start)).all (fun x => !marked x) &&
      e.repl.all (fun x => !marked x) &&
      spansInGaps t e.start es

/-! ### Token/gap view and the relation `sameTokens` -/

structure VComment where
  text : List UInt8          -- without the line terminator
  /-- this comment's line + 1 = the next comment's line (attached to the same token);
      `false` for the last comment of a token. Read by `join_comments` (doc comments). -/
  adjNext : Bool
deriving DecidableEq, Repr

structure VTok where
  text : List UInt8
  /-- `prev.end_offset == this.start_offset` (false for the first token) -/
  touchesPrev : Bool
  /-- `prev.end_line_number == this.line_number` (false for the first token) -/
  sameLinePrev : Bool
  comments : List VComment
deriving DecidableEq, Repr

structure View where
  toks : List VTok
  trailing : List VComment
deriving DecidableEq, Repr

def strB (s : String) : List UInt8 := s.toUTF8.toList

/-- `KEYWORDS` of parser.rs as UTF-8 bytes (explicit so that `decide` can evaluate the relation):
let fun enum struct import if else while return test match break continue for in assert as method
public shared try catch. The driver op `fmt_selftest` compares it with the strings. -/
def keywords : List (List UInt8) :=
  [[108, 101, 116],
   [102, 117, 110],
   [101, 110, 117, 109],
   [115, 116, 114, 117, 99, 116],
   [105, 109, 112, 111, 114, 116],
   [105, 102],
   [101, 108, 115, 101],
   [119, 104, 105, 108, 101],
   [114, 101, 116, 117, 114, 110],
   [116, 101, 115, 116],
   [109, 97, 116, 99, 104],
   [98, 114, 101, 97, 107],
   [99, 111, 110, 116, 105, 110, 117, 101],
   [102, 111, 114],
   [105, 110],
   [97, 115, 115, 101, 114, 116],
   [97, 115],
   [109, 101, 116, 104, 111, 100],
   [112, 117, 98, 108, 105, 99],
   [115, 104, 97, 114, 101, 100],
   [116, 114, 121],
   [99, 97, 116, 99, 104]]

def keywordStrings : List String :=
  ["let", "fun", "enum", "struct", "import", "if", "else", "while", "return", "test", "match",
   "break", "continue", "for", "in", "assert", "as", "method", "public", "shared", "try", "catch"]

def isIdentStart (b : UInt8) : Bool := (65 ≤ b && b ≤ 90) || (97 ≤ b && b ≤ 122) || b == 95
def isDigit (b : UInt8) : Bool := 48 ≤ b && b ≤ 57

def isSymbolTok (t : List UInt8) : Bool :=
  match t with
  | b :: _ => isIdentStart b
  | [] => false

/-- Can a token be the last token of an expression? (symbol, literal, closing bracket) -/
def endsExpr (t : List UInt8) : Bool :=
  match t.getLast? with
  | some b => isIdentStart b || isDigit b || b == 34 || b == 41 || b == 93 || b == 125
  | none => false

/-- How the adjacency of `prev next` is constrained.
`eq`: must be the same in both texts. `noNew`: must not become adjacent. `free`: not read. -/
inductive Touch | eq | noNew | free
deriving DecidableEq, Repr

/-- Where `parser.rs` reads `prev.end_offset == next.start_offset` (pinned tree):
* `(` after an expression: call vs. tuple (parser.rs:1213);
* symbol after `.` / `::` (parser.rs:1232, 1282);
* `{` after a symbol at the start of an expression: struct literal (parser.rs:802).
A keyword before `(`/`{` never ends an expression / names a struct in an error-free parse, so
there a blank may be inserted but not removed. The same holds for `{` after a symbol that is not
in expression position: the name of a `test` (`test name {`) and a non-generic return type
(`) : T {`). `hist` = the previous token texts, most recent first. -/
def touchRule (hist : List (List UInt8)) (next : List UInt8) : Touch :=
  match hist with
  | [] => .free
  | prev :: before =>
    if prev == [46] || prev == [58, 58] then .eq
    else if next == [40] then
      (if keywords.contains prev then .noNew else if endsExpr prev then .eq else .free)
    else if next == [123] then
      (if keywords.contains prev then .noNew
       else if isSymbolTok prev then
         (match before with
          | [116, 101, 115, 116] :: _ => .noNew            -- `test name {`
          | [58] :: [41] :: _ => .noNew                    -- `) : Type {`
          | _ => .eq)
       else .free)
    else .free

/-- Where `parser.rs` reads `prev.end_line_number == next.line_number` on an error-free parse:
after `return` (parser.rs:684). (The two other line comparisons, parser.rs:1114 and :2899, are on
paths that have already recorded / immediately record a parse error.) -/
def lineRule (prev : List UInt8) : Bool := prev == [114, 101, 116, 117, 114, 110]

def commentsSame : List VComment → List VComment → Bool
  | [], [] => true
  | a :: as, b :: bs => a.text == b.text && a.adjNext == b.adjNext && commentsSame as bs
  | _, _ => false

/-- Tokens pairwise: same text, same comments, same values of the significant position facts.
`hist` = texts of the previous tokens, most recent first (at most 3 are kept). -/
def toksSame : List (List UInt8) → List VTok → List VTok → Bool
  | _, [], [] => true
  | hist, a :: as, b :: bs =>
    a.text == b.text && commentsSame a.comments b.comments &&
    (match touchRule hist a.text with
     | .eq => a.touchesPrev == b.touchesPrev
     | .noNew => !b.touchesPrev || a.touchesPrev
     | .free => true) &&
    (match hist with
     | p :: _ => if lineRule p then a.sameLinePrev == b.sameLinePrev else true
     | [] => true) &&
    toksSame (a.text :: hist.take 2) as bs
  | _, _, _ => false

/-- Optional commas (the only non-whitespace the formatter may add or remove): a `,` directly
before a closing `)`. `wrap_long_signatures` (format.rs:1013-1020) is the one place that writes
commas: it puts one after every parameter, i.e. adds a trailing comma to the parameter list.
`dropOptCommas` removes every `,` token that is immediately followed by `)`; its comments (none in
practice) move to the `)`. -/
def dropOptCommas : List VTok → List VTok
  | [] => []
  | a :: rest =>
    match dropOptCommas rest with
    | [] => [a]
    | b :: rest' =>
      if a.text == [44] && b.text == [41] then
        { b with touchesPrev := false, sameLinePrev := a.sameLinePrev && b.sameLinePrev,
                 comments := a.comments ++ b.comments } :: rest'
      else a :: b :: rest'

def sameTokensStrict (a b : View) : Bool :=
  toksSame [] a.toks b.toks && commentsSame a.trailing b.trailing

/-- The validator's relation. -/
def sameTokens (a b : View) : Bool :=
  toksSame [] (dropOptCommas a.toks) (dropOptCommas b.toks) && commentsSame a.trailing b.trailing

/-! ### Segmentations -/

inductive Kind | tok | comment
deriving DecidableEq, Repr

/-- One token or comment with the whitespace before it. A comment's text excludes its line
terminator; the terminator is the first byte of the following gap. -/
structure Piece where
  gap : List UInt8
  kind : Kind
  text : List UInt8
deriving DecidableEq, Repr

structure Segd where
  pieces : List Piece
  trail : List UInt8
deriving DecidableEq, Repr

def Segd.render (s : Segd) : List UInt8 :=
  s.pieces.flatMap (fun p => p.gap ++ p.text) ++ s.trail

def nlCount (g : List UInt8) : Nat := g.count 10

/-- State while reading pieces left to right: comments collected for the next token (with the
number of newlines between consecutive ones), whether a token has been seen, whether a comment
lies between the previous token and here, and the newlines since the previous token. -/
structure VState where
  pending : List (List UInt8 × Nat)   -- comment text, newlines in the gap AFTER it (filled when the next piece arrives)
  prevTok : Bool
  sawComment : Bool
  nls : Nat

def closeComments : List (List UInt8 × Nat) → List VComment
  | [] => []
  | [(t, _)] => [⟨t, false⟩]
  | (t, n) :: rest => ⟨t, n == 1⟩ :: closeComments rest

/-- add the newlines of the gap before the current piece to the last pending comment -/
def bumpLast (n : Nat) : List (List UInt8 × Nat) → List (List UInt8 × Nat)
  | [] => []
  | [(t, k)] => [(t, k + n)]
  | x :: rest => x :: bumpLast n rest

def viewGo : VState → List Piece → List VTok × List VComment
  | st, [] => ([], closeComments st.pending)
  | st, p :: ps =>
    let n := nlCount p.gap
    match p.kind with
    | .comment =>
      viewGo { st with pending := bumpLast n st.pending ++ [(p.text, 0)], sawComment := true,
                       nls := st.nls + n } ps
    | .tok =>
      let tk : VTok :=
        { text := p.text
          touchesPrev := st.prevTok && !st.sawComment && p.gap.isEmpty
          sameLinePrev := st.prevTok && st.nls + n == 0
          comments := closeComments (bumpLast n st.pending) }
      let (ts, tr) := viewGo { pending := [], prevTok := true, sawComment := false, nls := 0 } ps
      (tk :: ts, tr)

def Segd.view (s : Segd) : View :=
  let (ts, tr) := viewGo { pending := [], prevTok := false, sawComment := false, nls := 0 } s.pieces
  ⟨ts, tr⟩

def isWsB (b : UInt8) : Bool := b == 32 || (9 ≤ b && b ≤ 13)

/-- Piecewise: same kind and text, both gaps whitespace, same number of newlines, and the gap is
empty in both or in neither. (This is deliberately stricter than `sameTokens` needs: it is what a
rewrite must satisfy when NOTHING is known about which adjacencies and line breaks matter.) -/
def piecesLegal : List Piece → List Piece → Bool
  | [], [] => true
  | p :: ps, q :: qs =>
    p.kind == q.kind && p.text == q.text && q.gap.all isWsB &&
      nlCount p.gap == nlCount q.gap && p.gap.isEmpty == q.gap.isEmpty && piecesLegal ps qs
  | _, _ => false

/-- `LegalGapRewrite a b`: `b` is `a` with inter-token whitespace replaced by whitespace, never
touching token or comment bytes, preserving emptiness and newline count of every gap. -/
def legalGapRewrite (a b : Segd) : Bool :=
  piecesLegal a.pieces b.pieces && b.trail.all isWsB

end Fmt
