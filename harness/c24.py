"""C24 — Sandboxed code cannot touch files, processes or stdin.

Proof: GardenVerif.Props.C24 over the model Sandbox.runArm / runCalls (Model/Sandbox.lean) and
over the tables that tools/extract_tables.py regenerates from src/eval.rs (arm shapes:
guard-first, effectful std calls), src/sandboxed_playground.rs and src/test_runner.rs.

Tie (T): the translator is exercised behaviourally. For every arm of the built-in dispatch the
harness builds Garden programs that call the built-in (name, namespace and parameter types come
from the same tables) in several positions (toplevel, inside a function, inside a `test`, inside a
closure, through a prelude higher-order function, through an alias), with generated arguments, and
runs them under `garden playground-run` and `garden sandboxed-test` in a private scratch tree:

 * correspondence: the model's outcome for the arm (`sbx_call` / `sbx_run` of the Lean driver:
   forbidden, or ran) against what the implementation reported (the "unsafe code in sandboxed mode"
   error or not), also for sequences of calls (index at which the run ends);
 * direct oracle (no model): whatever the tables say, a sandboxed run must leave the scratch tree
   byte-identical (snapshot before/after), must not start any process (canary executables first on
   PATH that append to a marker file), must leave stdin unread (a pipe holding a sentinel line is
   read back after the process exits) and must not show the secret content of a fixture file; and
   every arm the tables call effectful must answer with the forbidden error.
 * positive controls: the same effectful calls run WITHOUT the sandbox (`garden run`) must be
   detected by the same observers, so the oracle is not blind.

All paths handed to built-ins stay inside the per-case scratch directory (a sandbox hole must not
be able to damage anything else); every process runs under `ulimit -v 3000000` and a 10 s timeout; the
per-run scratch tree under .build/scratch/sandbox/ is deleted afterwards.
"""
import hashlib
import importlib.util
import json
import os
import random
import re
import shutil
import subprocess
import sys

from . import common

LEAN_MODULES = ["GardenVerif.Props.C24"]

FORBIDDEN_MSG = "Tried to execute unsafe code in sandboxed mode"
SCRATCH_ROOT = os.path.join(common.BUILD, "scratch", "sandbox")
SENTINEL = b"C24-STDIN-SENTINEL-7f3a\nsecond line\n"
SECRET = "C24SECRETc0ffee"          # content of fixture files: seeing it in the output is a file read
# value of an environment variable of the sandboxed process. Reading the environment is an ambient
# read that property C24 does not list (files through the filesystem API, processes, stdin): seeing
# it in the output is recorded as an observation in the evidence, never as a violation. It shares no
# substring with SECRET.
ENV_VALUE = "C24ENVVALUE5eed"
CANARIES = ["canary", "ls", "sh", "touch", "echo", "cat", "rm", "true"]
TIMEOUT = 10


def load_tables(repo):
    spec = importlib.util.spec_from_file_location(
        "extract_tables", os.path.join(common.ROOT, "tools", "extract_tables.py"))
    mod = importlib.util.module_from_spec(spec)
    spec.loader.exec_module(mod)
    return mod.extract(repo)


# ------------------------------------------------------------------------------ fixtures
def make_fixture(case_dir):
    """case_dir/work (cwd of the run; fixture files), case_dir/bin (canaries), case_dir/home."""
    work = os.path.join(case_dir, "work")
    os.makedirs(os.path.join(work, "sub"))
    os.makedirs(os.path.join(work, "emptydir"))
    os.makedirs(os.path.join(case_dir, "home"))
    os.makedirs(os.path.join(case_dir, "bin"))
    with open(os.path.join(work, "exists.txt"), "w") as f:
        f.write(SECRET + " line one\nline two\n")
    with open(os.path.join(work, "sub", "inner.txt"), "w") as f:
        f.write(SECRET + " inner\n")
    with open(os.path.join(work, "secret.gdn"), "w") as f:
        f.write('public fun x(): String { "%s" }\n' % SECRET)
    marker = os.path.join(case_dir, "marker")
    for name in CANARIES:
        p = os.path.join(case_dir, "bin", name)
        with open(p, "w") as f:
            f.write('#!/bin/sh\necho "ran $0 $*" >> "%s"\n' % marker)
        os.chmod(p, 0o755)
    return work


def snapshot(root):
    out = {}
    for dirpath, dirnames, filenames in os.walk(root):
        dirnames.sort()
        rel = os.path.relpath(dirpath, root)
        out[rel + "/"] = ("dir", oct(os.lstat(dirpath).st_mode & 0o7777))
        for fn in sorted(filenames):
            p = os.path.join(dirpath, fn)
            st = os.lstat(p)
            if os.path.islink(p):
                out[os.path.join(rel, fn)] = ("link", os.readlink(p))
            else:
                with open(p, "rb") as f:
                    h = hashlib.sha1(f.read()).hexdigest()
                out[os.path.join(rel, fn)] = ("file", st.st_size, h, oct(st.st_mode & 0o7777), st.st_mtime_ns)
    return out


def diff_snap(a, b):
    d = []
    for k in sorted(set(a) | set(b)):
        if a.get(k) != b.get(k):
            d.append("%s: %s -> %s" % (k, "absent" if k not in a else a[k][0], "absent" if k not in b else b[k][0]))
    return d


def run_observed(garden, argv, case_dir, timeout=TIMEOUT):
    """Run garden in case_dir/work with canaries first on PATH and stdin = a pipe holding the
    sentinel. Returns dict(rc, out, err, stdin_left, marker, diff)."""
    work = os.path.join(case_dir, "work")
    before = snapshot(case_dir)
    r, w = os.pipe()
    os.write(w, SENTINEL)
    os.close(w)
    env = {"PATH": os.path.join(case_dir, "bin") + ":/usr/bin:/bin", "HOME": os.path.join(case_dir, "home"),
           "LANG": "C.UTF-8", "C24_ENV_SECRET": ENV_VALUE, "RUST_BACKTRACE": "0"}
    rc = None
    try:
        # `ulimit -v` through sh instead of preexec_fn: lets subprocess use vfork (a fork of the
        # multi-threaded harness per case costs more than the garden run itself)
        p = subprocess.Popen(["/bin/sh", "-c", 'ulimit -v 3000000; ulimit -c 0; exec "$0" "$@"', garden] + argv,
                             stdin=r, stdout=subprocess.PIPE, stderr=subprocess.PIPE, cwd=work, env=env)
        try:
            out, err = p.communicate(timeout=timeout)
            rc = p.returncode
        except subprocess.TimeoutExpired:
            p.kill()
            out, err = p.communicate()
            rc = -9999
    finally:
        os.set_blocking(r, False)
        try:
            left = os.read(r, 65536)
        except BlockingIOError:
            left = b""
        os.close(r)
    after = snapshot(case_dir)
    marker = os.path.join(case_dir, "marker")
    mk = open(marker).read() if os.path.exists(marker) else ""
    return dict(rc=rc, out=out.decode("utf-8", "replace"), err=err.decode("utf-8", "replace"),
                stdin_unread=(left == SENTINEL), marker=mk, diff=diff_snap(before, after))


# ------------------------------------------------------------------------------ Garden programs
def gstr(s):
    return '"' + s.replace("\\", "\\\\").replace('"', '\\"').replace("\n", "\\n") + '"'


def alias_of(ns_file):
    return ns_file[2:-4] if ns_file.startswith("__") else "ns"


class ArgGen:
    """Argument expressions per declared parameter type. Paths never leave case_dir."""

    def __init__(self, rng, case_dir):
        self.rng = rng
        self.case = case_dir
        self.work = os.path.join(case_dir, "work")

    def path_str(self):
        w = self.work
        pool = [
            os.path.join(w, "exists.txt"), "exists.txt", "./exists.txt", "sub/inner.txt",
            os.path.join(w, "sub", "inner.txt"), "sub/../exists.txt", os.path.join(w, "sub", "..", "exists.txt"),
            os.path.join(w, "new.txt"), "new.txt", "sub/new.txt", "../escape.txt",
            os.path.join(w, "..", "escape.txt"), "emptydir", os.path.join(w, "emptydir"), "sub", ".", w,
            "newdir", os.path.join(w, "newdir"), "emptydir/../newdir2", "", "no/such/dir/file.txt",
            os.path.join(self.case, "bin", "canary"), "secret.gdn",
        ]
        return self.rng.choice(pool)

    def string(self, role=""):
        r = self.rng
        if role == "command":
            return r.choice(["canary", "touch", "ls", "/bin/sh", os.path.join(self.case, "bin", "canary"),
                             "echo", "cat", "rm", "sh", "true", "nonexistent-command-c24"])
        if role == "env":
            return r.choice(["HOME", "PATH", "C24_ENV_SECRET", "NOPE_C24", ""])
        if role == "src":
            return r.choice(["let x = 1", "fun f() { 1 }", "1 +", "import \"./secret.gdn\" as s\ns::x()",
                             "fs::read_file(Path{ p: \"exists.txt\" })", ""])
        pool = ["", "a", "hello world", "exists.txt", "x\ny", "é", "0", "String", "List", "Path", "map", "fs",
                "read_file", "exists", "print", self.path_str()]
        return r.choice(pool)

    def of_type(self, ty, role=""):
        r = self.rng
        ty = ty.strip()
        if ty == "String":
            return gstr(self.string(role))
        if ty == "Path":
            return "Path{ p: %s }" % gstr(self.path_str())
        if ty == "Int":
            return str(r.choice([-1, 0, 1, 2, 3, 100, 9223372036854775807]))
        if ty == "Float":
            return r.choice(["0.0", "1.5", "-2.25", "100.0"])
        if ty == "Bool":
            return r.choice(["True", "False"])
        if ty == "Namespace":
            return r.choice(["fs", "shell"])
        m = re.fullmatch(r"List<(.+)>", ty)
        if m:
            inner = m.group(1)
            n = r.choice([0, 1, 2, 3])
            if inner == "Int" and role == "bytes":
                return "[" + ", ".join(str(r.choice([0, 72, 105, 255, 10])) for _ in range(n)) + "]"
            if inner == "String" and role == "cmdargs":
                opts = [[], ["-c", "echo pwned > %s" % os.path.join(self.work, "pwned.txt")],
                        [os.path.join(self.work, "touched.txt")], ["-l", self.work], ["a", "b"]]
                return "[" + ", ".join(gstr(x) for x in r.choice(opts)) + "]"
            return "[" + ", ".join(self.of_type(inner) for _ in range(n)) + "]"
        if re.fullmatch(r"Dict(<.+>)?", ty):
            return r.choice(['Dict[]', 'Dict["a" => 1]', 'Dict["a" => 1, "b" => 2]'])
        # type parameters / Any / unknown: any simple value
        return r.choice(["1", gstr("v"), "[1, 2]", "True", "Path{ p: %s }" % gstr(self.path_str()), "None"])

    def receiver(self, ty):
        base = re.sub(r"<.*", "", ty)
        r = self.rng
        if base == "List":
            return r.choice(["[1, 2, 3]", "[]", '["a", "b"]', "[[1], [2]]"])
        if base == "String":
            return gstr(r.choice(["", "abc", "a,b,c", "12", "x\ny\n", "héllo", self.path_str()]))
        return self.of_type(base)


ROLE = {("ShellRun", 0): "command", ("ShellRun", 1): "cmdargs", ("ShellGetEnv", 0): "env",
        ("ReflectCheckSnippet", 0): "src", ("ReflectLex", 0): "src", ("FsWriteBytes", 0): "bytes"}


def call_expr(arm, args, recv=None, via_alias=False):
    if arm["isMethod"]:
        return "%s.%s(%s)" % (recv, arm["gardenName"], ", ".join(args))
    if via_alias:
        return "c24_alias(%s)" % ", ".join(args)
    return "%s(%s)" % (fun_ref(arm), ", ".join(args))


def fun_ref(arm):
    if arm["namespaceFile"] == "__prelude.gdn":
        return arm["gardenName"]
    return "%s::%s" % (alias_of(arm["namespaceFile"]), arm["gardenName"])


IMPORTS = 'import "__fs.gdn" as fs\nimport "__shell.gdn" as shell\n'


def imports_for(arm):
    s = IMPORTS
    ns = arm["namespaceFile"]
    if ns not in ("__prelude.gdn", "__fs.gdn", "__shell.gdn"):
        s += 'import "%s" as %s\n' % (ns, alias_of(ns))
    return s


POSITIONS = ["toplevel", "fun", "test", "closure", "hof", "alias"]
LIB_FILE_NAMES = ["__time.gdn", "__random.gdn"]     # library file names no effectful arm lives in


def prelude_hofs(repo):
    """Higher-order methods written in Garden in the library files (src/__*.gdn) that take a
    one-argument function: [(receiver base type, method name)], e.g. ("List", "map")."""
    out, skipped = [], []
    d = os.path.join(repo, "src")
    for f in sorted(os.listdir(d)):
        if not (f.startswith("__") and f.endswith(".gdn")):
            continue
        text = open(os.path.join(d, f), encoding="utf-8").read()
        for m in re.finditer(r"^(?:public\s+)?method\s+(\w+)\s*(?:<[^>(]*>)?\s*\(\s*this\s*:\s*(\w+)[^)]*?"
                             r"\w+\s*:\s*Fun<\(\s*[^,()]+\s*\)\s*,", text, re.M):
            (out if m.group(2) in ("List", "Option") else skipped).append((m.group(2), m.group(1)))
    return out, skipped


def program(arm, call, position, mode, alias_call=None, hof_arg="1"):
    """Garden source placing `call` at `position`. BEFORE/AFTER markers bracket the call. In
    sandboxed-test mode everything runs from inside a test (only tests are evaluated)."""
    imp = imports_for(arm)
    use = 'println("C24-AFTER " ^ string_repr(r))'
    if position == "alias" and (arm["isMethod"] or alias_call is None):
        position = "closure"
    if position == "toplevel":
        body = 'println("C24-BEFORE")\nlet r = %s\n%s\n' % (call, use)
        defs = ""
    elif position == "fun":
        defs = "fun c24_f() {\n  let r = %s\n  %s\n}\n" % (call, use)
        body = 'println("C24-BEFORE")\nc24_f()\n'
    elif position == "test":
        defs = ""
        body = 'println("C24-BEFORE")\nlet r = %s\n%s\n' % (call, use)
    elif position == "closure":
        defs = ""
        body = 'let c24_c = fun() { %s }\nprintln("C24-BEFORE")\nlet r = c24_c()\n%s\n' % (call, use)
    elif position == "hof":
        defs = ""
        body = 'println("C24-BEFORE")\nlet r = [1].map(fun(_) { %s })\n%s\n' % (call, use)
    elif position == "alias":
        defs = ""
        body = 'let c24_alias = %s\nprintln("C24-BEFORE")\nlet r = %s\n%s\n' % (fun_ref(arm), alias_call, use)
    elif position.startswith("prelude-hof:"):
        # the built-in itself, passed BY NAME as a function value to a higher-order method that is
        # written in Garden inside a library file: the built-in is then called from a library frame
        recv_ty, meth = position.split(":", 1)[1].split(".")
        defs = ""
        recv = {"List": "[%s]", "Option": "Some(%s)"}[recv_ty] % hof_arg
        body = 'println("C24-BEFORE")\nlet r = %s.%s(%s)\n%s\n' % (recv, meth, fun_ref(arm), use)
    elif position == "user-hof":
        defs = "fun c24_apply(f, x) {\n  f(x)\n}\n"
        body = 'println("C24-BEFORE")\nlet r = c24_apply(%s, %s)\n%s\n' % (fun_ref(arm), hof_arg, use)
    else:
        raise ValueError(position)
    if mode == "sandboxed-test" or position == "test":
        ind = "".join("  " + l + "\n" for l in body.rstrip("\n").split("\n"))
        return "// c24\n" + imp + defs + "test c24_t {\n" + ind + "}\n"
    return "// c24\n" + imp + defs + body


def classify(mode, res, position):
    """What the implementation reported: 'forbidden', 'ran' (the call returned: AFTER seen / test
    passed), 'exception' (ordinary Garden error), 'parse' or 'other'."""
    out = res["out"]
    if res["rc"] == -9999:
        return "timeout"
    if common.crashed(res["rc"]):
        return "crash"
    if mode == "sandboxed-test":
        try:
            j = json.loads(out.strip().split("\n")[-1])
        except Exception:
            return "other"
        if j.get("description") == "Parse error":
            return "parse"
        t = (j.get("tests") or {}).get("c24_t")
        if t is None:
            return "other"
        d = t.get("description")
        if d == "sandboxed":
            return "forbidden"
        if d == "passed":
            return "ran"
        return "exception"
    lines = [l for l in out.strip().split("\n") if l.strip()]
    printed, errors, values = [], [], []
    for l in lines:
        try:
            j = json.loads(l)
        except Exception:
            continue
        if "printed" in j:
            printed.append(j["printed"].get("s", ""))
        if j.get("error") is not None:
            errors.append(j["error"])
        if j.get("value") is not None:
            values.append(j["value"])
    text = "".join(printed)
    before = "C24-BEFORE" in text
    after = "C24-AFTER" in text
    if FORBIDDEN_MSG in errors:
        return "forbidden" if before and not after else "other"
    if not before:
        return "parse" if not errors else "exception"
    if after:
        return "ran"
    if position == "test":
        # playground-run reports a test that ended in ForbiddenInSandbox only as "Failed: name";
        # the evaluation of the test stopped at the call (AFTER not printed).
        if any("Failed: c24_t" in v for v in values):
            return "stopped-in-test"
        return "other"
    return "exception" if errors else "other"


def effects_observed(res):
    ev = []
    if res["diff"]:
        ev.append("scratch tree changed: " + "; ".join(res["diff"][:4]))
    if res["marker"]:
        ev.append("process started: " + res["marker"].strip().split("\n")[0])
    if not res["stdin_unread"]:
        ev.append("stdin was read")
    if SECRET in res["out"] or SECRET in res["err"]:
        ev.append("content of a fixture file appears in the output")
    return ev


def env_value_observed(res):
    return ENV_VALUE in res["out"] or ENV_VALUE in res["err"]


# ------------------------------------------------------------------------------ the check
class Runner:
    def __init__(self, ctx, root):
        self.ctx = ctx
        self.root = root
        self.n = 0

    def case_dir(self):
        self.n += 1
        d = os.path.join(self.root, "c%05d" % self.n)
        os.makedirs(d)
        make_fixture(d)
        return d

    def run(self, mode, src, case_dir, keep=False, fname="prog.gdn", override=None):
        prog = os.path.join(case_dir, "work", fname)
        with open(prog, "w") as f:
            f.write(src)
        argv = argv_for(mode, fname, override)
        res = run_observed(common.GARDEN, argv, case_dir)
        if res["rc"] == -9999:      # loaded machine? once more before believing it
            shutil.rmtree(case_dir, ignore_errors=True)
            os.makedirs(case_dir)
            make_fixture(case_dir)
            with open(prog, "w") as f:
                f.write(src)
            res = run_observed(common.GARDEN, argv, case_dir, timeout=3 * TIMEOUT)
        if not keep:
            shutil.rmtree(case_dir, ignore_errors=True)
        return res


def argv_for(mode, fname="prog.gdn", override=None):
    argv = {"playground-run": ["playground-run", fname],
            "sandboxed-test": ["sandboxed-test", fname, "0"],
            "run": ["run", fname]}[mode]
    if override:
        argv += ["--override-path", override]
    return argv


def replay_cmd(mode, src, fname="prog.gdn", override=None):
    return ("mkdir -p /tmp/c24 && cd /tmp/c24 && cat > %s <<'EOF'\n%sEOF\n"
            "echo sentinel | timeout 10 garden %s   # paths in the program refer to the harness fixture; "
            "use ./check C24 --replay <this file> to rebuild it" % (fname, src, " ".join(argv_for(mode, fname, override))))


def judge_sandboxed(ctx, arm, mode, position, src, res, effectful, tag="", fname="prog.gdn", override=None):
    """Direct oracle on one sandboxed run. Returns the classification."""
    cls = classify(mode, res, position)
    ev = effects_observed(res)
    name = arm["name"] if arm else "sequence"
    if env_value_observed(res):
        obs = ctx.cov.setdefault("env_var_value_read_in_sandbox", {"runs": 0, "arms": [], "note":
                                 "ambient read, not a C24 effect (reported only)"})
        obs["runs"] += 1
        if name not in obs["arms"]:
            obs["arms"].append(name)
    base = dict(arm=name, mode=mode, position=position, program=src, observed=cls,
                stdout=res["out"][-600:], stderr=res["err"][-300:], rc=res["rc"], fname=fname, override=override,
                replay_cmd=replay_cmd(mode, src, fname, override))
    if cls == "timeout":
        # A run killed by the wall-clock limit (twice: 10 s, then 30 s) says nothing about C24: stdin
        # always holds data and is at EOF behind it, so a sandboxed stdin read cannot block; on a loaded
        # machine a 50 ms run can miss the limit. Inconclusive: counted in the evidence, the effect
        # observers below still apply to whatever the killed process did.
        ctx.cov["timeouts_inconclusive"] = ctx.cov.get("timeouts_inconclusive", 0) + 1
    if ev:
        ctx.fail("C24/%s/effect" % name,
                 "a sandboxed program had an effect outside the interpreter: " + "; ".join(ev), evidence=ev, **base)
    if effectful:
        ok = cls == "forbidden" or (mode == "playground-run" and position == "test" and cls == "stopped-in-test")
        if not ok and not ev and cls != "timeout":
            ctx.fail("C24/%s/not-forbidden%s" % (name, tag),
                     "an effectful built-in called in sandboxed mode did not end the evaluation with the "
                     "'unsafe code in sandboxed mode' error (observed: %s)" % cls, **base)
    return cls


def driver_matches_tables(drv, arms):
    lines = ["sbx_call 1 %d %s" % (1 if a["isMethod"] else 0, a["name"]) for a in arms]
    resp = common.batch([drv], lines, shards=1)
    return all((r == "OK forbidden") == bool(a["guardFirst"]) and (r or "").startswith("OK")
               for a, r in zip(arms, resp))


def private_driver(ctx, arms, root):
    """Generated/Tables.lean and the driver binary are shared by all checks; a concurrent check of
    another worktree may regenerate them at any time. The model used here must be the one built from
    THIS repo's tables: take a private copy of the driver, and if it disagrees with the tables just
    extracted (guardFirst column), regenerate + rebuild once under the lake lock and copy again.
    (Not a verdict about garden, only about which table the driver was linked with.)"""
    drv = os.path.join(root, "gvdriver")
    with common.Lock("lake"):
        shutil.copy2(common.DRIVER, drv)
    if driver_matches_tables(drv, arms):
        return drv
    ctx.log("model driver was built from another tree's tables: regenerating and rebuilding")
    with common.Lock("lake"):
        common.run_cmd([sys.executable, os.path.join(common.ROOT, "tools", "extract_tables.py"),
                        common.REPO, common.LEAN_DIR], timeout=120, mem_gb=None)
        common.run_cmd(["lake", "build", "gvdriver"], cwd=common.LEAN_DIR, timeout=3600, mem_gb=None)
        shutil.copy2(common.DRIVER, drv)
    if not driver_matches_tables(drv, arms):
        ctx.broken.append({"kind": "harness", "what": "model driver does not reflect the tables extracted from %s "
                           "(guardFirst column)" % common.REPO})
    return drv


def run(ctx):
    rng = ctx.rng
    t = load_tables(common.REPO)
    arms = t["builtinArms"]
    root = os.path.join(SCRATCH_ROOT, "run-%d" % os.getpid())
    shutil.rmtree(root, ignore_errors=True)
    os.makedirs(root)
    try:
        _run(ctx, rng, t, arms, root)
    finally:
        shutil.rmtree(root, ignore_errors=True)


def _run(ctx, rng, t, arms, root):
    R = Runner(ctx, root)
    n_eff_tuples = ctx.scale(5, 24)      # extra argument tuples per effectful arm and mode
    n_free_tuples = ctx.scale(1, 6)
    ctx.rule = (
        "for every arm of eval_built_in_call / eval_built_in_method_call (names, namespaces and parameter types "
        "from the regenerated tables): effectful arms in every position {toplevel, fun, test, closure, prelude "
        "map with a lambda, alias} x {playground-run, sandboxed-test}, the built-in passed BY NAME to every library "
        "higher-order method (List::map, List::filter, …) and to a user-defined one, the program saved as / presented "
        "via --override-path as a library file name (__time.gdn, __random.gdn), plus %d more runs per mode at random positions, each run "
        "with its own argument tuple, plus wrong-arity / wrong-type calls; effect-free arms {toplevel, test} x 2 "
        "modes (+%d); sequences of 3 calls; unsandboxed positive controls. Arguments per declared type (paths: "
        "existing / missing, relative / absolute / with `..`, all inside the scratch tree; strings; lists; ints). "
        "Non-trivial = the program parsed and evaluation reached the call (BEFORE marker printed / the test was "
        "found and not a parse error)." % (n_eff_tuples, n_free_tuples))
    ctx.assumptions += [
        "effects are observed as: change of the per-case scratch tree (content hash, mode, mtime), canary "
        "executables on PATH, consumption of a sentinel on stdin, content of a fixture file in the output (the value of an env var is only an observation); pure reads "
        "whose result is discarded are observable only through the forbidden error demanded for effectful arms",
        "tools/extract_tables.py recognises the effectful std calls by a fixed pattern list (files, directories, "
        "metadata queries, processes, stdin, sockets, set_current_dir, set_var, unsafe/libc)",
    ]

    # ---- model predictions for every arm
    drv = private_driver(ctx, arms, root)

    def model_batch(ls):
        return common.batch([drv], ls, shards=1)
    lines = ["sbx_call 1 %d %s" % (1 if a["isMethod"] else 0, a["name"]) for a in arms] + \
            ["sbx_call 0 %d %s" % (1 if a["isMethod"] else 0, a["name"]) for a in arms]
    resp = model_batch(lines)
    pred, pred_off = {}, {}
    for a, r1, r0 in zip(arms, resp[:len(arms)], resp[len(arms):]):
        key = (a["isMethod"], a["name"])
        if not (r1 or "").startswith("OK") or not (r0 or "").startswith("OK"):
            ctx.broken.append({"kind": "correspondence", "what": "model driver did not answer sbx_call for %s: %r / %r"
                               % (a["name"], r1, r0)})
            continue
        pred[key] = "forbidden" if r1 == "OK forbidden" else "ran"
        pred_off[key] = r0
        # sanity of the tie between table and model: unsandboxed, an effectful arm runs with its effects
        if a["effects"] and not r0.startswith("OK ran ") or (a["effects"] and r0 == "OK ran -"):
            ctx.disagree("sbx_call(unsandboxed)", a["name"], r0, "table effects=%r" % a["effects"])

    # ---- build all single-call jobs
    hofs, hofs_skipped = prelude_hofs(common.REPO)
    ctx.cov["library_hofs_used"] = ["%s.%s" % h for h in hofs]
    ctx.cov["library_hofs_skipped"] = ["%s.%s" % h for h in hofs_skipped]
    if not hofs:
        ctx.broken.append({"kind": "harness", "what": "no higher-order method found in src/__*.gdn "
                           "(List::map / List::filter expected)"})
    jobs = []
    for a in arms:
        effectful = bool(a["effects"])
        positions = POSITIONS if effectful else ["toplevel", "test"]
        k = 0
        for mode in ("playground-run", "sandboxed-test"):
            for pos in positions:
                jobs.append(dict(arm=a, mode=mode, position=pos, tuple=k, variant="typed"))
                k += 1
            for _ in range(n_eff_tuples if effectful else n_free_tuples):
                jobs.append(dict(arm=a, mode=mode, position=rng.choice(positions), tuple=k, variant="typed"))
                k += 1
        if effectful and not a["isMethod"]:
            # the built-in passed by name to every library HOF, and to a user HOF (control)
            for mode in ("playground-run", "sandboxed-test"):
                for (rt, mn) in hofs:
                    jobs.append(dict(arm=a, mode=mode, position="prelude-hof:%s.%s" % (rt, mn), tuple=k,
                                     variant="typed", tag="/prelude-hof"))
                    k += 1
                jobs.append(dict(arm=a, mode=mode, position="user-hof", tuple=k, variant="typed", tag="/user-hof"))
                k += 1
        if effectful:
            # the program saved under / presented as a library file name
            for i, mode in enumerate(("playground-run", "sandboxed-test")):
                jobs.append(dict(arm=a, mode=mode, position=rng.choice(["toplevel", "fun", "closure"]), tuple=k,
                                 variant="typed", tag="/library-file-name", fname=LIB_FILE_NAMES[i % 2]))
                k += 1
            jobs.append(dict(arm=a, mode="sandboxed-test", position=rng.choice(["toplevel", "fun"]), tuple=k,
                             variant="typed", tag="/override-path", override=rng.choice(LIB_FILE_NAMES)))
            k += 1
        if effectful:
            for variant in ("noargs", "extra", "wrongtype"):
                for mode in ("playground-run", "sandboxed-test"):
                    jobs.append(dict(arm=a, mode=mode, position=rng.choice(["toplevel", "fun", "closure"]),
                                     tuple=k, variant=variant))
                    k += 1
    # materialise programs (sequentially: the rng is not thread safe and replays must be exact)
    for j in jobs:
        a = j["arm"]
        cd = R.case_dir()
        g = ArgGen(random.Random("%d/%s/%d" % (ctx.seed, a["name"], j["tuple"])), cd)
        args = [g.of_type(ty, ROLE.get((a["name"], i), "")) for i, ty in enumerate(a["params"])]
        recv = g.receiver(a["receiverType"]) if a["isMethod"] else None
        if j["variant"] == "noargs":
            args = []
        elif j["variant"] == "extra":
            args = args + ["1"]
        elif j["variant"] == "wrongtype":
            args = [rng.choice(["1", gstr("exists.txt"), "[1]", "None"]) for _ in args] or ["1"]
        call = call_expr(a, args, recv)
        alias_call = None if a["isMethod"] else call_expr(a, args, via_alias=True)
        j["dir"] = cd
        j["src"] = program(a, call, j["position"], j["mode"], alias_call, hof_arg=(args[0] if args else "1"))

    def do(j):
        return R.run(j["mode"], j["src"], j["dir"], fname=j.get("fname", "prog.gdn"), override=j.get("override"))
    results = common.pmap(do, jobs)

    # ---- judge
    counts = {}
    unclassified = []
    clean = {}         # arms whose typed toplevel playground call returned normally (usable in sequences)
    reached = 0
    for j, res in zip(jobs, results):
        a = j["arm"]
        key = (a["isMethod"], a["name"])
        effectful = bool(a["effects"])
        tag = j.get("tag", "") if j["variant"] == "typed" else "-malformed-call"
        cls = judge_sandboxed(ctx, a, j["mode"], j["position"], j["src"], res, effectful, tag,
                              fname=j.get("fname", "prog.gdn"), override=j.get("override"))
        counts[cls] = counts.get(cls, 0) + 1
        nontrivial = cls not in ("parse", "other", "timeout")
        if cls in ("parse", "other") and len(unclassified) < 5:
            unclassified.append({"arm": a["name"], "mode": j["mode"], "position": j["position"], "program": j["src"],
                                 "stdout": res["out"][-300:], "stderr": res["err"][-300:], "rc": res["rc"]})
        reached += 1 if nontrivial else 0
        ctx.case((a["name"], j["mode"], j["position"], j["src"]), nontrivial)
        # correspondence: model outcome vs reported outcome
        if key in pred and cls not in ("parse", "other", "timeout", "crash"):
            # playground-run reports a test that ended in ANY error as "Failed: name": there the two
            # outcomes can only be told apart in one direction (the call returned or it did not)
            if cls == "stopped-in-test":
                mismatch = False
            else:
                mismatch = (pred[key] == "forbidden") != (cls == "forbidden")
            if mismatch:
                ctx.disagree("sbx_call", {"arm": a["name"], "mode": j["mode"], "position": j["position"],
                                          "program": j["src"]}, pred[key], cls)
        if (j["variant"] == "typed" and j["mode"] == "playground-run" and j["position"] == "toplevel"
                and cls == "ran" and not effectful):
            clean.setdefault(key, (a, j["src"]))
        if len(ctx.samples) < 3 and effectful and j["position"] in ("hof", "fun") and cls == "forbidden":
            ctx.sample({"arm": a["name"], "mode": j["mode"], "position": j["position"], "program": j["src"],
                        "stdout": res["out"][-200:], "model": pred.get(key)})
        if len(ctx.samples) < 5 and not effectful and cls == "ran" and a["ambient"]:
            ctx.sample({"arm": a["name"], "mode": j["mode"], "position": j["position"], "program": j["src"],
                        "stdout": res["out"][-200:], "model": pred.get(key)})
    ctx.cov["single_call_runs"] = len(jobs)
    ctx.cov["outcomes"] = counts
    ctx.cov["unclassified_runs"] = unclassified
    ctx.cov["arms"] = len(arms)
    ctx.cov["effectful_arms"] = sorted(a["name"] for a in arms if a["effects"])
    ctx.cov["unguarded_effectful_arms_in_table"] = sorted(
        a["name"] for a in arms if a["effects"] and not a["guardFirst"])
    ctx.cov["reached_call_fraction"] = round(reached / max(1, len(jobs)), 3)
    per_arm_reached, per_arm_missed = {}, {}
    for j, res in zip(jobs, results):
        c = classify(j["mode"], res, j["position"])
        nm = j["arm"]["name"]
        if c in ("parse", "other"):
            per_arm_missed[nm] = per_arm_missed.get(nm, 0) + 1
        elif c != "timeout":        # a crash inside the call (rc 101) did reach it
            per_arm_reached[nm] = per_arm_reached.get(nm, 0) + 1
    never = sorted(a["name"] for a in arms if a["name"] not in per_arm_reached and a["name"] in per_arm_missed)
    ctx.cov["arms_never_reached"] = never
    ctx.cov["arms_only_timeouts"] = sorted(a["name"] for a in arms if a["name"] not in per_arm_reached
                                           and a["name"] not in per_arm_missed)
    if never:
        ctx.broken.append({"kind": "harness", "what": "no generated program reached the call for arm(s) %s "
                           "(Garden-level name / signature extraction is off)" % ", ".join(never)})
    if reached * 2 < len(jobs):
        ctx.broken.append({"kind": "harness", "what": "fewer than half of the runs were conclusive (%d of %d; "
                           "timeouts: %d): machine too loaded for this check" % (
                               reached, len(jobs), counts.get("timeout", 0))})

    # ---- sequences of calls: where does the run end?
    eff_arms = [a for a in arms if a["effects"]]
    clean_list = sorted(clean.items())
    seq_jobs = []
    if clean_list and eff_arms:
        for q in range(ctx.scale(40, 200)):
            cd = R.case_dir()
            g = ArgGen(random.Random("%d/seq/%d" % (ctx.seed, q)), cd)
            picks = []
            for _ in range(3):
                if rng.random() < 0.45:
                    a = rng.choice(eff_arms)
                else:
                    a = rng.choice(clean_list)[1][0]
                picks.append(a)
            src = "// c24 sequence\n" + IMPORTS
            extra = {a["namespaceFile"] for a in picks} - {"__prelude.gdn", "__fs.gdn", "__shell.gdn"}
            for ns in sorted(extra):
                src += 'import "%s" as %s\n' % (ns, alias_of(ns))
            for i, a in enumerate(picks):
                if a["effects"]:
                    args = [g.of_type(ty, ROLE.get((a["name"], k), "")) for k, ty in enumerate(a["params"])]
                    recv = g.receiver(a["receiverType"]) if a["isMethod"] else None
                    call = call_expr(a, args, recv)
                else:
                    # reuse the exact call that returned normally in the single-call run
                    m = re.search(r"^let r = (.*)$", clean[(a["isMethod"], a["name"])][1], re.M)
                    call = m.group(1)
                src += 'println("C24-M%d")\nlet r%d = %s\n' % (i, i, call)
            src += 'println("C24-M3")\n'
            seq_jobs.append(dict(picks=picks, src=src, dir=cd))
        mlines = ["sbx_run 1 " + " ".join(("m:" if a["isMethod"] else "f:") + a["name"] for a in j["picks"])
                  for j in seq_jobs]
        mres = model_batch(mlines)
        sres = common.pmap(lambda j: R.run("playground-run", j["src"], j["dir"]), seq_jobs)
        for j, m, res in zip(seq_jobs, mres, sres):
            ev = effects_observed(res)
            printed = "".join(json.loads(l)["printed"]["s"] for l in res["out"].split("\n")
                              if l.startswith('{"printed"'))
            marks = [i for i in range(4) if "C24-M%d\n" % i in printed]
            forbidden = FORBIDDEN_MSG in res["out"]
            impl = ("forbiddenAt:%d" % max(marks)) if forbidden and marks else ("completed" if marks == [0, 1, 2, 3] else "other")
            names = [a["name"] for a in j["picks"]]
            ctx.case(("seq", j["src"]), any(a["effects"] for a in j["picks"]))
            base = dict(arm="sequence:" + ",".join(names), mode="playground-run", position="toplevel",
                        program=j["src"], stdout=res["out"][-600:], replay_cmd=replay_cmd("playground-run", j["src"]))
            if ev:
                ctx.fail("C24/sequence/effect", "a sandboxed program had an effect: " + "; ".join(ev), **base)
            if res["rc"] == -9999:
                ctx.cov["timeouts_inconclusive"] = ctx.cov.get("timeouts_inconclusive", 0) + 1
                continue
            first_eff = next((i for i, a in enumerate(j["picks"]) if a["effects"]), None)
            if first_eff is not None and impl != "forbiddenAt:%d" % first_eff and not ev:
                ctx.fail("C24/sequence/not-forbidden", "run did not end with the forbidden error at the first "
                         "effectful call (expected index %d, observed %s)" % (first_eff, impl), **base)
            mm = (m or "").split(" ")
            if len(mm) < 2 or mm[0] != "OK":
                ctx.broken.append({"kind": "correspondence", "what": "model driver: %r" % (m,)})
            elif mm[1] != impl:
                ctx.disagree("sbx_run", {"calls": names, "program": j["src"]}, mm[1], impl)
        ctx.cov["sequence_runs"] = len(seq_jobs)
    else:
        ctx.cov["sequence_runs"] = 0

    # ---- positive controls: the observers see the effect when the sandbox is off
    controls = positive_controls()
    detected, undetected, control_timeouts = [], [], []
    cjobs = []
    for a in eff_arms:
        mk = controls.get(a["name"])
        if mk is None:
            undetected.append(a["name"] + " (no control defined)")
            continue
        cd = R.case_dir()
        call, expect = mk(cd)
        src = "// c24 control\n" + imports_for(a) + 'let r = %s\nprintln("C24-AFTER " ^ string_repr(r))\n' % call
        cjobs.append((a, cd, src, expect))
    cres = common.pmap(lambda c: R.run("run", c[2], c[1]), cjobs)
    for (a, cd, src, expect), res in zip(cjobs, cres):
        ev = effects_observed(res)
        ok = bool(ev) or (expect is not None and re.search(expect, res["out"]) is not None)
        ctx.case(("control", a["name"], src), True)
        if res["rc"] == -9999 and not ok:
            control_timeouts.append(a["name"])
            continue
        (detected if ok else undetected).append(a["name"])
        if not ok:
            ctx.notes.append("positive control for %s: effect not observed without the sandbox (stdout %r)"
                             % (a["name"], res["out"][-200:]))
    ctx.cov["positive_controls_detected"] = sorted(detected)
    ctx.cov["positive_controls_undetected"] = sorted(undetected)
    ctx.cov["positive_controls_timed_out"] = sorted(control_timeouts)
    if eff_arms and len(detected) * 2 < len(eff_arms) - len(control_timeouts):
        ctx.broken.append({"kind": "harness", "what": "fewer than half of the unsandboxed positive controls were "
                           "detected (%d of %d): the observers are blind" % (len(detected), len(eff_arms))})

    # ---- observation outside the property text: `import` of a local file while sandboxed
    cd = R.case_dir()
    src = 'import "./secret.gdn" as s\nprintln(s::x())\n'
    res = R.run("playground-run", src, cd)
    ctx.cov["import_of_local_file_is_read_in_sandbox"] = SECRET in res["out"]
    ctx.cov["other_effect_sites_in_eval_rs"] = ["%s: %s (sandbox check: %s)" % (
        o["function"], ",".join(o["effects"]), o["checksSandbox"]) for o in t["otherEffectSites"]]
    if SECRET in res["out"]:
        ctx.notes.append("observation (outside the property's 'filesystem API'): `import \"./secret.gdn\"` in a "
                         "playground-run program reads and loads the file (read_src, std::fs::read, no sandbox check)")
    amb = sorted({x.split("@")[0] for a in arms for x in a["ambient"] if not x.startswith("std")})
    ctx.cov["ambient_reads_not_gated"] = sorted(
        "%s: %s" % (a["name"], ",".join(a["ambient"])) for a in arms
        if any(x.split(":")[0] in ("envread", "ownpath", "cwdread", "tty", "clock", "random") for x in a["ambient"]))


def positive_controls():
    """Kind name -> function(case_dir) -> (call expression, regex expected in stdout or None)."""
    def P(p):
        return "Path{ p: %s }" % gstr(p)

    def w(cd, *xs):
        return os.path.join(cd, "work", *xs)
    return {
        "PreludeReadLine": lambda cd: ("read_line()", r"C24-STDIN-SENTINEL"),
        "ShellRun": lambda cd: ('shell::run("canary", ["x"])', None),
        "FsListDirectory": lambda cd: ("fs::list_directory(%s)" % P(w(cd)), r"exists\.txt"),
        "FsWriteFile": lambda cd: ('fs::write_file("data", %s)' % P(w(cd, "new.txt")), None),
        "FsWriteBytes": lambda cd: ("fs::write_bytes([72, 105], %s)" % P(w(cd, "new.bin")), None),
        "FsCreateDir": lambda cd: ("fs::create_dir(%s)" % P(w(cd, "newdir")), None),
        "FsRemoveDir": lambda cd: ("fs::remove_dir(%s)" % P(w(cd, "emptydir")), None),
        "FsCopyFile": lambda cd: ("fs::copy_file(%s, %s)" % (P(w(cd, "exists.txt")), P(w(cd, "copy.txt"))), None),
        "FsReadFile": lambda cd: ("fs::read_file(%s)" % P(w(cd, "exists.txt")), SECRET),
        "FsReadFileBytes": lambda cd: ("fs::read_file_bytes(%s)" % P(w(cd, "exists.txt")), r"Ok\(\[67, 50, 52"),
        "FsRemoveFile": lambda cd: ("fs::remove_file(%s)" % P(w(cd, "exists.txt")), None),
        "PathExists": lambda cd: ("%s.exists()" % P(w(cd, "exists.txt")), r"C24-AFTER True"),
        "PathInfo": lambda cd: ("%s.info()" % P(w(cd, "exists.txt")), r"is_file: True"),
    }


def replay(ctx, path):
    """Re-run one recorded case (oracle violation) against the current build."""
    obj = json.load(open(path))
    root = os.path.join(SCRATCH_ROOT, "replay-%d" % os.getpid())
    shutil.rmtree(root, ignore_errors=True)
    os.makedirs(root)
    try:
        R = Runner(ctx, root)
        items = obj.get("broken") if obj.get("kind") != "oracle" else [obj]
        t = load_tables(common.REPO)
        by_name = {a["name"]: a for a in t["builtinArms"]}
        for it in items or []:
            inp = it.get("input") if isinstance(it.get("input"), dict) else it
            src = inp.get("program")
            mode = inp.get("mode", "playground-run")
            if not src:
                continue
            # the recorded program mentions the fixture directory of the original run: re-root it
            cd = R.case_dir()
            src = re.sub(r"/[^\"' ]*?/scratch/sandbox/run-\d+/c\d+", cd, src)
            fname, override = inp.get("fname") or "prog.gdn", inp.get("override")
            res = R.run(mode, src, cd, fname=fname, override=override)
            arm = by_name.get(inp.get("arm", ""))
            ctx.case(("replay", src), True)
            if arm is None:
                ev = effects_observed(res)
                if ev:
                    ctx.fail("C24/sequence/effect", "a sandboxed program had an effect: " + "; ".join(ev),
                             program=src, mode=mode, stdout=res["out"][-600:])
            else:
                m = re.search(r"/not-forbidden(.*)$", it.get("key", ""))
                judge_sandboxed(ctx, arm, mode, inp.get("position", "toplevel"), src, res, bool(arm["effects"]) or
                                "/effect" in it.get("key", "") or m is not None, tag=(m.group(1) if m else ""),
                                fname=fname, override=override)
            ctx.log("replayed %s in %s: %s; effects observed: %s" % (
                inp.get("arm"), mode, classify(mode, res, inp.get("position", "toplevel")), effects_observed(res)))
    finally:
        shutil.rmtree(root, ignore_errors=True)
