import GardenVerif.Lemmas.ExtractFunSim
/-!
# C20 — Extract variable and extract function preserve behaviour

(V) certified validator, built on Model/Extract.lean part 2.

Relations, decided by the driver on the two trees of the REAL parser (`hoist_check`, `funext_check`):
* `IsLetHoist p p' t n`: up to node ids / use flags, `p'` is `p` with `let n = e` (`e` = the node `t`,
  one layer of parentheses dropped, as the tool does) inserted as a statement IMMEDIATELY BEFORE the
  statement on whose block-free spine the node lies — i.e. in the same block, never outside a branch
  of `if`, a loop body, a `match` arm or a closure body — and exactly that occurrence replaced by the
  variable `n`; `n` occurs nowhere in `p`.
* `IsFunExtract p p' t n`: `p'` has one more toplevel function `n` whose body is exactly `e`; `p'`
  without it is `p` with the node replaced by the call `n(params…)`, the arguments being the new
  function's parameter names in the same order; `n` is fresh.

Proved here (all programs, all fuel; closure-free restriction `cl = false` of `RefSem`, hence `_partial`):
* `hoistCheck_sound`, `funextCheck_sound` — the decision procedures imply the relations;
* `let_hoist_sound_partial`, `let_hoist_behaviour_partial`, `hoistCheck_behaviour_partial` —
  `IsLetHoist` + the decidable side conditions `hoistSafe` (assignment-free, `n` unused, `e` pure and
  call-free, everything evaluated before `e` in its statement pure and call-free, not a `while`
  condition): a run of `p` that ends without a Garden error is reproduced — same result value, same
  printed output — by `p'` with fuel `2 * k`. No "e is total" hypothesis: if `e` raises an error
  where the statement starts, the original run is an error run too (`spBad`).
* `fun_extract_sound_partial`, `fun_extract_behaviour_partial` — `IsFunExtract` + `funSafe` (see
  there): same conclusion with fuel `(number of parameters + 5) * k`.
* `pure_keeps_state_partial`, `hoisted_use_partial` — the local ingredients (any `cl`).
The simulations (Lemmas/ExtractHoistSim, Lemmas/ExtractFunSim) are up to store EXTENSION: the
transformed program's store has additional cells (the hoisted variable; the call's parameters), the
environments are related by "every name other than `n` resolves to the same value" (`Agree`), and
stores of assignment-free programs only grow (`RelH`).

FULL STATEMENTS NOT PROVED: the same with closures (`cl = true`: closure values carry code, the two
runs' values differ by the transformation), for programs with assignments (stores would have to be
related by an injection instead of by extension), and for impure `e` / impure sub-expressions before
`e` in the statement (then the hypothesis would have to be a dynamic one). Per input the direct
oracle covers those: the output parses, and where the original ran without error the result prints
the same and ends the same way.
-/
set_option linter.unusedVariables false
set_option linter.unusedSimpArgs false

namespace C20
open Extract RefSem Validators
open Machine (Program Expr)

theorem hoistCheck_sound (p p' : Program) (t : Nat) (n : String) (h : hoistCheck p p' t n = true) :
    IsLetHoist p p' t n := by
  simp only [hoistCheck, Bool.and_eq_true, beq_iff_eq] at h
  exact ⟨progEq_sound _ _ h.1.1, h.1.2, h.2⟩

theorem funextCheck_sound (p p' : Program) (t : Nat) (n : String) (h : funextCheck p p' t n = true) :
    IsFunExtract p p' t n := by
  unfold funextCheck at h
  split at h
  · cases h
  · rename_i d hd
    split at h
    · rename_i b hb
      simp only [Bool.and_eq_true, beq_iff_eq, Bool.not_eq_true', decide_eq_true_eq] at h
      exact ⟨d, b, hd, hb, progEq_sound _ _ h.1.1.1.1, h.1.1.1.2, h.1.1.2, h.1.2, h.2⟩
    · cases h

/-- A pure (call-free) expression never changes the store or the printed output. -/
theorem pure_keeps_state_partial (cl : Bool) (p : Program) (n : Nat) (env : Env) (s : RefSem.St) (e : Expr)
    (h : arithE e = true) : (eval cl p n env s e).2 = s :=
  (keepsState cl p n).ev env s e h

/-- The local step of let-hoisting: if `e` has the value `v` in state `s` (and, being pure, leaves
`s` alone), then after `let n = e` the variable `n` evaluates to `v` in the extended environment
and leaves the new state alone, as `e` does. -/
theorem hoisted_use_partial (cl : Bool) (p : Program) (m : Nat) (env : Env) (s : RefSem.St) (e : Expr)
    (n : String) (v : Val) (hn : n ≠ "_") (he : eval cl p (m + 1) env s e = (.val v, s)) (id : Nat) (u : Bool) :
    let r := bindDest (.sym n) v env s
    ∃ env' s', r = .ok (env', s') ∧ eval cl p (m + 1) env' s' (.var id u n) = (.val v, s') := by
  have hn' : (n == "_") = false := by simpa using hn
  refine ⟨(n, s.store.length) :: env, { s with store := s.store ++ [v] }, ?_, ?_⟩
  · simp [bindDest, bindNames, hn']
  · simp [eval, lookupVar, lookup]

/-- `let_hoist_sound` (closure-free restriction of `RefSem`, hence `_partial`).
Hypotheses: `IsLetHoist p p' t n` (the schema, decided by `hoistCheck`) and `hoistSafe t n p`, the side
conditions decided on the tree before by `hoist_check`:
* `n ≠ "_"` and `n` is not used as a variable or binder anywhere in `p`;
* `p` is assignment-free (no `=`, `+=`, `-=`);
* where the `let` is inserted, the extracted expression `e` is pure and call-free (`arithE`) and `sp t`
  holds: the node lies on the block-free spine of its statement, every sub-expression of the statement
  evaluated BEFORE it is pure and call-free, and it is not a `while` condition. (The real tool
  guarantees the spine / same-block part; purity of `e` and of what precedes it in the statement is
  what excludes an observable change of evaluation order.)
Conclusion: for every fuel `k`, if the original run ends without a Garden error (result neither
`timeout` nor `err` nor `unsupported`), then the extracted program with fuel `2 * k` ends with the
SAME result value and has printed the SAME output. (Stores are not compared: the extracted program's
store has the additional cells of the hoisted variable; internally the simulation is up to store
extension, `RelH`.) The proof also shows: if `e` raises an error where the statement starts, the
original run is an error run as well (`spBad`), which is why no "e is total" hypothesis is needed. -/
theorem let_hoist_sound_partial (p p' : Program) (t : Nat) (n : String)
    (h : IsLetHoist p p' t n) (hs : hoistSafe t n p = true) (k : Nat)
    (hk : bad (run false p k).1 = false) :
    (run false p' (2 * k)).1 = (run false p k).1 ∧ (run false p' (2 * k)).2.out = (run false p k).2.out := by
  have hr := hoistProg_run hs k
  rcases hr with hr | ⟨e1, e2, _, _⟩
  · rw [hk] at hr; cases hr
  · have hq : isTO (run false (hoistProg t n p) (2 * k)).1 = false := by rw [← e1]; exact isTO_bad hk
    have h1 := strip_run (hoistProg t n p) (2 * k) (Or.inl hq)
    have h2 := strip_run p' (2 * k) (Or.inr (by rw [h.1, h1]; exact hq))
    rw [← h2, h.1, h1]
    exact ⟨e1.symm, e2.symm⟩

/-- Observable behaviour: a finished original run is reproduced by the extracted program. -/
theorem let_hoist_behaviour_partial (p p' : Program) (t : Nat) (n : String)
    (h : IsLetHoist p p' t n) (hs : hoistSafe t n p = true) (k : Nat)
    (hk : (behaviour false p k).1 = .finished) :
    behaviour false p' (2 * k) = behaviour false p k := by
  have hb : bad (run false p k).1 = false := by
    simp only [behaviour] at hk
    cases hr : (run false p k).1 <;> rw [hr] at hk <;> simp [Res.outcome] at hk <;> rfl
  have := let_hoist_sound_partial p p' t n h hs k hb
  simp only [behaviour, this.1, this.2]

/-- What the driver's verdict gives: `hoist_check` schema + side conditions ⇒ same behaviour. -/
theorem hoistCheck_behaviour_partial (p p' : Program) (t : Nat) (n : String)
    (h : hoistCheck p p' t n = true) (hs : hoistSafe t n p = true) (k : Nat)
    (hk : (behaviour false p k).1 = .finished) :
    behaviour false p' (2 * k) = behaviour false p k :=
  let_hoist_behaviour_partial p p' t n (hoistCheck_sound p p' t n h) hs k hk


/-- `fun_extract_sound` (closure-free restriction of `RefSem`, hence `_partial`).
Hypotheses: `IsFunExtract p p' t n` (the schema, decided by `funextCheck`) and `funSafe p p' t n`, the
side conditions decided by `funext_check` on the real trees (`d` = the new function, `e` = node `t`):
* `n ≠ "_"`, no parameter is `_`, and `n` is neither a function, an enum variant nor a built-in of `p`;
* `p` is assignment-free and never uses `n` as a variable;
* `e` is pure and call-free (`arithE`), contains no other node with its id, and equals the new
  function's body up to ids / flags;
* every parameter of `d` occurs in `e`; every variable of `e` is a parameter of `d` or a name that `p`
  never binds (a global: function, enum constant); no binder of `p` and no parameter of `d` is called
  `n` or like one of these globals.
Conclusion: if the original run with fuel `k` ends without a Garden error, the extracted program with
fuel `(d.params.length + 5) * k` ends with the SAME result value and has printed the SAME output. The
core is `call_step`: the call `n(params…)` evaluates its arguments (the free variables), binds them in
a fresh frame and evaluates `e` there to the value `e` has in the caller's environment; the store only
grows by the parameter cells (simulation up to store extension), and a program with one more, fresh,
toplevel function runs the same wherever that function is not called (`EqP`: the interpreter reads
the function table only through lookup by name). -/
theorem fun_extract_sound_partial (p p' : Program) (t : Nat) (n : String)
    (h : IsFunExtract p p' t n) (hs : funSafe p p' t n = true) (k : Nat)
    (hk : bad (run false p k).1 = false) :
    ∃ m, (run false p' m).1 = (run false p k).1 ∧ (run false p' m).2.out = (run false p k).2.out := by
  obtain ⟨d, b, hd, hb, h3, _, _, _, _⟩ := h
  simp only [funSafe, hd, hb, Bool.and_eq_true, bne_iff_ne, ne_eq, Option.isNone_iff_eq_none,
    List.all_eq_true] at hs
  obtain ⟨⟨⟨⟨⟨hn, psu⟩, nfree⟩, psf⟩, gfuns⟩, gtop⟩ := hs
  have psu' : (fxOf t n d b).ps.all (· != "_") = true := by
    simp only [List.all_eq_true, bne_iff_ne, ne_eq]; exact psu
  have psf' : (fxOf t n d b).ps.all (fxOf t n d b).f = true := by
    simp only [List.all_eq_true]; exact psf
  have hc : FCtx (fxOf t n d b) p (canonQ (fxOf t n d b) p) := fctx_canon hn psu' psf' nfree gfuns
  have hr := canon_run hc gtop k
  have ⟨heq, htop⟩ := eqP_canon (x := fxOf t n d b) (p := p) (p' := p') hd hb rfl rfl h3
  refine ⟨thrX (fxOf t n d b) k, ?_⟩
  rcases hr with hr | ⟨e1, e2, _, _⟩
  · rw [hk] at hr; cases hr
  · have hq : isTO (run false (canonQ (fxOf t n d b) p) (thrX (fxOf t n d b) k)).1 = false := by
      rw [← e1]; exact isTO_bad hk
    have h1 := eqP_run false heq htop (thrX (fxOf t n d b) k)
    have h2 := strip_run p' (thrX (fxOf t n d b) k) (Or.inr (by rw [← h1]; exact hq))
    rw [← h2, ← h1]
    exact ⟨e1.symm, e2.symm⟩

/-- Observable behaviour: a finished original run is reproduced by the program with the extracted function. -/
theorem fun_extract_behaviour_partial (p p' : Program) (t : Nat) (n : String)
    (h : IsFunExtract p p' t n) (hs : funSafe p p' t n = true) (k : Nat)
    (hk : (behaviour false p k).1 = .finished) :
    ∃ m, behaviour false p' m = behaviour false p k := by
  have hb : bad (run false p k).1 = false := by
    simp only [behaviour] at hk
    cases hr : (run false p k).1 <;> rw [hr] at hk <;> simp [Res.outcome] at hk <;> rfl
  obtain ⟨m, h1, h2⟩ := fun_extract_sound_partial p p' t n h hs k hb
  exact ⟨m, by simp only [behaviour, h1, h2]⟩


/-- Non-trivial instance of the relation: `println(string_repr((1 + 2) * 3))`, extracting `1 + 2`
(node 7, inside parentheses 6) as `nv`: `let nv = 1 + 2` before the statement, `nv * 3` in it. -/
example :
    let p : Program := ⟨[], [], [.call 1 false (.var 2 true "println")
      [.call 3 true (.var 4 true "string_repr") [.binop 5 true .mul
        (.paren 6 true (.binop 7 true .add (.int 8 true 1) (.int 9 true 2))) (.int 10 true 3)]]]⟩
    let p' : Program := ⟨[], [], [.letE 20 false (.sym "nv") (.binop 21 true .add (.int 22 true 1) (.int 23 true 2)),
      .call 24 false (.var 25 true "println")
      [.call 26 true (.var 27 true "string_repr") [.binop 28 true .mul (.var 29 true "nv") (.int 30 true 3)]]]⟩
    hoistCheck p p' 6 "nv" = true ∧ hoistSafe 6 "nv" p = true := by
  simp [hoistSafe, GSeq, G, GList, sp, spL, noSp, noSpL, arithE, arithL, freshDest, hoistCheck, progEq, WP, WSeq, W, fin, stripCfg, WCfg.i, WCfg.u, seqEq, exprEq, funsEq, enumsEq, hitsProg,
    hitsSeq, hits, hitsOf, hoistProg, HSeq, findSp, findSpL, pick, HR, HRList, H, HList, unparen, freshProg, freshSeq,
    fresh, destEq]

/-- Non-trivial instance for extract function: `let a = 3` / `println(string_repr(a + 2))`, extracting
`a + 2` (node 7) as `nf`: the new function `nf(a) { a + 2 }` and the call `nf(a)`; schema and side
conditions hold. -/
example :
    let p : Program := ⟨[], [], [.letE 1 false (.sym "a") (.int 2 true 3),
      .call 3 false (.var 4 true "println") [.call 5 true (.var 6 true "string_repr")
        [.binop 7 true .add (.var 8 true "a") (.int 9 true 2)]]]⟩
    let p' : Program := ⟨[⟨"nf", ["a"], [.binop 20 true .add (.var 21 true "a") (.int 22 true 2)]⟩], [],
      [.letE 23 false (.sym "a") (.int 24 true 3),
       .call 25 false (.var 26 true "println") [.call 27 true (.var 28 true "string_repr")
        [.call 29 true (.var 30 true "nf") [.var 31 true "a"]]]]⟩
    funextCheck p p' 7 "nf" = true ∧ funSafe p p' 7 "nf" = true := by
  simp [funextCheck, funSafe, fxOf, funCfg, FX.cfg, FX.f, FX.selOK, GFSeq, GF, GFFun, bokDest, callOf, varsE, arithE,
    progEq, WP, WSeq, W, fin, stripCfg, WCfg.i, WCfg.u, seqEq, exprEq, funsEq, enumsEq, hitsProg, hitsSeq, hits,
    hitsOf, freshProg, freshSeq, fresh, freshDest, destEq, funNames, nsLookup, findVariant, Machine.preludeEnums,
    builtinNames, List.findIdx?_cons, Expr.id, WFun, expectedParams, fvE, dedup, pureGlobal, bokProg, bokSeq, bok]

end C20
